"""Worker: executes cases of one property in this process (one HiGHS thread setting per process)."""
import sys, os, json, time, importlib, traceback, faulthandler, logging


def main():
    pid, inp, out = sys.argv[1], sys.argv[2], sys.argv[3]
    faulthandler.enable()
    try:
        import resource
        lim = int(os.environ.get("FPVERIF_MEM_GB", "6")) << 30
        resource.setrlimit(resource.RLIMIT_AS, (lim, lim))   # a runaway case becomes a MemoryError event, not an OOM of the sandbox
    except Exception:
        pass
    import flowpaths
    root = os.path.realpath(os.environ.get("FPVERIF_REPO") or "/repo") + "/"
    if not os.path.realpath(flowpaths.__file__).startswith(root):
        print("flowpaths not imported from /repo:", flowpaths.__file__, file=sys.stderr)
        sys.exit(97)
    # the library logs ERRORs for inputs we feed on purpose; they go to the LogMonitor, not to stderr
    from fpverif import monitors
    monitors.install_log_monitor()
    mod = importlib.import_module(f"fpverif.props.{pid.lower()}")
    with open(inp) as f:
        cases = json.load(f)
    with open(out, "a", buffering=1) as fo:
        for c in cases:
            fo.write(json.dumps({"start": c["id"], "t": time.time()}) + "\n")
            fo.flush()
            t0 = time.time()
            try:
                res = mod.run_case(c)
            except SystemExit as e:
                res = {"viol": [], "obs": {}, "inconclusive": f"harness saw SystemExit({e.code}) outside a monitored call"}
            except BaseException:
                res = {"viol": [], "obs": {}, "inconclusive": "harness exception: " + traceback.format_exc()[-1800:]}
            res["t"] = round(time.time() - t0, 3)
            fo.write(json.dumps({"done": c["id"], "res": res}, default=str) + "\n")
            fo.flush()


if __name__ == "__main__":
    main()
