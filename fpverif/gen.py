"""Seeded workload generators. Pure functions of a random.Random; return plain JSON-able data."""
import random, itertools, collections
import networkx as nx


def rng_for(*parts):
    return random.Random(":".join(str(p) for p in parts))


# ------------------------------------------------------------------ graph spec <-> networkx
def spec(nodes, edges, nattr=None, eattr=None, gattr=None):
    """nodes: list of names; edges: list of (u,v); nattr: {node:{..}}, eattr: {(u,v):{..}}"""
    return {"nodes": [[n, dict((nattr or {}).get(n, {}))] for n in nodes],
            "edges": [[u, v, dict((eattr or {}).get((u, v), {}))] for (u, v) in edges],
            "graph": dict(gattr or {})}


class StrTag(str):
    """a str subclass whose str() differs from the string itself"""
    def __str__(self):
        return "Tag." + str.__str__(self)


def build(sp):
    G = nx.DiGraph()
    for n, d in sp["nodes"]:
        G.add_node(n, **d)
    for u, v, d in sp["edges"]:
        G.add_edge(u, v, **d)
    G.graph.update(sp.get("graph", {}))
    if sp.get("str_subclass"):
        # the same graph with nodes of a str subclass whose str() is NOT the node (like a member of `class N(str, enum.Enum)`): such a node
        # is a string (passes the 'nodes must be strings' check), equals and hashes like the plain name
        G = nx.relabel_nodes(G, {v: StrTag(v) for v in G.nodes})
    npt = sp.get("np_type")
    if npt:
        # the same numbers stored as numpy scalars of the named type (what a graph built from an array or a data frame carries);
        # sp["np_attrs"] names the attributes concerned (default: "flow")
        import numpy as np
        t = (lambda x: np.array(x)) if npt == "array0d" else getattr(np, npt)      # ("array0d": 0-dimensional arrays, mutable scalars in disguise)
        for attrs in [d for _, d in G.nodes(data=True)] + [d for _, _, d in G.edges(data=True)]:
            for a in sp.get("np_attrs", ["flow"]):
                if a in attrs and attrs[a] is not None and not isinstance(attrs[a], bool):
                    attrs[a] = t(attrs[a])
    return G


def edges_of(sp):
    return [(u, v) for u, v, _ in sp["edges"]]


def tup(e):
    return (e[0], e[1])


def tupl(lst):
    return [tup(e) for e in lst]


# ------------------------------------------------------------------ names
PLAIN = [chr(ord("a") + i) for i in range(26)]
NUMERIC = [str(i) for i in range(30)]
HOSTILE = ["a", "a.0", "a.1", "source", "sink", "s", "t", "0", "1", "10", "2", "b.1", "v.0", "x y".replace(" ", "_"), "A", "a_expanded", "0_expanded"]


def pick_names(rng, n):
    r = rng.random()
    if r < 0.6:
        return PLAIN[:n]
    if r < 0.8:
        return NUMERIC[:n]
    pool = list(HOSTILE)
    rng.shuffle(pool)
    if n > len(pool):
        pool += PLAIN
    return pool[:n]


# ------------------------------------------------------------------ DAG shapes
def _clean(nodes, edges):
    used = set(x for e in edges for x in e)
    nodes = [n for n in nodes if n in used]
    return nodes, edges


def dag_random(rng, n=None, p=None, names=None):
    n = n or rng.randint(3, 7)
    p = p if p is not None else rng.choice([0.3, 0.45, 0.6, 0.8])
    names = names or pick_names(rng, n)
    edges = [(names[i], names[j]) for i in range(n) for j in range(i + 1, n) if rng.random() < p]
    if not edges:
        edges = [(names[0], names[1])]
    return _clean(names[:n], edges)


def dag_chain(rng, n=None):
    n = n or rng.randint(2, 6); names = pick_names(rng, n)
    return names, [(names[i], names[i + 1]) for i in range(n - 1)]


def dag_single_edge(rng):
    names = pick_names(rng, 2)
    return names, [(names[0], names[1])]


def dag_out_star(rng, k=None):
    k = k or rng.randint(2, 5); names = pick_names(rng, k + 1)
    return names, [(names[0], names[i]) for i in range(1, k + 1)]


def dag_in_star(rng, k=None):
    k = k or rng.randint(2, 5); names = pick_names(rng, k + 1)
    return names, [(names[i], names[0]) for i in range(1, k + 1)]


def dag_diamonds(rng, d=None):
    d = d or rng.randint(1, 3)
    names = pick_names(rng, 3 * d + 1)
    edges = []
    for i in range(d):
        a, b, c, e = names[3 * i], names[3 * i + 1], names[3 * i + 2], names[3 * i + 3]
        edges += [(a, b), (a, c), (b, e), (c, e)]
    return names, edges


def dag_ladder(rng, r=None):
    r = r or rng.randint(2, 4)
    names = pick_names(rng, 2 * r)
    top = names[:r]; bot = names[r:]
    edges = [(top[i], top[i + 1]) for i in range(r - 1)] + [(bot[i], bot[i + 1]) for i in range(r - 1)]
    edges += [(top[i], bot[i + 1]) for i in range(r - 1) if rng.random() < 0.7]
    edges += [(bot[i], top[i + 1]) for i in range(r - 1) if rng.random() < 0.4]
    return _clean(names, edges)


def dag_multi_st(rng):
    """several sources and sinks around a core"""
    ns = rng.randint(1, 3); nt = rng.randint(1, 3); nc = rng.randint(1, 3)
    names = pick_names(rng, ns + nt + nc)
    S, C, T = names[:ns], names[ns:ns + nc], names[ns + nc:]
    edges = []
    for s in S:
        for c in C:
            if rng.random() < 0.7:
                edges.append((s, c))
    for i in range(len(C) - 1):
        if rng.random() < 0.7:
            edges.append((C[i], C[i + 1]))
    for c in C:
        for t in T:
            if rng.random() < 0.7:
                edges.append((c, t))
    if rng.random() < 0.3:
        edges.append((S[0], T[0]))
    if not edges:
        edges = [(S[0], C[0]), (C[0], T[0])]
    return _clean(names, edges)


def dag_unary_stretch(rng):
    """long in/out-degree-1 stretches around a bubble (what safe paths extend over)"""
    names = pick_names(rng, 8)
    a, b, c, d, e, f, g, h = names
    edges = [(a, b), (b, c), (c, d), (c, e), (d, f), (e, f), (f, g), (g, h)]
    if rng.random() < 0.5:
        edges.append((b, f))
    return _clean(names, edges)


def dag_two_components(rng):
    names = pick_names(rng, 5)
    a, b, c, d, e = names
    return names, [(a, b), (c, d), (d, e)]


DAG_SHAPES = [dag_random, dag_random, dag_random, dag_chain, dag_single_edge, dag_out_star, dag_in_star, dag_diamonds,
              dag_ladder, dag_multi_st, dag_unary_stretch, dag_two_components]


def dag_any(rng, max_edges=14):
    for _ in range(50):
        f = rng.choice(DAG_SHAPES)
        nodes, edges = f(rng)
        if 1 <= len(edges) <= max_edges:
            return nodes, edges
    return dag_chain(rng, 3)


def dag_sources(nodes, edges):
    indeg = collections.Counter(v for _, v in edges)
    return [n for n in nodes if indeg[n] == 0]


def dag_sinks(nodes, edges):
    outdeg = collections.Counter(u for u, _ in edges)
    return [n for n in nodes if outdeg[n] == 0]


def all_paths(nodes, edges, S=None, T=None, limit=5000):
    succ = collections.defaultdict(list)
    for u, v in edges:
        succ[u].append(v)
    S = S if S is not None else dag_sources(nodes, edges)
    T = set(T if T is not None else dag_sinks(nodes, edges))
    out = []

    def rec(p):
        if len(out) > limit:
            return
        if p[-1] in T:
            out.append(list(p))
        for w in succ[p[-1]]:
            p.append(w); rec(p); p.pop()

    for s in S:
        rec([s])
    return out


def plant_paths(rng, nodes, edges, npaths=None, maxw=6, wvals=None, S=None, T=None, cover=True):
    """Superposition of weighted source-to-sink paths. Returns (flow dict edge->value, planted [(path, w)])."""
    P = all_paths(nodes, edges, S, T)
    npaths = npaths or rng.randint(1, 4)
    chosen = [rng.choice(P) for _ in range(min(npaths, max(1, len(P))))] if P else []
    if cover:
        for e in edges:
            if not any(e in zip(p, p[1:]) for p in chosen):
                cands = [p for p in P if e in zip(p, p[1:])]
                if cands:
                    chosen.append(rng.choice(cands))
    flow = {e: 0 for e in edges}
    planted = []
    for p in chosen:
        w = rng.choice(wvals) if wvals else rng.randint(1, maxw)
        planted.append((p, w))
        for e in zip(p, p[1:]):
            flow[e] += w
    return flow, planted


# ------------------------------------------------------------------ cyclic shapes
def cyc_random(rng, n=None, extra=None, names=None):
    """chain s->n0->..->t plus random extra edges among inner nodes (back edges, self-loops, chords)."""
    n = n or rng.randint(1, 4)
    names = names or pick_names(rng, n + 2)
    s, t = names[0], names[1]; inner = names[2:2 + n]
    edges = [(s, inner[0])] + [(inner[i], inner[i + 1]) for i in range(n - 1)] + [(inner[-1], t)]
    extra = extra if extra is not None else rng.randint(1, 4)
    for _ in range(extra):
        a, b = rng.choice(inner), rng.choice(inner)
        if (a, b) not in edges:
            edges.append((a, b))
    if rng.random() < 0.25:
        e = (s, rng.choice(inner))
        if e not in edges:
            edges.append(e)
    if rng.random() < 0.25:
        e = (rng.choice(inner), t)
        if e not in edges:
            edges.append(e)
    return [s, t] + inner, edges


def cyc_figure8(rng):
    names = pick_names(rng, 5); s, t, a, b, c = names
    return names, [(s, a), (a, b), (b, a), (a, c), (c, a), (a, t)]


def cyc_selfloop(rng):
    names = pick_names(rng, 4); s, t, a, b = names
    e = [(s, a), (a, a), (a, b), (b, t)]
    if rng.random() < 0.5:
        e.append((b, b))
    return names, e


def cyc_long_chord(rng):
    names = pick_names(rng, 6); s, t, a, b, c, d = names
    e = [(s, a), (a, b), (b, c), (c, d), (d, a), (b, d), (c, t)]
    return names, e


def cyc_two_sccs_parallel(rng):
    """two SCCs joined by two parallel inter-SCC edges with different endpoints"""
    names = pick_names(rng, 6); s, t, a, b, c, d = names
    e = [(s, a), (a, b), (b, a), (a, c), (b, d), (c, d), (d, c), (d, t)]
    if rng.random() < 0.5:
        e.append((c, t))
    return names, e


def cyc_nested(rng):
    """a cycle reachable only through another cycle"""
    names = pick_names(rng, 6); s, t, a, b, c, d = names
    e = [(s, a), (a, b), (b, a), (b, c), (c, d), (d, c), (c, b), (a, t)]
    return names, e


def cyc_bridge_return(rng):
    """one bridge-like edge with two return routes (cover needs it twice)"""
    names = pick_names(rng, 6); s, t, a, b, c, d = names
    e = [(s, a), (a, b), (b, c), (c, a), (b, d), (d, a), (b, t)]
    return names, e


def cyc_multi_source(rng):
    names = pick_names(rng, 7); s1, s2, t1, t2, a, b, c = names
    e = [(s1, a), (s2, b), (a, b), (b, a), (b, c), (c, t1), (a, t2)]
    if rng.random() < 0.5:
        e.append((c, c))
    return names, e


def cyc_sccs_series(rng):
    names = pick_names(rng, 6); s, t, a, b, c, d = names
    e = [(s, a), (a, b), (b, a), (b, c), (c, d), (d, c), (d, t)]
    if rng.random() < 0.5:
        e.append((a, c))
    return names, e


def cyc_bundle(rng):
    """two SCCs joined by a bundle of >= 3 parallel inter-SCC edges (all map to ONE edge of the condensation)"""
    names = pick_names(rng, 6); s, t, a, b, c, d = names
    e = [(s, a), (a, b), (b, a), (c, d), (d, c), (a, c), (b, d), (a, d), (d, t)]
    if rng.random() < 0.4:
        e.append((b, c))
    if rng.random() < 0.3:
        e.append((c, t))
    return names, e


def cyc_dag_like(rng):
    nodes, edges = dag_any(rng, 9)
    return nodes, edges


CYC_SHAPES = [cyc_random, cyc_random, cyc_random, cyc_random, cyc_figure8, cyc_selfloop, cyc_long_chord,
              cyc_two_sccs_parallel, cyc_nested, cyc_bridge_return, cyc_multi_source, cyc_sccs_series, cyc_dag_like]


def cyc_any(rng, max_edges=11):
    for _ in range(50):
        f = rng.choice(CYC_SHAPES)
        nodes, edges = f(rng)
        if 1 <= len(edges) <= max_edges:
            return nodes, edges
    return cyc_selfloop(rng)


def random_walk(rng, nodes, edges, starts=None, ends=None, maxlen=10):
    succ = collections.defaultdict(list)
    for u, v in edges:
        succ[u].append(v)
    starts = starts or dag_sources(nodes, edges)
    ends = set(ends or dag_sinks(nodes, edges))
    G = nx.DiGraph(edges)
    v = rng.choice(starts); w = [v]
    for _ in range(200):
        if v in ends and (len(w) > 1 or not succ[v]) and (not succ[v] or rng.random() < 0.5 or len(w) > maxlen):
            return w
        if len(w) > maxlen:
            # head for the nearest end
            best = None
            for t in ends:
                if t in G and v in G and nx.has_path(G, v, t):
                    p = nx.shortest_path(G, v, t)
                    if best is None or len(p) < len(best):
                        best = p
            if best is None:
                return None
            return w + best[1:]
        if not succ[v]:
            return w if v in ends else None
        v = rng.choice(succ[v]); w.append(v)
    return None


def plant_walks(rng, nodes, edges, nwalks=None, maxw=2, maxlen=8, starts=None, ends=None, cover=True):
    G = nx.DiGraph(edges)
    starts = starts or dag_sources(nodes, edges)
    ends = ends or dag_sinks(nodes, edges)
    walks = []
    nwalks = nwalks or rng.randint(1, 3)
    for _ in range(nwalks):
        w = random_walk(rng, nodes, edges, starts, ends, maxlen)
        if w and len(w) > 1:
            walks.append(w)
    if cover:
        for (u, v) in edges:
            if not any((u, v) in zip(w, w[1:]) for w in walks):
                p1 = p2 = None
                for s in starts:
                    if nx.has_path(G, s, u):
                        p1 = nx.shortest_path(G, s, u); break
                for t in ends:
                    if nx.has_path(G, v, t):
                        p2 = nx.shortest_path(G, v, t); break
                if p1 is None or p2 is None:
                    return None, None
                walks.append(p1 + p2)
    flow = {e: 0 for e in edges}
    planted = []
    for w in walks:
        wt = rng.randint(1, maxw)
        planted.append((w, wt))
        for e in zip(w, w[1:]):
            flow[e] += wt
    return flow, planted


# ------------------------------------------------------------------ constraints
def rand_subpath_constraints(rng, paths, n=None, contiguous_prob=0.5):
    """lists of edges that are subsequences of some s-t path (so that they are satisfiable)"""
    out = []
    n = n if n is not None else rng.randint(1, 3)
    for _ in range(n):
        p = rng.choice(paths); pe = list(zip(p, p[1:]))
        if not pe:
            continue
        if rng.random() < contiguous_prob:
            i = rng.randrange(len(pe)); j = rng.randint(i + 1, len(pe))
            out.append(pe[i:j])
        else:
            idx = sorted(rng.sample(range(len(pe)), rng.randint(1, len(pe))))
            out.append([pe[i] for i in idx])
    if out and rng.random() < 0.2:
        out.append(list(out[0]))  # duplicate
    return out


def jl(x):
    """make tuples JSON friendly (lists)"""
    if isinstance(x, (list, tuple)):
        return [jl(y) for y in x]
    if isinstance(x, dict):
        return {str(k): jl(v) for k, v in x.items()}
    return x
