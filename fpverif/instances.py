"""Instance families for the MILP model classes (JSON-able), with the metadata the oracles need."""
import hashlib
import collections, itertools
import networkx as nx
from fpverif import gen

DYADIC = [0.5, 0.25, 1.5, 2.0, 3.75, 0.125, 6.0, 1.0]


def _wvals(rng, wt):
    if wt == "int":
        return rng.choice([None, None, [1, 2, 3], [1, 1, 1], [5, 7, 11, 13]])
    return rng.choice([DYADIC, [0.5, 0.25, 0.125], [1.0, 2.0, 4.0], DYADIC])


# --------------------------------------------------------------------------------------------- DAG, edge weighted
def dag_edge_base(rng, wt=None, max_edges=11, exact=True, shape=None, npaths=None):
    wt = wt or rng.choice(["int", "int", "float"])
    nodes, edges = (shape(rng) if shape else gen.dag_any(rng, max_edges))
    flow, planted = gen.plant_paths(rng, nodes, edges, npaths=npaths or rng.randint(1, 4), maxw=rng.choice([4, 9]), wvals=_wvals(rng, wt))
    if wt == "float":
        flow = {e: float(f) for e, f in flow.items()}
    noise = {}
    if not exact:
        for e in edges:
            r = rng.random()
            if r < 0.35:
                d = rng.choice([1, 2, 3]) if wt == "int" else rng.choice([0.5, 1.0, 0.25])
                if rng.random() < 0.5 and flow[e] - d >= 0:
                    d = -d
                flow[e] += d; noise[e] = d
    return {"nodes": nodes, "edges": edges, "flow": flow, "planted": planted, "wt": wt, "noise": noise, "mode": "edge"}


def dag_node_base(rng, wt=None, max_edges=10, exact=True):
    wt = wt or rng.choice(["int", "int", "float"])
    r = rng.random()
    if r < 0.08:
        nodes, edges = [rng.choice(["v", "a.0", "0"])], []          # single-node graph
    else:
        nodes, edges = gen.dag_any(rng, max_edges)
    P = gen.all_paths(nodes, edges) if edges else [[nodes[0]]]
    chosen = [rng.choice(P) for _ in range(rng.randint(1, 3))]
    for v in nodes:
        if not any(v in p for p in chosen):
            chosen.append(rng.choice([p for p in P if v in p]))
    wv = _wvals(rng, wt)
    nflow = {v: 0 for v in nodes}; planted = []
    for p in chosen:
        w = rng.choice(wv) if wv else rng.randint(1, 6)
        planted.append((p, w))
        for v in p:
            nflow[v] += w
    if wt == "float":
        nflow = {v: float(f) for v, f in nflow.items()}
    noise = {}
    if not exact:
        for v in nodes:
            if rng.random() < 0.35:
                d = rng.choice([1, 2]) if wt == "int" else rng.choice([0.5, 1.0])
                nflow[v] += d; noise[v] = d
    return {"nodes": nodes, "edges": edges, "flow": nflow, "planted": planted, "wt": wt, "noise": noise, "mode": "node"}


# --------------------------------------------------------------------------------------------- cyclic
def cyc_edge_base(rng, wt="int", max_edges=10, exact=True, maxw=2, maxlen=7, shape=None, npaths=None):
    for _ in range(30):
        nodes, edges = (shape(rng) if shape else gen.cyc_any(rng, max_edges))
        flow, planted = gen.plant_walks(rng, nodes, edges, nwalks=(npaths if npaths is not None else rng.randint(1, 3)), maxw=maxw, maxlen=maxlen)
        if flow is None:
            continue
        if max(flow.values()) > 6:
            continue
        break
    else:
        nodes, edges = gen.cyc_selfloop(rng)
        flow, planted = gen.plant_walks(rng, nodes, edges, nwalks=1, maxw=1, maxlen=4)
    noise = {}
    if not exact:
        for e in edges:
            if rng.random() < 0.3:
                d = rng.choice([1, 2]);
                if rng.random() < 0.5 and flow[e] - d >= 0:
                    d = -d
                flow[e] += d; noise[e] = d
    if wt == "float":
        flow = {e: float(f) for e, f in flow.items()}
    return {"nodes": nodes, "edges": edges, "flow": flow, "planted": planted, "wt": wt, "noise": noise, "mode": "edge"}


def cyc_node_base(rng, wt="int", max_edges=9, exact=True):
    for _ in range(30):
        nodes, edges = gen.cyc_any(rng, max_edges)
        flow, planted = gen.plant_walks(rng, nodes, edges, nwalks=rng.randint(1, 2), maxw=2, maxlen=6)
        if flow is None:
            continue
        nflow = {v: 0 for v in nodes}
        for w, x in planted:
            for v in w:
                nflow[v] += x
        if max(nflow.values()) <= 6:
            break
    else:
        nodes, edges = gen.cyc_selfloop(rng)
        flow, planted = gen.plant_walks(rng, nodes, edges, nwalks=1, maxw=1, maxlen=4)
        nflow = {v: 0 for v in nodes}
        for w, x in planted:
            for v in w:
                nflow[v] += x
    noise = {}
    if not exact:
        for v in nodes:
            if rng.random() < 0.3:
                nflow[v] += 1; noise[v] = 1
    if wt == "float":
        nflow = {v: float(f) for v, f in nflow.items()}
    return {"nodes": nodes, "edges": edges, "flow": nflow, "planted": planted, "wt": wt, "noise": noise, "mode": "node"}


def add_zero_elements(rng, base, n=1):
    """Adds elements whose flow is exactly 0 (legal: weights are only required to be non-negative): a chord edge no planted route
    uses (edge mode) or a node subdividing a new parallel edge (node mode). Returns the list of added elements."""
    added = []
    nodes = base["nodes"]; edges = base["edges"]
    for _ in range(n):
        if base["mode"] == "edge":
            cands = [(u, v) for i, u in enumerate(nodes) for v in nodes[i + 1:] if (u, v) not in edges and (v, u) not in edges and u != v]
            # keep DAGs acyclic: only forward chords w.r.t. a topological order of the current graph
            import networkx as nx
            G = nx.DiGraph(edges); G.add_nodes_from(nodes)
            if nx.is_directed_acyclic_graph(G):
                order = {v: i for i, v in enumerate(nx.topological_sort(G))}
                cands = [(u, v) if order[u] < order[v] else (v, u) for (u, v) in cands]
            # never turn a sink into an inner node or give a source an in-edge (the graph must keep its sources and sinks)
            outd = {u for u, _ in edges}; ind = {v for _, v in edges}
            cands = [(u, v) for (u, v) in cands if u in outd and v in ind]
            if not cands:
                break
            e = rng.choice(cands)
            edges.append(e); base["flow"][e] = 0 if base["wt"] == "int" else 0.0; added.append(e)
        else:
            if not edges:
                break
            u, v = rng.choice(edges)
            z = f"z{len(nodes)}"
            nodes.append(z); edges += [(u, z), (z, v)]; base["flow"][z] = 0 if base["wt"] == "int" else 0.0; added.append(z)
    return added


def spec_of(base, drop_attr=(), extra_eattr=None, extra_nattr=None, garbage=None):
    """graph spec with attribute 'flow' on edges or nodes; elements in drop_attr get no attribute; garbage: {elem: value}."""
    garbage = garbage or {}
    if base["mode"] == "edge":
        ea = {}
        for e in base["edges"]:
            d = {}
            if e not in drop_attr:
                d["flow"] = garbage.get(e, base["flow"][e])
            d.update((extra_eattr or {}).get(e, {}))
            ea[e] = d
        return gen.spec(base["nodes"], base["edges"], eattr=ea, nattr=extra_nattr)
    na = {}
    for v in base["nodes"]:
        d = {}
        if v not in drop_attr:
            d["flow"] = garbage.get(v, base["flow"][v])
        d.update((extra_nattr or {}).get(v, {}))
        na[v] = d
    ea = {e: dict(d) for e, d in (extra_eattr or {}).items()}
    for e, val in _edge_junk(base).items():
        # node-weighted input whose EDGES happen to carry an attribute of the same name (unrelated positive values): in node mode the edges
        # of the caller's graph carry no weight, whatever their attributes say
        ea.setdefault(e, {}); ea[e].setdefault("flow", val)
    return gen.spec(base["nodes"], base["edges"], nattr=na, eattr=ea or None)


def _edge_junk(base):
    """for about one node-weighted base in six (chosen by a hash of the base, no random numbers consumed): {edge: unrelated positive value}"""
    if base.get("mode") != "node" or not base.get("edges"):
        return {}
    h = int(hashlib.sha1(repr((base["nodes"], base["edges"], sorted(map(str, base["flow"].items())))).encode()).hexdigest(), 16)
    if h % 6:
        return {}
    out = {}
    for i, e in enumerate(base["edges"]):
        r = (h >> (8 + 3 * i)) % 8
        if r < 6:
            out[e] = (r + 1) * (1 if base.get("wt") == "int" else 0.5)
    return out


# --------------------------------------------------------------------------------------------- features
def constraints_from_planted(rng, base, n=None, as_nodes=None):
    """constraints that are sub-sequences of planted routes (so that the planted solution satisfies them)."""
    out = []
    n = n if n is not None else rng.randint(1, 2)
    routes = [p for p, _ in base["planted"]]
    for _ in range(n):
        p = rng.choice(routes)
        if base["mode"] == "node" and (as_nodes if as_nodes is not None else rng.random() < 0.7):
            if len(p) < 1:
                continue
            i = rng.randrange(len(p)); j = rng.randint(i + 1, len(p))
            out.append(list(p[i:j]))
        else:
            pe = list(zip(p, p[1:]))
            if not pe:
                continue
            if rng.random() < 0.5:
                i = rng.randrange(len(pe)); j = rng.randint(i + 1, len(pe))
                c = pe[i:j]
            else:
                idx = sorted(rng.sample(range(len(pe)), rng.randint(1, len(pe))))
                c = [pe[i] for i in idx]
            out.append([list(e) for e in c])
    # node-mode constraint lists must be homogeneous (all node lists or all edge lists)
    if base["mode"] == "node" and out:
        kind = isinstance(out[0][0], str)
        out = [c for c in out if isinstance(c[0], str) == kind]
    if out and rng.random() < 0.2:
        out.append(list(out[0]))
    return out


def pick_ignore(rng, base, frac=0.3):
    elems = base["edges"] if base["mode"] == "edge" else base["nodes"]
    k = max(1, int(len(elems) * frac))
    return rng.sample(elems, rng.randint(1, min(k, len(elems))))


def inner_nodes(base):
    indeg = collections.Counter(v for _, v in base["edges"]); outdeg = collections.Counter(u for u, _ in base["edges"])
    return [v for v in base["nodes"] if indeg[v] > 0 and outdeg[v] > 0]
