"""Driving the real model classes from JSON-able instance descriptions, with every outcome recorded as data."""
import copy, collections, math, fractions
import networkx as nx
import flowpaths as fp
from fpverif import gen, monitors as M

WT = {"int": int, "float": float}
SO1 = {"threads": 1}

EDGE_LIST_KEYS = ("subpath_constraints", "subset_constraints")


def _elem(x):
    return tuple(x) if isinstance(x, (list, tuple)) else x


def decode_kwargs(kw):
    out = {}
    for k, v in kw.items():
        if k == "weight_type":
            out[k] = WT.get(v, v)
        elif k in EDGE_LIST_KEYS:
            out[k] = [[_elem(e) for e in c] for c in v]
        elif k == "elements_to_ignore" or k == "trusted_edges_for_safety":
            out[k] = [_elem(e) for e in v] if v is not None else None
            if k == "elements_to_ignore" and kw.get("elements_to_ignore_as") == "generator" and v is not None:
                out[k] = (x for x in list(out[k]))      # a one-shot iterable with the same entries
        elif k == "elements_to_ignore_as":
            pass
        elif k == "error_scaling":
            out[k] = {_elem(e): f for e, f in v}
        elif k == "error_scaling_number_type":
            pass
        elif k == "path_length_ranges":
            out[k] = [tuple(r) for r in v]
        elif k in ("additional_starts", "additional_ends") and isinstance(v, dict) and "as" in v:
            # the same node collection in another container type: {"as": "tuple" | "set", "items": [...]}
            out[k] = {"tuple": tuple, "set": set, "list": list, "generator": (lambda it: (x for x in list(it)))}[v["as"]](v["items"])
        elif k == "optimization_options":
            out[k] = copy.deepcopy(v)
        else:
            out[k] = copy.deepcopy(v)
    if kw.get("error_scaling_number_type") and "error_scaling" in out:
        # the same factors given as another real number type (numpy scalars of a graph / table pipeline, fractions)
        import numpy as np, fractions
        t = {"float32": np.float32, "float64": np.float64, "float16": np.float16, "Fraction": fractions.Fraction}[kw["error_scaling_number_type"]]
        out["error_scaling"] = {e: t(f) for e, f in out["error_scaling"].items()}
    return out


def construct(inst, solver_options=SO1):
    """-> ('ok', model, G, kwargs) | ('exc'|'exit', type, msg, G, kwargs)"""
    G = gen.build(inst["spec"])
    kw = decode_kwargs(inst.get("kw", {}))
    if solver_options is not None and "solver_options" not in kw:
        kw["solver_options"] = dict(solver_options)
    cls = getattr(fp, inst["cls"])
    r = M.safe_call(cls, G, **kw)
    if r[0] == "ok":
        return ("ok", r[1], G, kw)
    return (r[0], r[1], r[2], G, kw)


def run(inst, solver_options=SO1, want_solution=True):
    """Construct + solve + getters. Returns dict with everything observed."""
    out = {"cls": inst["cls"]}
    c = construct(inst, solver_options)
    out["G"] = c[-2]; out["kw"] = c[-1]
    if c[0] != "ok":
        out["stage"] = "ctor"; out["exc"] = (c[1], c[2]); out["solved"] = False
        return out
    m = c[1]; out["model"] = m
    r = M.safe_call(m.solve)
    if r[0] != "ok":
        out["stage"] = "solve"; out["exc"] = (r[1], r[2]); out["solved"] = False
        try:
            out["solved"] = bool(m.is_solved())
        except BaseException:
            pass
        return out
    out["solve_ret"] = r[1]
    s = M.safe_call(m.is_solved)
    out["solved"] = bool(s[1]) if s[0] == "ok" else False
    out["stage"] = "done"
    if out["solved"] and want_solution:
        g = M.safe_call(m.get_solution)
        if g[0] == "ok":
            out["sol"] = g[1]
        else:
            out["stage"] = "get_solution"; out["exc"] = (g[1], g[2])
        o = M.safe_call(m.get_objective_value)
        if o[0] == "ok":
            out["obj"] = o[1]
        else:
            out["obj_exc"] = (o[1], o[2])
    try:
        out["status"] = m.solver.get_model_status() if getattr(m, "solver", None) is not None else None
    except BaseException:
        out["status"] = None
    return out


def routes_of(sol):
    return sol.get("paths", sol.get("walks"))


def traversal_counts(route, mode):
    """elements traversed by a route with multiplicities: edges (edge mode) or nodes (node mode)."""
    if mode == "node":
        return collections.Counter(route)
    return collections.Counter(zip(route, route[1:]))


def explained(sol, mode):
    tot = collections.defaultdict(lambda: 0)
    for r, w in zip(routes_of(sol), sol["weights"]):
        for el, c in traversal_counts(r, mode).items():
            tot[el] += w * c
    return tot


def num_close(a, b, tol=1e-6):
    return abs(a - b) <= tol * max(1.0, abs(a), abs(b))


def brief(inst):
    return {"cls": inst["cls"], "edges": gen.edges_of(inst["spec"])[:16],
            "kw": {k: v for k, v in inst.get("kw", {}).items() if k not in ("solver_options",)}}
