"""Runner: shards cases over worker subprocesses, applies watchdogs, turns recorded
monitor events into a three-valued verdict, writes evidence and replay files.

Exit codes: 0 held on everything explored / 1 unlisted violation / 2 inconclusive.
"""
import sys, os, json, time, importlib, subprocess, threading, queue, shutil, hashlib, collections, argparse, tempfile

ROOT = os.path.dirname(os.path.dirname(os.path.abspath(__file__)))
PY = "/venv/bin/python"
NJOBS = int(os.environ.get("VERIF_JOBS", "16"))
HASHSEED = {"value": 0}


def load_known():
    p = os.path.join(ROOT, "known_findings.json")
    if not os.path.exists(p):
        return []
    with open(p) as f:
        return json.load(f).get("findings", [])


def repo_state():
    try:
        head = subprocess.run(["git", "-C", "/repo", "rev-parse", "HEAD"], capture_output=True, text=True, timeout=20).stdout.strip()
        dirty = subprocess.run(["git", "-C", "/repo", "status", "--porcelain", "--untracked-files=no"], capture_output=True, text=True, timeout=20).stdout.strip() != ""
        return {"head": head, "dirty": dirty}
    except Exception as e:  # pragma: no cover
        return {"head": "unknown", "dirty": None, "err": str(e)}


ABORT = {"kills": 0, "limit": 10}


class ChunkRun:
    """One worker subprocess over a list of cases, with a per-case wall-clock watchdog.
    A case that exceeds the watchdog is *inconclusive* (never a verdict); the rest of the chunk is re-run."""

    def __init__(self, pid, cases, scratch, case_timeout, tag):
        self.pid, self.cases, self.scratch, self.case_timeout, self.tag = pid, cases, scratch, case_timeout, tag

    def run(self):
        results = {}
        pending = list(self.cases)
        attempt = 0
        while pending:
            if ABORT["kills"] >= ABORT["limit"]:
                for c in pending:
                    results[c["id"]] = {"inconclusive": f"run aborted after {ABORT['kills']} watchdog kills / worker deaths", "viol": [], "obs": {}}
                break
            attempt += 1
            inp = os.path.join(self.scratch, f"{self.tag}.{attempt}.in.json")
            out = os.path.join(self.scratch, f"{self.tag}.{attempt}.out.jsonl")
            err = os.path.join(self.scratch, f"{self.tag}.{attempt}.err")
            with open(inp, "w") as f:
                json.dump(pending, f)
            open(out, "w").close()
            with open(err, "w") as ef:
                # the library iterates over sets of strings/tuples in places (trusted edges, safe sequences): the workers' hash seed is part of
                # the explored space. It follows VERIF_SEED (0 = hashing not randomised), and a replay uses the recorded value.
                proc = subprocess.Popen([PY, "-X", "faulthandler", "-m", "fpverif.worker", self.pid, inp, out],
                                        stdout=ef, stderr=ef, cwd=ROOT, env=dict(os.environ, PYTHONHASHSEED=str(HASHSEED["value"])))
            killed_case = None
            last_start = time.time()
            cur = None
            pos = 0
            while True:
                rc = proc.poll()
                # read progress
                try:
                    with open(out) as f:
                        f.seek(pos)
                        while True:
                            line = f.readline()
                            if not line or not line.endswith("\n"):
                                break
                            pos += len(line.encode())
                            try:
                                rec = json.loads(line)
                            except Exception:
                                continue
                            if "start" in rec:
                                cur = rec["start"]; last_start = time.time()
                            elif "done" in rec:
                                results[rec["done"]] = rec["res"]; cur = None; last_start = time.time()
                except FileNotFoundError:
                    pass
                if rc is not None:
                    break
                if time.time() - last_start > self.case_timeout:
                    proc.kill(); proc.wait()
                    killed_case = cur
                    # drain
                    continue
                time.sleep(0.05)
            done_ids = set(results)
            if killed_case is not None or rc != 0:
                ABORT["kills"] += 1
            if killed_case is not None and killed_case not in results:
                results[killed_case] = {"inconclusive": f"watchdog {self.case_timeout}s", "viol": [], "obs": {}}
            elif rc != 0 and cur is not None and cur not in results:
                tail = ""
                try:
                    tail = open(err).read()[-1500:]
                except Exception:
                    pass
                results[cur] = {"inconclusive": f"worker died rc={rc}", "viol": [], "obs": {}, "stderr": tail}
            elif rc != 0 and cur is None:
                # died outside a case (import error etc.)
                tail = ""
                try:
                    tail = open(err).read()[-3000:]
                except Exception:
                    pass
                for c in pending:
                    if c["id"] not in results:
                        results[c["id"]] = {"inconclusive": f"worker died rc={rc} outside a case", "viol": [], "obs": {}, "stderr": tail}
            pending = [c for c in pending if c["id"] not in results]
            if attempt > len(self.cases) + 2:
                for c in pending:
                    results[c["id"]] = {"inconclusive": "too many restarts", "viol": [], "obs": {}}
                break
        return results


def run_cases(pid, cases, case_timeout, jobs=NJOBS, chunk_size=None):
    scratch = tempfile.mkdtemp(prefix=f"fpverif-{pid}-", dir="/var/tmp")
    try:
        groups = collections.defaultdict(list)
        for c in cases:
            groups[c.get("group", "t1")].append(c)
        chunks = []
        for g, cs in groups.items():
            n = len(cs)
            if chunk_size is None:
                csz = max(1, min(40, n // (jobs * 3) + 1))
            else:
                csz = chunk_size
            for i in range(0, n, csz):
                chunks.append(cs[i:i + csz])
        # heavier chunks first is unknown; keep order
        q = queue.Queue()
        for i, ch in enumerate(chunks):
            q.put((i, ch))
        results = {}
        lock = threading.Lock()

        def work():
            while True:
                try:
                    i, ch = q.get_nowait()
                except queue.Empty:
                    return
                r = ChunkRun(pid, ch, scratch, case_timeout, f"c{i}").run()
                with lock:
                    results.update(r)

        ths = [threading.Thread(target=work, daemon=True) for _ in range(min(jobs, len(chunks)))]
        for t in ths:
            t.start()
        for t in ths:
            t.join()
        return results
    finally:
        shutil.rmtree(scratch, ignore_errors=True)


def classify(pid, sig, known):
    for k in known:
        if k.get("property") == pid and k.get("status", "open") == "open":
            key = k["key"]
            if key == sig or (key.endswith("*") and sig.startswith(key[:-1])):
                return k
    return None


def main(argv=None):
    ap = argparse.ArgumentParser()
    ap.add_argument("pid")
    ap.add_argument("tier", nargs="?", default=None)
    ap.add_argument("--replay", default=None)
    ap.add_argument("--jobs", type=int, default=NJOBS)
    ap.add_argument("--max-cases", type=int, default=None)
    ap.add_argument("--no-evidence", action="store_true")
    ap.add_argument("--verbose", action="store_true")
    a = ap.parse_args(argv)
    pid = a.pid.upper()
    tier = a.tier or os.environ.get("VERIF_TIER") or "quick"
    if tier not in ("quick", "thorough"):
        print(f"bad tier {tier}"); return 2
    seed = int(os.environ.get("VERIF_SEED", "0") or 0)
    HASHSEED["value"] = int(os.environ.get("FPVERIF_HASHSEED", seed)) % 4294967296
    mod = importlib.import_module(f"fpverif.props.{pid.lower()}")
    known = load_known()
    t0 = time.time()

    if a.replay:
        with open(a.replay) as f:
            case = json.load(f)
        if "hashseed" in case and "FPVERIF_HASHSEED" not in os.environ:
            HASHSEED["value"] = int(case["hashseed"])
        case = case.get("case", case)
        case["id"] = 0
        res = run_cases(pid, [case], getattr(mod, "CASE_TIMEOUT", {"quick": 180, "thorough": 900})["thorough"], jobs=1)[0]
        print(json.dumps(res, indent=1, default=str)[:20000])
        bad = [v for v in res.get("viol", []) if classify(pid, v["sig"], known) is None]
        for v in res.get("viol", []):
            k = classify(pid, v["sig"], known)
            if k:
                print(f"KNOWN-FINDING: property={pid} {k['key']} {k.get('what_fails','')}")
        if bad:
            print(f"VIOLATION property={pid} replay={a.replay}")
            return 1
        if res.get("inconclusive"):
            print("INCONCLUSIVE:", res["inconclusive"]); return 2
        return 0

    if not os.environ.get("FPVERIF_REPO") and not a.no_evidence:
        shutil.rmtree(os.path.join(ROOT, "evidence", "replay", pid), ignore_errors=True)     # witnesses of earlier runs are stale
    cases = mod.gen_cases(tier, seed)
    only = os.environ.get("FPVERIF_ONLY")
    if only:
        cases = [c for c in cases if only in json.dumps(c, default=str)]
    if a.max_cases:
        cases = cases[:a.max_cases]
    for i, c in enumerate(cases):
        c["id"] = i
    case_timeout = getattr(mod, "CASE_TIMEOUT", {"quick": 180, "thorough": 900})[tier]
    results = run_cases(pid, cases, case_timeout, jobs=a.jobs, chunk_size=getattr(mod, "CHUNK_SIZE", None))

    # ---------------- aggregate
    obs = collections.Counter()
    side = collections.Counter()
    keys = set()
    inconcl = []
    viol_by_sig = collections.defaultdict(list)
    samples = []
    slow = []
    for c in cases:
        r = results.get(c["id"]) or {"inconclusive": "no result", "viol": [], "obs": {}}
        for k, v in (r.get("obs") or {}).items():
            obs[k] += v
        slow.append((r.get("t", 0) or 0, c["id"]))
        for s in r.get("side") or []:
            side[s] += 1
        if r.get("inconclusive"):
            inconcl.append({"case": c["id"], "why": r["inconclusive"], "stderr": (r.get("stderr") or "")[-400:]})
        if r.get("keys"):
            keys.update(r["keys"])
        elif r.get("nontrivial"):
            keys.add(r.get("key") or hashlib.sha1(json.dumps({k: v for k, v in c.items() if k != "id"}, sort_keys=True, default=str).encode()).hexdigest())
        for v in r.get("viol") or []:
            viol_by_sig[v["sig"]].append((c, v))
        if r.get("sample") is not None and len(samples) < 6 and (len(samples) < 2 or c["id"] % 7 == 0):
            samples.append(r["sample"])
    if not samples:
        for c in cases[:2]:
            samples.append({k: v for k, v in c.items() if k not in ("id",)})

    known_seen = {}
    unlisted = {}
    for sig, lst in viol_by_sig.items():
        k = classify(pid, sig, known)
        if k is not None:
            known_seen[k["key"]] = known_seen.get(k["key"], 0) + len(lst)
        else:
            unlisted[sig] = lst

    replay_dir = os.path.join(ROOT, "evidence", "replay", pid) if not os.environ.get("FPVERIF_REPO") else os.path.join("/var/tmp", "fpverif-mutant-replay", pid)
    viol_lines = []
    if unlisted:
        os.makedirs(replay_dir, exist_ok=True)
        n = 0
        for sig, lst in sorted(unlisted.items()):
            for c, v in lst[:2]:
                n += 1
                path = os.path.join(replay_dir, f"{tier}-s{seed}-{n}.json")
                with open(path, "w") as f:
                    json.dump({"property": pid, "sig": sig, "msg": v.get("msg"), "detail": v.get("detail"), "hashseed": HASHSEED["value"], "case": v.get("replay") or {k: x for k, x in c.items() if k != "id"}}, f, indent=1, default=str)
                viol_lines.append(f"VIOLATION property={pid} replay={os.path.relpath(path, ROOT)}")
                print(f"  [{sig}] {v.get('msg','')}"[:600])
    for key, cnt in sorted(known_seen.items()):
        kf = next(k for k in known if k["key"] == key and k["property"] == pid)
        print(f"KNOWN-FINDING: property={pid} {key} ({cnt} obs) {kf.get('what_fails','')}")
    for l in viol_lines:
        print(l)

    # inconclusive rule
    req = getattr(mod, "REQUIRED_OBS", {})
    req = req.get(tier, req) if isinstance(req.get(tier, None), dict) else req
    missing = {k: (obs.get(k, 0), v) for k, v in req.items() if not isinstance(v, dict) and obs.get(k, 0) < v}
    n_inc = len(inconcl)
    too_many_inc = n_inc > max(3, 0.1 * len(cases))
    wall = time.time() - t0
    n_viol = sum(len(l) for l in unlisted.values())

    ev = {
        "property_id": pid,
        "tier": tier,
        "seed": seed,
        "level": getattr(mod, "LEVEL", "exploration"),
        "coverage": {
            "evaluations": len(cases),
            "distinct_nontrivial": len(keys),
            "rule": getattr(mod, "RULE", ""),
            "samples": samples[:6],
            "monitor_observations": dict(sorted(obs.items())),
            "worker_hash_seed": HASHSEED["value"],
            "inconclusive_cases": n_inc,
            "inconclusive_detail": inconcl[:5],
            "known_findings_seen": known_seen,
            "unlisted_violation_signatures": sorted(unlisted)[:20],
            "side_observations": dict(sorted(side.items())),
            "repo": repo_state(),
            "exhaustive": bool(getattr(mod, "EXHAUSTIVE", {}).get(tier, False)),
        },
        "assumptions": list(getattr(mod, "ASSUMPTIONS", [])),
        "wall_s": round(wall, 2),
        "violations": n_viol,
    }
    if os.environ.get("FPVERIF_REPO"):
        ev["coverage"]["repo"] = {"scratch_copy": os.environ["FPVERIF_REPO"]}
    if not a.no_evidence and not os.environ.get("FPVERIF_REPO"):
        os.makedirs(os.path.join(ROOT, "evidence"), exist_ok=True)
        with open(os.path.join(ROOT, "evidence", f"{pid}.json"), "w") as f:
            json.dump(ev, f, indent=1, default=str)
    print(f"{pid} {tier} seed={seed}: cases={len(cases)} nontrivial_distinct={len(keys)} inconclusive={n_inc} "
          f"known={sum(known_seen.values())} unlisted_violations={n_viol} wall={wall:.1f}s")
    if a.verbose or missing:
        print("  observations:", dict(sorted(obs.items())))
    if a.verbose:
        slow.sort(reverse=True)
        for t, cid in slow[:6]:
            c = cases[cid]
            print(f"  slow case {cid}: {t}s", json.dumps({k: v for k, v in c.items() if k not in ('id', 'spec')}, default=str)[:300])
        for ic in inconcl[:6]:
            print("  inconclusive:", ic["case"], ic["why"][:300], json.dumps({k: v for k, v in cases[ic["case"]].items() if k not in ('id', 'spec')}, default=str)[:300])
    if side:
        print("  side observations (not part of this verdict):", dict(side))
    if n_viol:
        return 1
    if missing:
        print(f"INCONCLUSIVE property={pid}: deciding monitors not reached often enough: {missing}")
        return 2
    if too_many_inc:
        print(f"INCONCLUSIVE property={pid}: {n_inc} of {len(cases)} cases inconclusive: {inconcl[:3]}")
        return 2
    return 0


if __name__ == "__main__":
    sys.exit(main())
