"""Reference models (executable specifications). Deliberately naive and independent of flowpaths.
networkx is used only as a graph container (adjacency access); searches are own code.
Exact arithmetic: z3 (Int / Real), no tolerances."""
import collections, itertools, fractions
import z3

Z3_TIMEOUT_MS = 60000


class RefTimeout(Exception):
    pass


# ----------------------------------------------------------------- plain graph search
def sources(G):
    return [v for v in G.nodes if G.in_degree(v) == 0]


def sinks(G):
    return [v for v in G.nodes if G.out_degree(v) == 0]


def reach_from(G, v):
    seen = {v}; dq = collections.deque([v])
    while dq:
        x = dq.popleft()
        for y in G.successors(x):
            if y not in seen:
                seen.add(y); dq.append(y)
    return seen


def reach_to(G, v):
    seen = {v}; dq = collections.deque([v])
    while dq:
        x = dq.popleft()
        for y in G.predecessors(x):
            if y not in seen:
                seen.add(y); dq.append(y)
    return seen


def scc_map(G):
    """node -> component id (own Kosaraju, iterative)."""
    order = []; seen = set()
    for s in G.nodes:
        if s in seen:
            continue
        stack = [(s, iter(list(G.successors(s))))]; seen.add(s)
        while stack:
            v, it = stack[-1]
            adv = False
            for w in it:
                if w not in seen:
                    seen.add(w); stack.append((w, iter(list(G.successors(w))))); adv = True; break
            if not adv:
                order.append(v); stack.pop()
    comp = {}; cid = 0
    for s in reversed(order):
        if s in comp:
            continue
        comp[s] = cid; dq = [s]
        while dq:
            v = dq.pop()
            for w in G.predecessors(v):
                if w not in comp:
                    comp[w] = cid; dq.append(w)
        cid += 1
    return comp


def is_dag(G):
    comp = scc_map(G)
    if len(set(comp.values())) != G.number_of_nodes():
        return False
    return not any(G.has_edge(v, v) for v in G.nodes)


def st_paths(G, S=None, T=None, limit=20000):
    """All simple paths (DAG) from a node of S to a node of T (node lists). S/T default: in/out-degree 0."""
    S = list(dict.fromkeys(S if S is not None else sources(G)))
    T = set(T if T is not None else sinks(G))
    out = []

    def rec(p):
        v = p[-1]
        if v in T:
            out.append(list(p))
            if len(out) > limit:
                raise RefTimeout("too many paths")
        for w in G.successors(v):
            p.append(w); rec(p); p.pop()

    for s in S:
        rec([s])
    return out


def path_edges(p):
    return list(zip(p, p[1:]))


def walk_vectors(G, S, T, cap, limit=6000):
    """All edge-multiplicity vectors of single walks from a node of S to a node of T.
    cap: dict edge -> max multiplicity. Returns (edges, list of dict(edge->mult, '_start','_end')).
    By Euler: x is the multiset of a single S-T walk iff balanced (with one unit entering at a start, leaving at an end)
    and its support is connected from the start node."""
    edges = list(G.edges)
    S = list(dict.fromkeys(S)); T = list(dict.fromkeys(T))
    idx = {e: i for i, e in enumerate(edges)}
    nodes = list(G.nodes)
    last = {}
    for v in nodes:
        inc = [idx[e] for e in G.in_edges(v)] + [idx[e] for e in G.out_edges(v)]
        last[v] = max(inc) if inc else -1
    res = []
    x = [0] * len(edges)
    by_last = collections.defaultdict(list)
    for v in nodes:
        by_last[last[v]].append(v)

    for s in S:
        for t in T:
            # imbalance required: out-in = 1 at s, -1 at t (0 if s==t)
            need = collections.defaultdict(int)
            need[s] += 1; need[t] -= 1

            def ok(i):
                for v in by_last[i]:
                    inn = sum(x[idx[e]] for e in G.in_edges(v)); out = sum(x[idx[e]] for e in G.out_edges(v))
                    if out - inn != need[v]:
                        return False
                return True

            def rec(i):
                if i == len(edges):
                    used = [e for e in edges if x[idx[e]] > 0]
                    # connectivity of support from s
                    seen = {s}; dq = [s]
                    adj = collections.defaultdict(list)
                    for (a, b) in used:
                        adj[a].append(b)
                    while dq:
                        v = dq.pop()
                        for w in adj[v]:
                            if w not in seen:
                                seen.add(w); dq.append(w)
                    if all(a in seen for a, _ in used):
                        d = {e: x[idx[e]] for e in used}
                        res.append({"x": d, "start": s, "end": t})
                        if len(res) > limit:
                            raise RefTimeout("too many walk vectors")
                    return
                for val in range(cap.get(edges[i], 0) + 1):
                    x[i] = val
                    if ok(i):
                        rec(i + 1)
                x[i] = 0

            # nodes without incident edges
            if all(need[v] == 0 for v in by_last[-1]):
                rec(0)
    # the empty vector with s==t (a single-node "walk") is only meaningful in node mode; callers filter
    return edges, res


def euler_walk(x, start):
    """Concrete node sequence realising multiplicity dict x from start (Hierholzer, own code)."""
    adj = collections.defaultdict(list)
    for (a, b), m in x.items():
        adj[a] += [b] * m
    stack = [start]; out = []
    while stack:
        v = stack[-1]
        if adj[v]:
            stack.append(adj[v].pop())
        else:
            out.append(stack.pop())
    return out[::-1]


# ----------------------------------------------------------------- z3 helpers
def _num(m, t):
    v = m.eval(t, model_completion=True)
    if z3.is_int_value(v):
        return v.as_long()
    if z3.is_rational_value(v):
        return fractions.Fraction(v.numerator_as_long(), v.denominator_as_long())
    return fractions.Fraction(str(v))


def _q(x):
    """python number -> exact z3 numeral (floats are taken at their exact binary value)."""
    if isinstance(x, bool):
        x = int(x)
    if isinstance(x, int):
        return z3.IntVal(x)
    fr = fractions.Fraction(x)
    return z3.RealVal(f"{fr.numerator}/{fr.denominator}")


def _V(wt, name):
    return z3.Int(name) if wt is int else z3.Real(name)


def _opt():
    o = z3.Optimize(); o.set("timeout", Z3_TIMEOUT_MS)
    return o


def _check(o):
    r = o.check()
    if r == z3.unknown:
        raise RefTimeout("z3 unknown/timeout")
    return r == z3.sat


def mfd_min(columns, demand, wt=int, cons_cols=None, kmax=None):
    """Minimum number of selected columns s.t. sum_i w_i*col_i[e] == demand[e] for e in demand (elements outside are free),
    every constraint j has a selected column among cons_cols[j]. Zero-weight selected columns allowed.
    columns: list of dict elem->mult. Returns int or None (infeasible)."""
    o = _opt()
    W = [_V(wt, f"w{i}") for i in range(len(columns))]
    Y = [z3.Bool(f"y{i}") for i in range(len(columns))]
    for w, y in zip(W, Y):
        o.add(w >= 0, z3.Implies(w > 0, y))
    for e, f in demand.items():
        o.add(z3.Sum([W[i] * c[e] for i, c in enumerate(columns) if c.get(e, 0) > 0] + [_q(0)]) == _q(f))
    for cc in (cons_cols or []):
        o.add(z3.Or([Y[i] for i in cc]) if cc else z3.BoolVal(False))
    tot = z3.Sum([z3.If(y, 1, 0) for y in Y] + [z3.IntVal(0)])
    if kmax is not None:
        o.add(tot <= kmax)
    o.minimize(tot)
    if not _check(o):
        return None
    return _num(o.model(), tot)


def _bitcap(bound):
    import math
    return 2 ** max(0, math.ceil(math.log2(float(bound) + 1))) - 1


def lae_min(columns, demand, k, wt=int, scale=None, superset=None, cons_cols=None, prod_cap=None):
    """min sum_e scale_e*|f_e - sum_i w_i col_i[e]| using at most k selected columns. superset: multiset of allowed
    weights, each usable at most once (then k bounds the number of non-empty paths)."""
    scale = scale or {}
    o = _opt()
    n = len(columns)
    Y = [z3.Bool(f"y{i}") for i in range(n)]
    if superset is None:
        W = [_V(wt, f"w{i}") for i in range(n)]
        for w, y in zip(W, Y):
            o.add(w >= 0, z3.Implies(w > 0, y))
        if prod_cap is not None:
            # mimic a model that bounds every product multiplicity*weight (used only to classify a finding by mechanism)
            # (the library's integer x continuous product helper also derives the bit width of the multiplicity from that bound:
            #  multiplicity <= 2^ceil(log2(bound+1)) - 1; only elements with a demand, i.e. non-ignored ones, get a product)
            bitcap = _bitcap(prod_cap)
            for i, c in enumerate(columns):
                mm = max([c.get(e, 0) for e in demand] + [0])
                o.add(W[i] * mm <= _q(prod_cap))
                if mm > bitcap:
                    o.add(W[i] == 0, z3.Not(Y[i]))
        expr = lambda e: z3.Sum([W[i] * c[e] for i, c in enumerate(columns) if c.get(e, 0) > 0] + [_q(0)])
    else:
        # A[i][j] : column i uses superset weight j
        A = [[z3.Bool(f"a{i}_{j}") for j in range(len(superset))] for i in range(n)]
        for j in range(len(superset)):
            o.add(z3.Sum([z3.If(A[i][j], 1, 0) for i in range(n)] + [z3.IntVal(0)]) <= 1)
        for i in range(n):
            for j in range(len(superset)):
                o.add(z3.Implies(A[i][j], Y[i]))
        # a column may be used several times with different weights -> count uses
        uses = z3.Sum([z3.If(A[i][j], 1, 0) for i in range(n) for j in range(len(superset))] + [z3.IntVal(0)])
        o.add(uses <= k)
        expr = lambda e: z3.Sum([z3.If(A[i][j], _q(superset[j]) * c[e], _q(0)) for i, c in enumerate(columns) if c.get(e, 0) > 0 for j in range(len(superset))] + [_q(0)])
    if superset is None:
        o.add(z3.Sum([z3.If(y, 1, 0) for y in Y] + [z3.IntVal(0)]) <= k)
    for cc in (cons_cols or []):
        o.add(z3.Or([Y[i] for i in cc]) if cc else z3.BoolVal(False))
    tot = _q(0)
    for j, (e, f) in enumerate(demand.items()):
        s = expr(e)
        er = _V(wt if all(isinstance(v, int) for v in demand.values()) and wt is int else float, f"err{j}")
        o.add(er >= _q(f) - s, er >= s - _q(f))
        tot = tot + er * _q(scale.get(e, 1))
    o.minimize(tot)
    if not _check(o):
        return None
    return _num(o.model(), tot)


def mpe_min(columns, demand, k, wt=int, scale=None, col_factor=None, superset=None, cons_cols=None, prod_cap=None):
    """min sum_i r_i s.t. scale_e*|f_e - sum_i w_i col_i[e]| <= sum_i r_i*fac_i*col_i[e], at most k selected columns.
    Returns optimum or None if infeasible."""
    scale = scale or {}
    o = _opt()
    n = len(columns)
    Y = [z3.Bool(f"y{i}") for i in range(n)]
    R = [_V(wt, f"r{i}") for i in range(n)]
    if superset is None:
        W = [_V(wt, f"w{i}") for i in range(n)]
        for w, r, y in zip(W, R, Y):
            o.add(w >= 0, r >= 0, z3.Implies(z3.Or(w > 0, r > 0), y))
        if prod_cap is not None:
            bitcap = _bitcap(prod_cap)
            for i, c in enumerate(columns):
                mm = max([c.get(e, 0) for e in demand] + [0])
                o.add(W[i] * mm <= _q(prod_cap), R[i] * mm <= _q(prod_cap))
                if mm > bitcap:
                    o.add(W[i] == 0, R[i] == 0, z3.Not(Y[i]))
        o.add(z3.Sum([z3.If(y, 1, 0) for y in Y] + [z3.IntVal(0)]) <= k)
        wexpr = lambda e: z3.Sum([W[i] * c[e] for i, c in enumerate(columns) if c.get(e, 0) > 0] + [_q(0)])
        rexpr = lambda e: z3.Sum([R[i] * c[e] * _q((col_factor or {}).get(i, 1)) for i, c in enumerate(columns) if c.get(e, 0) > 0] + [_q(0)])
    else:
        # each (column, superset weight) pairing is one path with its own slack
        A = [[z3.Bool(f"a{i}_{j}") for j in range(len(superset))] for i in range(n)]
        RR = [[_V(wt, f"r{i}_{j}") for j in range(len(superset))] for i in range(n)]
        for j in range(len(superset)):
            o.add(z3.Sum([z3.If(A[i][j], 1, 0) for i in range(n)] + [z3.IntVal(0)]) <= 1)
        for i in range(n):
            for j in range(len(superset)):
                o.add(RR[i][j] >= 0, z3.Implies(RR[i][j] > 0, A[i][j]))
        o.add(z3.Sum([z3.If(A[i][j], 1, 0) for i in range(n) for j in range(len(superset))] + [z3.IntVal(0)]) <= k)
        wexpr = lambda e: z3.Sum([z3.If(A[i][j], _q(superset[j]) * c[e], _q(0)) for i, c in enumerate(columns) if c.get(e, 0) > 0 for j in range(len(superset))] + [_q(0)])
        rexpr = lambda e: z3.Sum([RR[i][j] * c[e] * _q((col_factor or {}).get(i, 1)) for i, c in enumerate(columns) if c.get(e, 0) > 0 for j in range(len(superset))] + [_q(0)])
        R = [x for row in RR for x in row]
    for e, f in demand.items():
        sc = _q(scale.get(e, 1))
        s = wexpr(e); rs = rexpr(e)
        o.add((_q(f) - s) * sc <= rs, (s - _q(f)) * sc <= rs)
    for cc in (cons_cols or []):
        o.add(z3.Or([Y[i] for i in cc]) if cc else z3.BoolVal(False))
    tot = z3.Sum(R + [_q(0)])
    o.minimize(tot)
    if not _check(o):
        return None
    return _num(o.model(), tot)


def cover_min(columns, required, cons_cols=None):
    """min number of columns such that every required element is in the support of a chosen column
    (+ each constraint has a chosen column from its list)."""
    o = _opt()
    Y = [z3.Bool(f"y{i}") for i in range(len(columns))]
    for e in required:
        cc = [Y[i] for i, c in enumerate(columns) if c.get(e, 0) > 0]
        o.add(z3.Or(cc) if cc else z3.BoolVal(False))
    for cc in (cons_cols or []):
        o.add(z3.Or([Y[i] for i in cc]) if cc else z3.BoolVal(False))
    tot = z3.Sum([z3.If(y, 1, 0) for y in Y] + [z3.IntVal(0)])
    o.minimize(tot)
    if not _check(o):
        return None
    return _num(o.model(), tot)


def min_error_flow(G, f, wt=int, scale=None, ignore=(), exempt=(), lam=0, src_edges_of=None):
    """L1-closest non-negative conserving flow. f: dict edge->value for non-ignored edges.
    conservation at nodes with in&out edges, except those in `exempt`.
    lam: penalty * (total outflow of exempt-start / source nodes) -- modelled by caller via src_nodes.
    Returns optimum objective (Fraction/int)."""
    scale = scale or {}
    o = _opt()
    X = {e: _V(wt, f"x{i}") for i, e in enumerate(G.edges)}
    tot = _q(0)
    for i, (e, x) in enumerate(X.items()):
        o.add(x >= 0)
        if e in ignore or e not in f:
            continue
        d = _V(wt if isinstance(f[e], int) and wt is int else float, f"d{i}")
        o.add(d >= x - _q(f[e]), d >= _q(f[e]) - x)
        tot = tot + d * _q(scale.get(e, 1))
    for v in G.nodes:
        if G.in_degree(v) and G.out_degree(v) and v not in exempt:
            o.add(z3.Sum([X[e] for e in G.in_edges(v)]) == z3.Sum([X[e] for e in G.out_edges(v)]))
    if lam and src_edges_of is not None:
        # lambda * flow entering through the virtual source: for start node v that's out(v)-in(v)
        for v in src_edges_of:
            tot = tot + _q(lam) * (z3.Sum([X[e] for e in G.out_edges(v)] + [_q(0)]) - z3.Sum([X[e] for e in G.in_edges(v)] + [_q(0)]))
    o.minimize(tot)
    if not _check(o):
        return None
    return _num(o.model(), tot)


def min_gen_set(numbers, total, wt=int, mult=1, partitions=None, kmax=None):
    """Smallest k such that g_1..g_k >= 0 (type wt) sum to total and every number is sum_i x_i g_i with 0<=x_i<=mult;
    each partition constraint (list of numbers summing to total) is realised by a partition of the g's."""
    nums = list(dict.fromkeys(numbers))
    kmax = kmax if kmax is not None else len(nums) + 2
    for k in range(1, kmax + 1):
        s = z3.Solver(); s.set("timeout", Z3_TIMEOUT_MS)
        g = [_V(wt, f"g{i}") for i in range(k)]
        for x in g:
            s.add(x >= 0)
        s.add(z3.Sum(g) == _q(total))
        for j, a in enumerate(nums):
            xs = [z3.Int(f"x{i}_{j}") for i in range(k)]
            for x in xs:
                s.add(x >= 0, x <= mult)
            s.add(z3.Sum([xs[i] * g[i] for i in range(k)]) == _q(a))
        for c, part in enumerate(partitions or []):
            # assignment of each g_i to exactly one part
            asg = [[z3.Bool(f"p{c}_{i}_{j}") for j in range(len(part))] for i in range(k)]
            for i in range(k):
                s.add(z3.PbEq([(asg[i][j], 1) for j in range(len(part))], 1))
            for j, val in enumerate(part):
                s.add(z3.Sum([z3.If(asg[i][j], g[i], _q(0)) for i in range(k)]) == _q(val))
        r = s.check()
        if r == z3.unknown:
            raise RefTimeout("z3 unknown in min_gen_set")
        if r == z3.sat:
            return k
    return None


# ----------------------------------------------------------------- avoidance automaton (C06)
def exists_walk_avoiding(G, src, snk, seq, through):
    """Is there a src->snk walk that contains `through` (list of edges) as an ordered subsequence but does NOT contain
    `seq` as an ordered subsequence (with multiplicity)? Greedy matching is optimal for subsequence containment."""
    r = len(seq); t = len(through)
    start = (src, 0, 0); seen = {start}; dq = collections.deque([start])
    while dq:
        v, j, p = dq.popleft()
        if v == snk and p == t and j < r:
            return True
        for w in G.successors(v):
            j2 = j + 1 if j < r and (v, w) == seq[j] else j
            p2 = p + 1 if p < t and (v, w) == through[p] else p
            st = (w, j2, p2)
            if st not in seen:
                seen.add(st); dq.append(st)
    return False


def witness_walk_avoiding(G, src, snk, seq, through):
    r = len(seq); t = len(through)
    start = (src, 0, 0); prev = {start: None}; dq = collections.deque([start])
    while dq:
        st = dq.popleft(); v, j, p = st
        if v == snk and p == t and j < r:
            out = []
            while st is not None:
                out.append(st[0]); st = prev[st]
            return out[::-1]
        for w in G.successors(v):
            j2 = j + 1 if j < r and (v, w) == seq[j] else j
            p2 = p + 1 if p < t and (v, w) == through[p] else p
            n = (w, j2, p2)
            if n not in prev:
                prev[n] = st; dq.append(n)
    return None


def can_cooccur(G, src, snk, A, B):
    """Is there a src->snk walk containing both A and B as ordered subsequences?"""
    start = (src, 0, 0); seen = {start}; dq = collections.deque([start])
    while dq:
        v, i, j = dq.popleft()
        if v == snk and i == len(A) and j == len(B):
            return True
        for w in G.successors(v):
            i2 = i + 1 if i < len(A) and (v, w) == A[i] else i
            j2 = j + 1 if j < len(B) and (v, w) == B[j] else j
            st = (w, i2, j2)
            if st not in seen:
                seen.add(st); dq.append(st)
    return False


def exists_walk_with_seq_and_edge(G, src, snk, seq, e):
    r = len(seq); start = (src, 0, False); seen = {start}; dq = collections.deque([start])
    while dq:
        v, j, p = dq.popleft()
        if v == snk and p and j == r:
            return True
        for w in G.successors(v):
            j2 = j + 1 if j < r and (v, w) == seq[j] else j
            st = (w, j2, p or (v, w) == e)
            if st not in seen:
                seen.add(st); dq.append(st)
    return False


def contains_subseq(walk_edges, seq):
    j = 0
    for e in walk_edges:
        if j < len(seq) and e == seq[j]:
            j += 1
    return j == len(seq)


# ----------------------------------------------------------------- walk-cover width (independent of the library's expanded condensation)
def walk_cover_paths(G, S, T, limit=20000):
    """Paths of the SCC multigraph: nodes = SCCs, arcs = original inter-SCC edges. A source-to-sink walk of G corresponds to
    a path here (inside an SCC a walk can cover everything). Returns (comp, list of (start_scc, [arcs]))."""
    comp = scc_map(G)
    arcs = [(u, v) for u, v in G.edges if comp[u] != comp[v]]
    out = collections.defaultdict(list)
    for a in arcs:
        out[comp[a[0]]].append(a)
    ends = {comp[t] for t in T}
    paths = []

    def rec(c, used, start):
        if c in ends:
            paths.append((start, list(used)))
            if len(paths) > limit:
                raise RefTimeout("too many SCC paths")
        for a in out.get(c, []):
            used.append(a); rec(comp[a[1]], used, start); used.pop()

    for s in sorted({comp[s] for s in S}):
        rec(s, [], s)
    return comp, paths


def walk_cover_width(G, S=None, T=None, ignore=(), extra_required_sets=None, required_nodes=None):
    """Minimum number of S-T walks covering every non-ignored edge of G (None if impossible).
    required_nodes: cover these nodes instead of the edges (a node is covered by any walk passing through its SCC)."""
    S = list(S if S is not None else sources(G)); T = list(T if T is not None else sinks(G))
    ignore = set(ignore)
    comp, paths = walk_cover_paths(G, S, T)
    req_arcs = [(u, v) for u, v in G.edges if comp[u] != comp[v] and (u, v) not in ignore]
    req_sccs = {comp[u] for u, v in G.edges if comp[u] == comp[v] and (u, v) not in ignore}
    cols = []
    for st, p in paths:
        d = {("arc", a): 1 for a in p}
        d[("scc", st)] = 1
        for a in p:
            d[("scc", comp[a[1]])] = 1
        cols.append(d)
    required = [("arc", a) for a in req_arcs] + [("scc", c) for c in req_sccs]
    if required_nodes is not None:
        required = [("scc", c) for c in sorted({comp[v] for v in required_nodes})]
    if not required:
        return 0
    return cover_min(cols, required)
