"""General-purpose random workloads: one in-domain instance for any exported model class, with a random feature mix."""
import collections
from fpverif import gen, instances as I

FD = ["kFlowDecomp", "MinFlowDecomp", "kFlowDecompCycles", "MinFlowDecompCycles"]
ERR = ["kLeastAbsErrors", "kMinPathError", "kLeastAbsErrorsCycles", "kMinPathErrorCycles"]
COV = ["kPathCover", "MinPathCover", "kPathCoverCycles", "MinPathCoverCycles"]
ALL = FD + ERR + COV

DAG_SAFETY_OO = [{}, {"optimize_with_safe_paths": True}, {"optimize_with_safe_paths": False, "optimize_with_safe_sequences": True},
                 {"optimize_with_safe_paths": False}, {"optimize_with_safety_as_subpath_constraints": True},
                 {"optimize_with_safe_paths": False, "optimize_with_safe_sequences": True, "optimize_with_safety_as_subpath_constraints": True},
                 {"optimize_with_safety_from_largest_antichain": True}, {"optimize_with_safe_zero_edges": False}]
CYC_SAFETY_OO = [None, {}, {"optimize_with_safe_sequences": False}, {"optimize_with_safety_as_subset_constraints": True},
                 {"optimize_with_max_safe_antichain_as_subset_constraints": True}, {"optimize_with_safe_sequences_fix_via_bounds": True},
                 {"optimize_with_safe_sequences_allow_geq_constraints": False}, {"optimize_with_safe_sequences_fix_zero_edges": False},
                 {"optimize_with_safe_sequences_fix_via_bounds": True, "optimize_with_safe_sequences_fix_zero_edges": False}]


def random_instance(rng, cls, small=False):
    """Returns (inst, meta). meta: mode, planted count, starts, ends, ignore, allow_empty."""
    cyc = cls.endswith("Cycles")
    cover = cls in COV
    fd = cls in FD
    node = rng.random() < 0.3
    wt = rng.choice(["int", "int", "float"])
    exact = fd or rng.random() < 0.3
    me = 8 if small else 10
    if cyc:
        base = I.cyc_node_base(rng, wt=wt, exact=exact, max_edges=me - 1) if node else I.cyc_edge_base(rng, wt=wt, exact=exact, max_edges=me)
    else:
        base = I.dag_node_base(rng, wt=wt, exact=exact, max_edges=me) if node else I.dag_edge_base(rng, wt=wt, exact=exact, max_edges=me + 1)
    ring = None
    if cyc and node and cls not in ("kFlowDecomp",) and rng.random() < 0.12:
        # a graph WITHOUT natural source or sink: a ring (plus possibly a chord), node-weighted, entered and left through additional
        # start/end nodes; one walk from a to the predecessor of a explains every node
        n_ = rng.randint(2, 5); rn = [f"r{i}" for i in range(n_)]; w_ = rng.choice([1, 2, 3]) if wt == "int" else rng.choice([0.5, 1.5, 2.0])
        re_ = [(rn[i], rn[(i + 1) % n_]) for i in range(n_)]
        a_ = rng.randrange(n_)
        base = {"nodes": rn, "edges": re_, "flow": {v: w_ for v in rn}, "planted": [([rn[(a_ + i) % n_] for i in range(n_)], w_)], "wt": wt, "noise": {}, "mode": "node"}
        ring = (rn[a_], rn[(a_ - 1) % n_])
    if cls in ERR + ["kFlowDecomp", "kFlowDecompCycles"] and rng.random() < 0.12 and ring is None:
        I.add_zero_elements(rng, base, n=1)
    kw = {}
    meta = {"mode": base["mode"], "planted": len(base["planted"]), "starts": [], "ends": [], "ignore": [], "allow_empty": False}
    if cover:
        if node:
            kw["cover_type"] = "node"
    else:
        kw["flow_attr"] = "flow"; kw["weight_type"] = wt
        if node:
            kw["flow_attr_origin"] = "node"
    p = max(1, len(base["planted"]))
    if cls.startswith("k"):
        kw["k"] = p + rng.choice([0, 0, 1, 2])
        if cls in ("kMinPathError", "kMinPathErrorCycles", "kLeastAbsErrorsCycles") and rng.random() < 0.15:
            kw["k"] = None
    oo = rng.choice(CYC_SAFETY_OO if cyc else DAG_SAFETY_OO)
    if cls in ("kFlowDecomp", "MinFlowDecomp") and oo and (oo.get("optimize_with_safe_paths") or oo.get("optimize_with_safe_sequences")):
        oo = dict(oo); oo["optimize_with_flow_safe_paths"] = False
    if cls in ("kFlowDecomp", "MinFlowDecomp") and rng.random() < 0.4:
        oo = dict(oo or {}); oo["optimize_with_greedy"] = False
    if oo is not None:
        kw["optimization_options"] = dict(oo)
    drop = []; garbage = {}; lens = None
    ckey = "subset_constraints" if cyc else "subpath_constraints"
    if rng.random() < 0.3 and base["planted"]:
        cons = I.constraints_from_planted(rng, base)
        if cons:
            kw[ckey] = gen.jl(cons)
            r_ = rng.random()
            if r_ < 0.3:
                kw[ckey + "_coverage"] = rng.choice([0.5, 0.75])
            elif r_ < 0.5 and not cyc and base["mode"] == "edge":
                # coverage measured in edge lengths (missing lengths count 1, lengths need not be integers)
                kw["subpath_constraints_coverage_length"] = rng.choice([0.4, 0.6, 1.0]); kw["length_attr"] = "len"
                lv = rng.choice([[1, 2, 5], [0.5, 1.5, 2.25]])
                lens = {e: {"len": rng.choice(lv)} for e in base["edges"] if rng.random() < 0.75}
    elems = base["edges"] if base["mode"] == "edge" else base["nodes"]
    if rng.random() < 0.3 and len(elems) >= 2 and cls != "kMinPathErrorCycles__":
        ign = I.pick_ignore(rng, base, 0.25)
        kw["elements_to_ignore"] = gen.jl(ign); meta["ignore"] = gen.jl(ign)
        for e in ign:
            g = rng.choice(["keep", "garbage", "missing", "zero"])
            if g == "garbage":
                garbage[e] = 41 if wt == "int" else 41.5
            elif g == "missing":
                drop.append(e)
            elif g == "zero":
                garbage[e] = 0
    if cls == "kMinPathErrorCycles" and "elements_to_ignore" not in kw and rng.random() < 0.2:
        # documented alternative to an explicit list: ignore the elements whose weight lies below the p-th percentile (the largest
        # weight is never below it, so at least one weighted element stays)
        kw["elements_to_ignore_percentile"] = rng.choice([10, 25, 50])
    if cls in ("kLeastAbsErrorsCycles", "kMinPathErrorCycles") and rng.random() < 0.2:
        kw["trusted_edges_for_safety_percentile"] = rng.choice([0, 25, 50, 90])
    if cls in ERR and rng.random() < 0.3:
        sc = {e: rng.choice([0, 0.5, 1, 0.25]) for e in rng.sample(elems, rng.randint(1, max(1, len(elems) // 2)))}
        if "elements_to_ignore_percentile" in kw:
            sc = {e: (f or 0.5) for e, f in sc.items()}      # keep at least one element that is neither ignored nor scaled by 0
        kw["error_scaling"] = [[gen.jl(e) if isinstance(e, tuple) else e, f] for e, f in sc.items()]
    # keep the instance inside the documented domain: at least one element that is neither ignored nor scaled by 0
    dead = set(map(str, kw.get("elements_to_ignore", []))) | {str(e) for e, f in kw.get("error_scaling", []) if f == 0}
    if all(str(gen.jl(e) if isinstance(e, tuple) else e) in dead for e in elems):
        kw.pop("elements_to_ignore", None); kw.pop("error_scaling", None); meta["ignore"] = []; drop = []; garbage = {}
    supports_se = cls not in ("kFlowDecomp",) and not (cls in ("MinFlowDecomp", "MinFlowDecompCycles") and base["mode"] == "edge")
    if ring is not None:
        meta["starts"] = [ring[0]]; kw["additional_starts"] = [ring[0]]; meta["ends"] = [ring[1]]; kw["additional_ends"] = [ring[1]]
        kw.pop("elements_to_ignore", None); meta["ignore"] = []; drop = []; garbage = {}
    elif supports_se and rng.random() < 0.25 and len(base["nodes"]) >= 3:
        inner = I.inner_nodes(base) or base["nodes"]
        if rng.random() < 0.7:
            meta["starts"] = [rng.choice(inner)]; kw["additional_starts"] = list(meta["starts"])
        if rng.random() < 0.7:
            meta["ends"] = [rng.choice(inner)]; kw["additional_ends"] = list(meta["ends"])
    if cls in ("kFlowDecomp", "kLeastAbsErrors", "kMinPathError") and rng.random() < 0.12 and "elements_to_ignore" not in kw and kw.get("k"):
        ws = [w for _, w in base["planted"]] or [1]
        kw["solution_weights_superset"] = ws + [rng.choice([1, 2, 3]) if wt == "int" else 0.5] + [rng.choice([1, 2]) if wt == "int" else 1.0]
        kw["k"] = max(1, min(kw["k"], len(ws) - rng.choice([0, 1])))      # a superset longer than k: the cap on the number of paths matters
        meta["allow_empty"] = True
    if cls == "kMinPathError" and wt == "int" and rng.random() < 0.15:
        kw["path_length_ranges"] = [[0, 3], [4, 50]]; kw["path_length_factors"] = [1.0, 0.5]
    if cls in ("MinFlowDecomp", "MinFlowDecompCycles") and rng.random() < 0.35:
        # the non-default search helpers of the minimising classes: the decomposition found by the guessed-weights helper model is
        # handed out as the solution (its routes have to be routes of the caller's graph like any other), lower bounds move the search
        oo2 = dict(kw.get("optimization_options") or {})
        oo2.update(rng.choice([{"optimize_with_guessed_weights": True}, {"optimize_with_guessed_weights": True}, {"use_min_gen_set_lowerbound": True},
                               {"optimize_with_guessed_weights": True, "use_min_gen_set_lowerbound": True}]
                              + ([{"use_subgraph_scanning_lowerbound": True}] if cls == "MinFlowDecomp" else [{"optimize_with_guessed_weights": True, "add_min_gen_set_to_given_weights": True, "use_min_gen_set_lowerbound": True}])))
        kw["optimization_options"] = oo2
    if cover:
        spec = gen.spec(base["nodes"], base["edges"], eattr=lens)
    else:
        spec = I.spec_of(base, drop_attr=drop, garbage=garbage, extra_eattr=lens)
    return {"cls": cls, "spec": spec, "kw": kw}, meta
