"""Runtime monitors attached from outside to the real flowpaths code (class-level wrappers),
plus pure oracles over what they record. Guard: FLOWPATHS_VERIF (set by ./check); nothing here is imported by flowpaths."""
import os, sys, logging, inspect, functools, copy, collections, json, math
import networkx as nx

assert os.environ.get("FLOWPATHS_VERIF") == "1", "monitors are only active under FLOWPATHS_VERIF=1 (set by ./check)"

import flowpaths as fp
import flowpaths.utils as fu
from flowpaths.utils import solverwrapper as swm

OBS = collections.Counter()      # per-process activation counters; drivers snapshot/reset per case
CTOR_LOG = []                    # (class name, k) for every model constructed while the route monitor is installed

DAG_CLASSES = ["kFlowDecomp", "MinFlowDecomp", "kLeastAbsErrors", "kMinPathError", "kPathCover", "MinPathCover"]
CYC_CLASSES = ["kFlowDecompCycles", "MinFlowDecompCycles", "kLeastAbsErrorsCycles", "kMinPathErrorCycles", "kPathCoverCycles", "MinPathCoverCycles"]
ALL_MODEL_CLASSES = DAG_CLASSES + CYC_CLASSES


# ------------------------------------------------------------------ log monitor
class _Collector(logging.Handler):
    def __init__(self):
        super().__init__(level=logging.ERROR)
        self.records = []

    def emit(self, record):
        try:
            self.records.append((record.levelname, record.getMessage()[:300]))
        except Exception:
            pass


LOG = _Collector()


def install_log_monitor():
    lg = fu.logger
    for h in list(lg.handlers):
        lg.removeHandler(h)
    lg.addHandler(LOG)
    lg.setLevel(logging.ERROR)
    lg.propagate = False


def log_mark():
    return len(LOG.records)


def log_since(mark):
    return LOG.records[mark:]


# ------------------------------------------------------------------ safe calls
def safe_call(fn, *a, **k):
    """('ok', value) | ('exc', TypeName, msg) | ('exit', code). SystemExit raised inside the library is an event."""
    try:
        return ("ok", fn(*a, **k))
    except SystemExit as e:
        return ("exit", "SystemExit", str(e.code))
    except KeyboardInterrupt:
        raise
    except BaseException as e:
        return ("exc", type(e).__name__, str(e)[:300])


# ------------------------------------------------------------------ solver trace / fault injector
class SolverTrace:
    """Wraps SolverWrapper.__init__/optimize/get_model_status for the whole process. Records one entry per optimize()."""

    def __init__(self):
        self.trace = []           # list of dicts
        self.wrappers = 0
        self.inject = None        # dict(at=j, mode=..., status=...)
        self.installed = False

    def install(self):
        if self.installed:
            return
        SW = swm.SolverWrapper
        self._o_init, self._o_opt, self._o_status = SW.__init__, SW.optimize, SW.get_model_status
        mon = self

        @functools.wraps(SW.__init__)
        def init(self_, **kw):
            idx = mon.wrappers
            mon.wrappers += 1
            self_._fpv_widx = idx
            inj = mon.inject
            if inj and inj.get("mode") == "native" and inj.get("at_wrapper") == idx:
                kw = dict(kw); kw["time_limit"] = 0
                self_._fpv_native = True
            return mon._o_init(self_, **kw)

        @functools.wraps(SW.optimize)
        def optimize(self_):
            idx = len(mon.trace)
            OBS["solver.optimize"] += 1
            inj = mon.inject
            ent = {"i": idx, "w": getattr(self_, "_fpv_widx", None), "fault": None}
            mon.trace.append(ent)
            self_._fpv_forced = None
            if inj and inj.get("at") == idx and inj.get("mode") in ("skip", "override", "custom"):
                ent["fault"] = inj["mode"]
                if inj["mode"] == "skip":
                    self_._fpv_forced = inj["status"]
                    ent["status"] = inj["status"]
                    return
                mon._o_opt(self_)
                if inj["mode"] == "override":
                    self_._fpv_forced = inj["status"]
                else:
                    self_.did_timeout = True
                ent["status"] = mon._status(self_)
                return
            mon._o_opt(self_)
            ent["status"] = mon._o_status(self_)
            if getattr(self_, "_fpv_native", False):
                # a zero time limit is a fault only if HiGHS really stopped early (tiny models are solved in presolve)
                if ent["status"] not in ("kOptimal", "kInfeasible"):
                    ent["fault"] = "native"
                else:
                    ent["native_no_effect"] = True
            try:
                ent["ncols"] = self_.solver.numVariables
            except Exception:
                pass

        @functools.wraps(SW.get_model_status)
        def status(self_, raw=False):
            f = getattr(self_, "_fpv_forced", None)
            if f:
                return f
            return mon._o_status(self_, raw)

        self._status = lambda s: status(s)
        SW.__init__, SW.optimize, SW.get_model_status = init, optimize, status
        self.installed = True

    def reset(self):
        self.trace = []; self.wrappers = 0; self.inject = None


TRACE = SolverTrace()


# ------------------------------------------------------------------ C01 route oracle (pure function of the caller's graph)
def route_events(cls_name, G, sol, *, mode="edge", starts=(), ends=(), k=None, allow_empty=False, is_dag=None,
                 weight_type=float, expect_keys=(), tag=""):
    """Judge a get_solution() result against the graph the caller passed in. Returns list of (sig, msg)."""
    ev = []
    if is_dag is None:
        is_dag = cls_name in DAG_CLASSES
    if not isinstance(sol, dict):
        return [(f"C01/solution-not-dict/{cls_name}", f"get_solution() returned {type(sol).__name__}")]
    rk = "paths" if "paths" in sol else ("walks" if "walks" in sol else None)
    if rk is None:
        return [(f"C01/no-routes-key/{cls_name}", f"keys {list(sol)}")]
    routes = sol[rk]
    starts = set(starts or []); ends = set(ends or [])
    for r in routes:
        if not isinstance(r, list):
            ev.append((f"C01/route-not-list/{cls_name}", repr(r)[:100])); continue
        if len(r) == 0:
            if not allow_empty:
                ev.append((f"C01/empty-route/{cls_name}", f"empty route although empty routes are not allowed {tag}"))
            continue
        bad_nodes = [v for v in r if v not in G]
        if bad_nodes:
            kind = "synthetic-endpoint" if any(str(v).startswith(("source_", "sink_", "source", "sink")) and v not in G for v in bad_nodes) else \
                   ("expanded-name" if any(str(v).endswith((".0", ".1")) for v in bad_nodes) else "foreign-node")
            ev.append((f"C01/{kind}/{cls_name}/{mode}", f"route {r} has nodes not in the caller's graph: {bad_nodes[:4]} {tag}"))
            continue
        bad_e = [(a, b) for a, b in zip(r, r[1:]) if not G.has_edge(a, b)]
        if bad_e:
            ev.append((f"C01/non-edge/{cls_name}/{mode}", f"route {r} uses non-edges {bad_e[:3]} {tag}")); continue
        if not (G.in_degree(r[0]) == 0 or r[0] in starts):
            ev.append((f"C01/bad-start/{cls_name}/{mode}", f"route {r} starts at {r[0]} (in-degree {G.in_degree(r[0])}, not a declared start) {tag}"))
        if not (G.out_degree(r[-1]) == 0 or r[-1] in ends):
            ev.append((f"C01/bad-end/{cls_name}/{mode}", f"route {r} ends at {r[-1]} (out-degree {G.out_degree(r[-1])}, not a declared end) {tag}"))
        if is_dag and len(set(r)) != len(r):
            ev.append((f"C01/not-simple/{cls_name}/{mode}", f"DAG route repeats a node: {r} {tag}"))
    for key in ("weights", "slacks", "scaled_slacks"):
        if key in sol or key in expect_keys:
            vals = sol.get(key)
            if not isinstance(vals, list) or len(vals) != len(routes):
                ev.append((f"C01/len-{key}/{cls_name}/{mode}", f"{key}={vals!r} vs {len(routes)} routes {tag}"))
                continue
            for x in vals:
                if not isinstance(x, (int, float)) or isinstance(x, bool) or (isinstance(x, float) and math.isnan(x)):
                    ev.append((f"C01/non-numeric-{key}/{cls_name}", f"{key} entry {x!r} {tag}")); break
                if x < (0 if (isinstance(x, int) or key != "scaled_slacks") else -1e-9):      # ('non-negative' is meant literally for weights and slacks; scaled slacks are derived values)
                    ev.append((f"C01/negative-{key}/{cls_name}", f"{key} entry {x!r} {tag}")); break
    if k is not None:
        # with solution_weights_superset the unused layers are handed out as empty routes; only real routes count against k
        nonempty = [r for r in routes if isinstance(r, list) and len(r) > 0]
        if len(nonempty) > k:
            ev.append((f"C01/count>k/{cls_name}/{mode}", f"{len(nonempty)} non-empty routes for k={k} {tag}"))
        elif len(routes) < k and not allow_empty and not starts and not ends:
            one_node = any(G.in_degree(v) == 0 and G.out_degree(v) == 0 for v in G.nodes)
            ev.append((f"C01/count<k/{cls_name}/{mode}" + ("/one-node-route-possible" if one_node else ""),
                       f"{len(routes)} routes for k={k}, empty routes not allowed, no extra starts/ends {tag}"))
    return ev


# ------------------------------------------------------------------ class-level route monitor (observes every model instance)
class RouteMonitor:
    """Wraps __init__ and get_solution of every exported model class. Each solved instance's get_solution() result is
    judged against the graph *that instance* was given (constructor snapshot)."""

    def __init__(self):
        self.events = []
        self.installed = False
        self.enabled = True

    def install(self):
        if self.installed:
            return
        mon = self
        for name in ALL_MODEL_CLASSES:
            cls = getattr(fp, name)
            self._wrap(cls, name)
        self.installed = True

    def _wrap(self, cls, name):
        mon = self
        o_init = cls.__init__
        o_get = cls.get_solution
        sig = inspect.signature(o_init)

        @functools.wraps(o_init)
        def init(self_, *a, **k):
            try:
                ba = sig.bind(self_, *a, **k); ba.apply_defaults()
                args = dict(ba.arguments)
                G = args.get("G")
                snap = {"G": nx.DiGraph(G) if isinstance(G, nx.DiGraph) else None}
                for key in ("k", "flow_attr_origin", "cover_type", "additional_starts", "additional_ends", "weight_type",
                            "solution_weights_superset"):
                    if key in args:
                        snap[key] = copy.copy(args[key])
                oo = args.get("optimization_options") or {}
                snap["allow_empty"] = bool(oo.get("allow_empty_paths", False) or oo.get("allow_empty_walks", False)
                                           or args.get("solution_weights_superset") is not None or oo.get("given_weights") is not None)
                self_._fpv_snap = snap
                CTOR_LOG.append((name, args.get("k")))
            except Exception:
                self_._fpv_snap = None
            return o_init(self_, *a, **k)

        @functools.wraps(o_get)
        def get_solution(self_, *a, **k):
            res = o_get(self_, *a, **k)
            try:
                snap = getattr(self_, "_fpv_snap", None)
                if mon.enabled and snap and snap["G"] is not None and res is not None and self_.is_solved():
                    OBS["route_monitor.judged"] += 1
                    mode = snap.get("flow_attr_origin", snap.get("cover_type", "edge"))
                    removed = (a and a[0]) or k.get("remove_empty_paths") or k.get("remove_empty_walks")
                    kk = snap.get("k") if name.startswith("k") else None
                    if kk is None and name.startswith("k") and getattr(self_, "k", None) is not None and snap.get("solution_weights_superset") is None:
                        kk = self_.k
                    evs = route_events(name, snap["G"], res, mode=mode, starts=snap.get("additional_starts"), ends=snap.get("additional_ends"),
                                       k=kk, allow_empty=snap["allow_empty"], weight_type=snap.get("weight_type", float), tag="[class-level monitor]")
                    if removed:
                        evs = [e for e in evs if "/count<k/" not in e[0]]
                    mon.events.extend(evs)
            except Exception as e:  # the monitor must never change the program's behaviour
                OBS["route_monitor.error"] += 1
            return res

        cls.__init__ = init
        cls.get_solution = get_solution

    def drain(self):
        ev, self.events = self.events, []
        return ev


ROUTES = RouteMonitor()


# ------------------------------------------------------------------ structural snapshots (C18)
def struct(x):
    """Order-preserving structural description of caller-side data."""
    if isinstance(x, nx.DiGraph):
        return ("G", [(n, struct(d)) for n, d in x.nodes(data=True)], [(u, v, struct(d)) for u, v, d in x.edges(data=True)], struct(dict(x.graph)))
    if isinstance(x, dict):
        return ("d", [(repr(k), struct(v)) for k, v in x.items()])
    if isinstance(x, (list, tuple)):
        return (type(x).__name__, [struct(v) for v in x])
    if isinstance(x, (set, frozenset)):
        return ("set", sorted(repr(v) for v in x))
    if isinstance(x, type):
        return ("type", x.__name__)
    return (type(x).__name__, repr(x))


def approx_eq(a, b, tol=1e-6):
    if a is None or b is None:
        return a is b
    return abs(a - b) <= tol * max(1.0, abs(a), abs(b))
