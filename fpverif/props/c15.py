"""C15 - MinGenSet and MinSetCover return true optima whenever one exists.
Monitors: solve()/get_solution() of the real classes. Oracles: z3 minimum generating set (+ brute force for tiny totals,
the two references cross-check each other), brute-force minimum-weight set cover."""
import collections, hashlib, itertools
from fpverif import gen, ref, monitors as M
import flowpaths as fp

LEVEL = "exploration"
RULE = ("MinGenSet: number lists drawn as sub-multiset sums of a planted generating set (so a generating multiset exists), plus lists whose optimum "
        "equals len(list) or len(list)+1, complements, duplicates, 0/total inside the list, int and dyadic-float weights, max_multiplicity 1-3, "
        "valid lower bounds, partition constraints derived from the planted set; MinSetCover: random universes/families with a cover, int and "
        "float weights, default weights. non-trivial = optimum >= 2; distinct = (numbers,total,mult,lowerbound,partitions) / (universe,subsets,weights)")
CASE_TIMEOUT = {"quick": 120, "thorough": 600}
REQUIRED_OBS = {"c15.mgs_compared": 150, "c15.msc_compared": 100}
ASSUMPTIONS = ["numbers <= 40, <= 5 distinct numbers, so that z3 / brute force decide the minimum exactly"]
EXHAUSTIVE = {"quick": False, "thorough": False}
SO = {"threads": 1}


def gen_cases(tier, seed):
    cases = []
    corpus = [([5, 3], 10, 1), ([3], 6, 1), ([2, 4, 6], 12, 1), ([1, 2, 4], 7, 1), ([1, 2, 4], 100, 1), ([1], 6, 1), ([3, 6, 1, 2], 3, 2), ([5], 5, 1), ([2, 3], 5, 1), ([1, 2, 3, 4], 10, 1), ([6], 3, 2), ([7, 7], 14, 1), ([0, 3], 3, 1)]
    for nums, tot, mult in corpus:
        for wt in ("int", "float"):
            cases.append({"kind": "mgs", "numbers": nums, "total": tot, "mult": mult, "wt": wt, "lb": 1, "parts": None, "rcv": True})
    n = 220 if tier == "quick" else 20000
    for i in range(n):
        rng = gen.rng_for("C15g", seed, i)
        k = rng.randint(1, 4)
        wt = rng.choice(["int", "int", "float"])
        gset = [rng.randint(1, 9) for _ in range(k)] if wt == "int" else [rng.choice([0.5, 1.0, 1.5, 2.0, 0.25, 3.0]) for _ in range(k)]
        mult = rng.choice([1, 1, 1, 2, 3])
        total = sum(gset)
        nums = []
        for _ in range(rng.randint(1, 5)):
            x = [rng.randint(0, mult) for _ in range(k)]
            v = sum(a * b for a, b in zip(x, gset))
            if v > 0:
                nums.append(v)
        if rng.random() < 0.2:
            nums.append(total)
        if rng.random() < 0.2 and nums:
            nums.append(total - nums[0] if total - nums[0] > 0 else nums[0])
        if rng.random() < 0.2 and nums:
            nums.append(nums[0])
        if rng.random() < 0.25 and mult == 1:
            # a number that is its own complement (total/2), realisable by a sub-multiset where possible
            half = total / 2
            if wt == "float" or float(half).is_integer():
                for r in range(1, k + 1):
                    for comb in __import__("itertools").combinations(range(k), r):
                        if sum(gset[i] for i in comb) == half:
                            nums.append(int(half) if wt == "int" else half); break
                    else:
                        continue
                    break
        if not nums:
            nums = [gset[0]]
        parts = None
        if mult == 1 and rng.random() < 0.25 and k >= 2:
            idx = list(range(k)); rng.shuffle(idx); cut = rng.randint(1, k - 1)
            parts = [[sum(gset[i] for i in idx[:cut]), sum(gset[i] for i in idx[cut:])]]
        r5 = gen.rng_for("C15p", seed, i)
        if mult == 1 and k >= 3 and r5.random() < 0.3:
            # few, small numbers next to a FINE partition of the total (three or more parts, e.g. the planted elements themselves): the parts force
            # several elements that are larger than every number
            idx = list(range(k)); r5.shuffle(idx); nparts = r5.randint(3, k)
            cuts = sorted(r5.sample(range(1, k), nparts - 1)); groups = [idx[a:b] for a, b in zip([0] + cuts, cuts + [k])]
            parts = [[sum(gset[i] for i in g) for g in groups]]
            nums = [min(gset)] if r5.random() < 0.6 else sorted(set(nums))[:1]
        lb = 1 if rng.random() < 0.7 else rng.randint(1, 2)
        cases.append({"kind": "mgs", "numbers": nums, "total": total, "mult": mult, "wt": wt, "lb": lb, "parts": parts, "rcv": rng.random() < 0.8, "planted": k,
                      "np": (rng.choice(["int64", "int32"]) if wt == "int" else "float64") if rng.random() < 0.1 else None})
        if wt == "int" and i % 4 == 0 and not parts:
            # the same instance in decimal / non-representable float units (numbers v/scale computed in floating point, as a caller
            # reading '0.3' and '0.7' from a file has them): the minimum size is scale invariant, membership is judged within 1e-6
            sc = rng.choice([10, 10, 100, 3, 7, 1000])
            cases.append({"kind": "mgs", "numbers": [v / sc for v in nums], "total": total / sc, "mult": mult, "wt": "float", "lb": 1, "parts": None,
                          "rcv": rng.random() < 0.8, "planted": k, "np": None, "scaled": {"numbers": nums, "total": total, "by": sc}})
    for i in range(n):
        rng = gen.rng_for("C15s", seed, i)
        nu = rng.randint(1, 7); U = list(range(nu)) if rng.random() < 0.7 else [f"e{j}" for j in range(nu)]
        subsets = [rng.sample(U, rng.randint(1, nu)) for _ in range(rng.randint(1, 7))]
        if rng.random() < 0.35:
            d = rng.choice(subsets); subsets.insert(rng.randrange(len(subsets) + 1), list(d) if rng.random() < 0.5 else list(reversed(d)))   # the same subset offered twice
        if rng.random() < 0.25:
            for _ in range(rng.randint(1, 2)):
                subsets.insert(rng.randrange(len(subsets) + 1), [])      # an empty subset is a legal (useless) member of the family: indices still refer to the caller's list
        missing = set(U) - set(x for s in subsets for x in s)
        if missing:
            subsets.append(list(missing))
        r = rng.random()
        w = None if r < 0.2 else ([rng.randint(1, 9) for _ in subsets] if r < 0.7 else [rng.choice([0.5, 1.5, 2.25, 1.0, 3.0]) for _ in subsets])
        if w is not None and rng.random() < 0.15:
            w[rng.randrange(len(w))] = 0
        cases.append({"kind": "msc", "universe": U, "subsets": subsets, "weights": w})
    # corpus: an instance whose LP-based optimum comes back as 0.9999999999999999 for a selected subset (found by the thorough tier)
    cases.append({"kind": "msc", "universe": [0, 1, 2, 3, 4, 5], "subsets": [[1, 5, 3], [5, 4, 1, 3], [0, 4, 1], [4, 0, 5, 1], [1, 2, 0], [5, 2], [2, 3, 4, 5, 0], [0, 4, 1]],
                  "weights": [2, 6, 8, 8, 4, 8, 6, 4]})
    return cases


def brute_mgs(nums, total, mult, kmax=4):
    """integer generating sets by brute force (totals <= 24)"""
    nums = sorted(set(nums))
    for k in range(1, kmax + 1):
        for g in itertools.combinations_with_replacement(range(0, total + 1), k):
            if sum(g) != total:
                continue
            sums = set()
            for x in itertools.product(range(mult + 1), repeat=k):
                sums.add(sum(a * b for a, b in zip(x, g)))
            if all(a in sums for a in nums):
                return k
    return None


def run_mgs(case, viol, obs):
    wt = int if case["wt"] == "int" else float
    nums = [wt(x) for x in case["numbers"]]; total = wt(case["total"]); mult = case["mult"]
    kw = dict(numbers=list(nums), total=total, weight_type=wt, max_multiplicity=mult, lowerbound=case["lb"], remove_complement_values=case["rcv"], solver_options=dict(SO))
    if case.get("np"):
        # the same numbers as numpy scalars (what a caller gets from numpy arrays): same instance, same expected answer
        import numpy as np
        npt = {"int64": np.int64, "int32": np.int32, "float64": np.float64}[case["np"]]
        kw["numbers"] = [npt(x) for x in nums]; kw["total"] = npt(total)
    if case["parts"]:
        kw["partition_constraints"] = [[wt(x) for x in p] for p in case["parts"]]
    desc = f"numbers={nums} total={total} mult={mult} wt={case['wt']} lowerbound={case['lb']} partitions={case['parts']} remove_complement_values={case['rcv']}"
    r = M.safe_call(fp.MinGenSet, **kw)
    if r[0] != "ok":
        viol.append({"sig": f"C15/mgs-ctor-raises/{r[1]}", "msg": f"{r[2]}; {desc}"}); return None, False
    m = r[1]
    before = list(nums)
    s = M.safe_call(m.solve)
    if s[0] != "ok":
        viol.append({"sig": f"C15/mgs-solve-raises/{s[1]}", "msg": f"{s[2]}; {desc}"}); return None, False
    # reference on the numbers that matter (0 and total are trivially generated)
    eff = [x for x in nums if 0 < x]
    try:
        if case.get("scaled"):
            sc = case["scaled"]; ie = [x for x in sc["numbers"] if 0 < x]
            kstar = ref.min_gen_set([float(x) for x in ie], float(sc["total"]), float, mult, partitions=None, kmax=len(set(ie)) + 2)
        else:
            # (search bound: the numbers plus a remainder always generate; with partition constraints the planted set is a witness of its own size)
            kstar = ref.min_gen_set(eff, total, wt, mult, partitions=case["parts"], kmax=max(len(set(eff)) + 2, (case.get("planted") or 0) if case["parts"] else 0))
    except ref.RefTimeout:
        obs["c15.ref_timeout"] += 1; return None, False
    if wt is int and total <= 24 and not case["parts"] and len(set(eff)) <= 4 and kstar is not None and kstar <= 3:
        b = brute_mgs(eff, int(total), mult)
        obs["c15.refs_crosschecked"] += 1
        if b != kstar:
            return None, False  # references disagree: no verdict (recorded as inconclusive by the caller)
    if kstar is not None and kstar < case["lb"]:
        kstar = case["lb"] if True else kstar
        # a user-supplied lower bound above the optimum is outside the domain ("valid lower bounds"); skip
        obs["c15.invalid_lb_skipped"] += 1; return None, False
    obs["c15.mgs_compared"] += 1
    tag = ("/mult>1" if mult > 1 else "") + ("/partition" if case["parts"] else "") + ("/float" if wt is float else "") + ("/scaled" if case.get("scaled") else "")
    solved = bool(s[1]) and m.is_solved()
    if kstar is None:
        if solved:
            viol.append({"sig": "C15/mgs-solved-but-no-generating-set-exists" + tag, "msg": f"{m.get_solution()}; {desc}"})
        return None, False
    if not solved:
        over = kstar >= len(nums)
        viol.append({"sig": "C15/mgs-unsolved" + ("/optimum>=len(numbers)" if over else "") + tag, "msg": f"solve() returned {s[1]} but a generating set of size {kstar} exists; {desc}"})
        return hashlib.sha1(desc.encode()).hexdigest()[:14], kstar >= 2
    sol = m.get_solution()
    if len(sol) != kstar:
        if len(sol) > kstar:
            # classify: with HiGHS' presolve switched off the minimum is found => the solver (trusted base) declared a feasible model infeasible
            m2 = M.safe_call(fp.MinGenSet, **dict(kw, numbers=list(nums), solver_options=dict(SO, presolve="off")))
            if m2[0] == "ok" and M.safe_call(m2[1].solve)[0] == "ok" and m2[1].is_solved() and len(m2[1].get_solution()) == kstar:
                tag = "/solver-presolve-declares-feasible-model-infeasible"
        viol.append({"sig": ("C15/mgs-not-minimum" if len(sol) > kstar else "C15/mgs-below-reference") + tag, "msg": f"returned {sol} (size {len(sol)}), minimum size {kstar}; {desc}"})
    # validity of the returned set
    if any(x < 0 for x in sol) or any((wt is int and not isinstance(x, int)) for x in sol):
        viol.append({"sig": "C15/mgs-bad-values" + tag, "msg": f"{sol}; {desc}"})
    if abs(sum(sol) - total) > 1e-6 * max(1, abs(total)):
        viol.append({"sig": "C15/mgs-sum!=total" + tag, "msg": f"sum({sol}) = {sum(sol)} != {total}; {desc}"})
    else:
        sums = set()
        for x in itertools.product(range(mult + 1), repeat=len(sol)):
            sums.add(round(sum(a * b for a, b in zip(x, sol)), 9))
        bad = [a for a in eff if round(a, 9) not in sums and not (wt is float and any(abs(a - t) <= 1e-6 for t in sums))]
        if bad:
            viol.append({"sig": "C15/mgs-number-not-generated" + tag, "msg": f"{bad} are not sub-multiset sums of {sol}; {desc}"})
        for p in case["parts"] or []:
            ok = False
            for asg in itertools.product(range(len(p)), repeat=len(sol)):
                if all(abs(sum(g for g, a in zip(sol, asg) if a == j) - p[j]) < 1e-9 for j in range(len(p))):
                    ok = True; break
            if not ok:
                viol.append({"sig": "C15/mgs-partition-not-realised", "msg": f"partition {p} not realised by {sol}; {desc}"})
    if nums != before:
        viol.append({"sig": "C15/mgs-mutated-input", "msg": desc})
    return hashlib.sha1(desc.encode()).hexdigest()[:14], kstar >= 2


def run_msc(case, viol, obs):
    U = case["universe"]; subsets = case["subsets"]; w = case["weights"]
    desc = f"universe={U} subsets={subsets} weights={w}"
    kw = dict(universe=list(U), subsets=[list(s) for s in subsets], solver_options=dict(SO))
    if w is not None:
        kw["subset_weights"] = list(w)
    r = M.safe_call(fp.MinSetCover, **kw)
    tag = "/default-weights" if w is None else ""
    if r[0] != "ok":
        viol.append({"sig": f"C15/msc-ctor-raises/{r[1]}" + tag, "msg": f"{r[2]}; {desc}"}); return None, False
    m = r[1]
    s = M.safe_call(m.solve)
    ww = w if w is not None else [1] * len(subsets)
    best = None
    for mask in range(1 << len(subsets)):
        cov = set()
        for i in range(len(subsets)):
            if mask >> i & 1:
                cov |= set(subsets[i])
        if set(U) <= cov:
            c = sum(ww[i] for i in range(len(subsets)) if mask >> i & 1)
            if best is None or c < best:
                best = c
    obs["c15.msc_compared"] += 1
    if s[0] != "ok" or not s[1]:
        viol.append({"sig": "C15/msc-unsolved" + tag, "msg": f"{s}; a cover of weight {best} exists; {desc}"}); return None, False
    sol = M.safe_call(m.get_solution)
    if sol[0] != "ok" or sol[1] is None:
        viol.append({"sig": "C15/msc-get_solution" + tag, "msg": f"{sol}; {desc}"}); return None, False
    idx = sol[1]
    cov = set()
    for i in idx:
        cov |= set(subsets[i])
    if not set(U) <= cov:
        viol.append({"sig": "C15/msc-not-a-cover" + tag, "msg": f"indices {idx} leave {set(U) - cov} uncovered; {desc}"})
    c = sum(ww[i] for i in idx)
    if abs(c - best) > 1e-9:
        viol.append({"sig": "C15/msc-not-minimum-weight" + tag, "msg": f"returned weight {c}, minimum {best}; {desc}"})
    if len(set(idx)) != len(idx):
        viol.append({"sig": "C15/msc-duplicate-index", "msg": f"{idx}"})
    sub = M.safe_call(m.get_solution, as_subsets=True)
    if sub[0] != "ok" or sub[1] != [subsets[i] for i in idx]:
        viol.append({"sig": "C15/msc-as_subsets", "msg": f"{sub}"})
    return hashlib.sha1(desc.encode()).hexdigest()[:14], len(idx) >= 2


def run_case(case):
    viol = []; obs = collections.Counter()
    key, nontriv = (run_mgs if case["kind"] == "mgs" else run_msc)(case, viol, obs)
    return {"viol": viol[:4], "obs": dict(obs), "nontrivial": bool(nontriv), "keys": [key] if key and nontriv else [],
            "sample": {k: v for k, v in case.items() if k != "id"}}
