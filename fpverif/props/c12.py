"""C12 - MILP building blocks encode exactly the relation they name.
Monitor: the real SolverWrapper (HiGHS) driven directly; observed: optimal min and max of the product / y variable with the
inputs fixed, column bounds and cost vector read back from HiGHS after optimize(), get_values results. Histories are
mirrored in a shadow model whose optimum is computed exactly with z3."""
import collections, hashlib, itertools, math, fractions
from fpverif import gen, ref, monitors as M
from flowpaths.utils.solverwrapper import SolverWrapper
import z3

LEVEL = "exploration"
RULE = ("grids: binary*continuous for ub in a fixed list (0, non powers of two, 2^k+-1) x b in {0,1} x c grid; integer*continuous for all "
        "integer n and a c grid with lb<=n*c<=ub; piecewise-constant for 1-4 ranges and every integer x in the ranges; queued bound updates, "
        "objective replacement and get_values on random variable sets; random histories of add_variables/add_constraint/set_objective/"
        "queue_*/fix_variable/optimize mirrored in a shadow model solved exactly by z3. The grids are enumerated completely (exhaustive "
        "over the listed finite grids); histories are sampled. non-trivial = point with non-zero product / >=2 pieces / history with >=1 "
        "queued update; distinct = (helper, parameters)")
CASE_TIMEOUT = {"quick": 120, "thorough": 600}
REQUIRED_OBS = {"c12.bin_points": 100, "c12.int_points": 200, "c12.pw_points": 50, "c12.bounds_checked": 50, "c12.objective_checked": 30,
                "c12.values_checked": 30, "c12.histories": 100}
ASSUMPTIONS = ["'admissible' follows the helper docstrings literally: binary helper lb<=c<=ub; integer helper lb<=product<=ub with the continuous factor in [lb,ub]",
               "HiGHS LP/MIP optimality on 1-8 variable models is trusted (cross-checked by z3 in the history cases)"]
EXHAUSTIVE = {"quick": False, "thorough": False}
SO = {"threads": 1}
UBS = [0, 0.5, 1, 2, 2.5, 3, 5, 7, 8, 10, 15, 16, 17, 31, 32, 33, 63, 64, 65]


def gen_cases(tier, seed):
    cases = []
    for ub in UBS:
        cases.append({"kind": "bin", "ub": ub})
        cases.append({"kind": "int", "ub": ub})
    pws = [([(0, 2), (3, 5)], [1, 2]), ([(1, 1), (2, 10)], [0.5, 0.25]), ([(0, 0), (1, 3), (4, 9), (10, 12)], [1, 0.75, 0.5, 0.25]),
           ([(0, 5)], [3]), ([(2, 4), (5, 9), (10, 20)], [1.0, 0.9, 0.0]), ([(0, 2), (3, 5)], [0, 100]), ([(0, 1), (2, 3)], [0, 7])]
    for r, c in pws:
        cases.append({"kind": "pw", "ranges": r, "consts": c})
    n = 150 if tier == "quick" else 6000
    for i in range(n):
        cases.append({"kind": "bounds", "rs": f"C12b:{seed}:{i}"})
        cases.append({"kind": "objective", "rs": f"C12o:{seed}:{i}"})
        cases.append({"kind": "values", "rs": f"C12v:{seed}:{i}"})
    h = 400 if tier == "quick" else 60000
    for i in range(h):
        cases.append({"kind": "history", "rs": f"C12h:{seed}:{i}", "n": 30})
    for i in range(n // 2):
        rng = gen.rng_for("C12pw", seed, i)
        k = rng.randint(1, 4); pos = 0; ranges = []
        for _ in range(k):
            lo = pos + rng.randint(0, 2); hi = lo + rng.randint(0, 5); ranges.append((lo, hi)); pos = hi + 1
        span = max(1, ranges[-1][1] - ranges[0][0])
        consts = [rng.choice([0, 0.25, 0.5, 1, 2]) if rng.random() < 0.8 else rng.choice([0, 3 * span, 10 * span]) for _ in range(k)]
        # the documented preconditions (non-overlapping ranges, x inside their union) do not ask for sorted ranges
        r = rng.random()
        if r < 0.25 and k > 1:
            order = list(range(k)); rng.shuffle(order)
            ranges = [ranges[j] for j in order]; consts = [consts[j] for j in order]
        elif r < 0.4 and k > 1:
            ranges = ranges[::-1]; consts = consts[::-1]
        cases.append({"kind": "pw", "ranges": ranges, "consts": consts})
    return cases


def minmax(build):
    res = []
    for sense in ("minimize", "maximize"):
        s = SolverWrapper(**SO)
        tgt = build(s)
        s.set_objective(tgt + 0, sense=sense)
        s.optimize()
        st = s.get_model_status()
        res.append((st, s.get_objective_value() if st == "kOptimal" else None))
    return res


def judge_point(res, expect, sig, desc, viol):
    for (st, v), sense in zip(res, ("min", "max")):
        if st != "kOptimal":
            viol.append({"sig": sig + "/admissible-pair-infeasible", "msg": f"{desc}: {sense} run ended {st}"}); return
        if abs(v - expect) > 1e-6 * max(1, abs(expect)):
            viol.append({"sig": sig + "/wrong-product-value-admitted", "msg": f"{desc}: {sense} of product = {v}, expected exactly {expect}"}); return


def run_bin(case, viol, obs, keys):
    ub = case["ub"]
    grid = sorted({0, ub / 4, ub / 3, ub / 2, ub, min(ub, 1), min(ub, 0.5), max(0, ub - 1), max(0.0, ub - 1e-3)})
    for b in (0, 1):
        for c in grid:
            def build(s):
                x = s.add_variables([0], "b", lb=b, ub=b, var_type="integer")[0]
                y = s.add_variables([0], "c", lb=c, ub=c, var_type="continuous")[0]
                p = s.add_variables([0], "p", lb=-1000, ub=1000, var_type="continuous")[0]
                s.add_binary_continuous_product_constraint(x, y, p, 0, ub, "t"); return p
            obs["c12.bin_points"] += 1
            judge_point(minmax(build), b * c, "C12/bin-product", f"ub={ub} b={b} c={c}", viol)
            if b * c:
                keys.add(f"bin:{ub}:{b}:{c}")


def run_int(case, viol, obs, keys):
    ub = case["ub"]
    cgrid = sorted({0, 0.5, 1, 1.5, 2, ub / 2, ub / 3, ub, 0.25, 3})
    for n in range(0, int(ub) + 4):
        for c in cgrid:
            if c > ub or n * c > ub:
                continue
            bits = math.ceil(math.log2(ub + 1))
            def build(s):
                x = s.add_variables([0], "n", lb=n, ub=n, var_type="integer")[0]
                y = s.add_variables([0], "c", lb=c, ub=c, var_type="continuous")[0]
                p = s.add_variables([0], "p", lb=-1000, ub=1000, var_type="continuous")[0]
                s.add_integer_continuous_product_constraint(x, y, p, 0, ub, "t"); return p
            obs["c12.int_points"] += 1
            sig = "C12/int-product" + ("/n>2^bits-1" if n > 2 ** bits - 1 else "")
            judge_point(minmax(build), n * c, sig, f"ub={ub} n={n} c={c} bits={bits}", viol)
            if n * c:
                keys.add(f"int:{ub}:{n}:{c}")


def run_pw(case, viol, obs, keys):
    ranges = [tuple(r) for r in case["ranges"]]; consts = case["consts"]
    M_ = (max(r[1] for r in ranges) - min(r[0] for r in ranges)) * 2
    spread = max(consts) - min(consts)
    for (lo, hi), c in zip(ranges, consts):
        for x in range(lo, hi + 1):
            def build(s):
                xv = s.add_variables([0], "x", lb=x, ub=x, var_type="integer")[0]
                y = s.add_variables([0], "y", lb=-10000, ub=10000, var_type="continuous")[0]
                s.add_piecewise_constant_constraint(xv, y, ranges, consts, "pw"); return y
            obs["c12.pw_points"] += 1
            sig = "C12/piecewise" + ("/const-spread>M" if spread > M_ else "")
            judge_point(minmax(build), c, sig, f"ranges={ranges} consts={consts} x={x} M={M_}", viol)
            if len(ranges) > 1:
                keys.add(f"pw:{ranges}:{consts}:{x}")


def lp_cols(s):
    lp = s.solver.getLp()
    return [float(x) for x in lp.col_cost_], [float(x) for x in lp.col_lower_], [float(x) for x in lp.col_upper_]


def run_bounds(case, viol, obs, keys):
    rng = gen.rng_for(case["rs"])
    s = SolverWrapper(**SO)
    n = rng.randint(2, 7)
    lbs = [rng.choice([0, 0, 1, 2]) for _ in range(n)]; ubs = [l + rng.randint(0, 6) for l in lbs]
    v = s.add_variables(list(range(n)), "x", lb=lbs, ub=ubs, var_type=rng.choice(["integer", "continuous"]))
    want_l = list(map(float, lbs)); want_u = list(map(float, ubs))
    ops = []
    # per batch every variable gets ONE kind of request with ONE value (possibly repeated: idempotent), in arbitrary index order,
    # so that the requested bounds are unambiguous under any reading of the batch semantics
    chosen = rng.sample(range(n), rng.randint(1, n))
    for i in chosen:
        kind = rng.choice(["lb", "fix"])
        # (a requested lower bound may also lie BELOW the bound the variable was created with: the request is what counts)
        val = rng.randint(int(lbs[i]) if rng.random() < 0.6 else 0, int(ubs[i]))
        for _ in range(rng.choice([1, 1, 1, 2, 3])):
            ops.append((kind, i, val))
    rng.shuffle(ops)
    for kind, i, val in ops:
        if kind == "lb":
            s.queue_set_var_lower_bound(v[i], val)
        else:
            s.queue_fix_variable(v[i], val)
    for k, i, val in ops:
        if k == "fix":
            want_l[i] = want_u[i] = float(val)
        else:
            want_l[i] = float(val)
    s.set_objective(s.quicksum(v[i] for i in range(n)), sense=rng.choice(["minimize", "maximize"]))
    s.optimize()
    _, gl, gu_ = lp_cols(s)
    obs["c12.bounds_checked"] += 1
    keys.add(f"bounds:{ops}")
    if gl[:n] != want_l or gu_[:n] != want_u:
        kinds = {k for k, _, _ in ops}
        dup = len({(k, i) for k, i, _ in ops}) != len(ops)
        sig = "C12/queued-bounds/" + ("lb-queue-overwrites-ub" if any(gu_[i] != want_u[i] for k, i, _ in ops if k == "lb") else ("repeated-request-drops-batch" if dup else "wrong-bounds"))
        viol.append({"sig": sig, "msg": f"initial lb={lbs} ub={ubs}, queued {ops}: column bounds after optimize() lower={gl[:n]} upper={gu_[:n]}, requested lower={want_l} upper={want_u}"})
        return
    # creation bounds given as ONE scalar of any real number type (the models pass values taken from graph attributes, which are
    # numpy scalars as soon as a graph is built from arrays): the created columns must carry exactly that bound
    import numpy as np, fractions
    s2 = SolverWrapper(**SO)
    mk = rng.choice([int, float, np.int64, np.int32, np.float64, np.float32, fractions.Fraction])
    L, U = mk(rng.randint(0, 3)), mk(rng.randint(4, 40))
    y = s2.add_variables(list(range(3)), "y", lb=L, ub=U, var_type=rng.choice(["integer", "continuous"]))
    s2.set_objective(s2.quicksum(y[i] for i in range(3)), sense="maximize"); s2.optimize()
    _, yl, yu = lp_cols(s2)
    obs["c12.scalar_creation_bounds_checked"] += 1
    if yl[:3] != [float(L)] * 3 or yu[:3] != [float(U)] * 3:
        viol.append({"sig": f"C12/creation-bounds/scalar-of-type-{mk.__name__}-ignored", "msg": f"add_variables(lb={L!r}, ub={U!r}) created columns with lower={yl[:3]} upper={yu[:3]}"})
    feas = all(l <= u for l, u in zip(want_l, want_u))
    if feas and s.get_model_status() != "kOptimal":
        viol.append({"sig": "C12/queued-bounds/feasible-model-not-optimal", "msg": f"{ops}: status {s.get_model_status()}"})
    # a second optimize must not re-apply or lose anything
    s.optimize(); _, gl2, gu2 = lp_cols(s)
    if gl2[:n] != want_l or gu2[:n] != want_u:
        viol.append({"sig": "C12/queued-bounds/changed-on-second-optimize", "msg": f"{ops}"})
        return
    # later batches on the same model: a new request replaces what an earlier batch set - also when it asks for a LOWER lower bound than the
    # one in force (after an earlier raise or an earlier fix)
    for batch in range(rng.randint(0, 2)):
        ops2 = []
        for i in rng.sample(range(n), rng.randint(1, n)):
            kind = rng.choice(["lb", "lb", "fix"])
            ops2.append((kind, i, rng.randint(0, int(want_u[i]))))
        for kind, i, val in ops2:
            (s.queue_set_var_lower_bound if kind == "lb" else s.queue_fix_variable)(v[i], val)
            if kind == "fix":
                want_l[i] = want_u[i] = float(val)
            else:
                want_l[i] = float(val)
        s.optimize(); _, gl3, gu3 = lp_cols(s)
        obs["c12.later_bound_batches_checked"] += 1
        keys.add(f"bounds:{ops}:{batch}:{ops2}")
        if gl3[:n] != want_l or gu3[:n] != want_u:
            lower_ = any(k == "lb" and gl3[i] > want_l[i] for k, i, _ in ops2)
            viol.append({"sig": "C12/queued-bounds/later-batch/" + ("request-below-the-bound-in-force-ignored" if lower_ else "wrong-bounds"),
                         "msg": f"initial lb={lbs} ub={ubs}, first batch {ops}, later batch {ops2}: column bounds lower={gl3[:n]} upper={gu3[:n]}, requested lower={want_l} upper={want_u}"})
            return


def run_objective(case, viol, obs, keys):
    rng = gen.rng_for(case["rs"])
    s = SolverWrapper(**SO)
    n = rng.randint(2, 7)
    v = s.add_variables(list(range(n)), "x", lb=0, ub=[rng.randint(1, 9) for _ in range(n)], var_type="integer")
    want = [0.0] * n
    for rnd in range(rng.randint(1, 4)):
        idx = rng.sample(range(n), rng.randint(1, n))
        co = {i: rng.choice([1, 2, -1, 0.5, 3]) for i in idx}
        const = rng.choice([0, 0, 2.5])
        sense = rng.choice(["minimize", "maximize", "min", "max"])
        terms = [(i, co[i]) for i in idx]
        if rng.random() < 0.4:
            # the same variable in several terms of the expression (x + x + 1.5*y, 3*x - x): its coefficients add up
            for i in rng.sample(idx, rng.randint(1, len(idx))):
                extra = rng.choice([1, 1, -1, 2, 0.5]); terms.append((i, extra)); co[i] = co[i] + extra
            rng.shuffle(terms); obs["c12.objectives_with_repeated_variables"] += 1
        s.set_objective(s.quicksum(c_ * v[i] for i, c_ in terms) + const, sense=sense)
        if rng.random() < 0.3:
            w = s.add_variables([f"late{rnd}"], "z", lb=0, ub=3, var_type="continuous")   # variable created after an objective existed
            v[n] = w[f"late{rnd}"]; n += 1; want.append(0.0)
        want = [0.0] * n
        for i in idx:
            want[i] = float(co[i])
        cost, _, _ = lp_cols(s)
        obs["c12.objective_checked"] += 1
        keys.add(f"obj:{sorted(co.items())}:{sense}:{rnd}")
        if [round(x, 12) for x in cost[:n]] != want:
            viol.append({"sig": "C12/objective-not-fully-replaced", "msg": f"round {rnd}: cost vector {cost[:n]} expected {want}"}); return
        s.optimize()
        if s.get_model_status() != "kOptimal":
            viol.append({"sig": "C12/objective/not-optimal", "msg": s.get_model_status()}); return
        ubs = lp_cols(s)[2]
        mx = sense in ("maximize", "max")
        exp = const + sum(co[i] * (ubs[i] if (co[i] > 0) == mx else 0) for i in idx)
        if abs(s.get_objective_value() - exp) > 1e-7:
            viol.append({"sig": "C12/objective/wrong-optimum", "msg": f"optimum {s.get_objective_value()} expected {exp} ({sense}, {co}, const {const})"}); return


def run_values(case, viol, obs, keys):
    rng = gen.rng_for(case["rs"])
    s = SolverWrapper(**SO)
    groups = {}
    fixed = {}
    for g in range(rng.randint(2, 4)):
        idxs = [(g, j) if rng.random() < 0.5 else f"{g}_{j}" for j in range(rng.randint(1, 5))]
        vals = [rng.choice([0, 1, 2, 3, 4.5, 7]) for _ in idxs]
        vs = s.add_variables(idxs, f"grp{g}", lb=vals, ub=vals, var_type="continuous")
        groups[g] = vs
        for i, x in zip(idxs, vals):
            fixed[(g, i if not isinstance(i, list) else tuple(i))] = float(x)
    s.set_objective(s.quicksum(v for g in groups.values() for v in g.values()), sense="minimize")
    s.optimize()
    for g, vs in groups.items():
        got = s.get_values(vs)
        obs["c12.values_checked"] += 1
        keys.add(f"vals:{case['rs']}:{g}")
        exp = {i: fixed[(g, i)] for i in vs}
        if set(got) != set(exp) or any(abs(got[i] - exp[i]) > 1e-9 for i in exp):
            viol.append({"sig": "C12/get_values/wrong-variable", "msg": f"group {g}: got {got} expected {exp}"}); return
        # subset, in different order, as list of pairs
        sub = rng.sample(list(vs.items()), rng.randint(1, len(vs)))
        got2 = s.get_values(sub)
        if set(got2) != {k for k, _ in sub} or any(abs(got2[k] - exp[k]) > 1e-9 for k, _ in sub):
            viol.append({"sig": "C12/get_values/subset", "msg": f"asked for {[k for k, _ in sub]}: got {got2}, expected {[exp[k] for k, _ in sub]}"}); return
    bv = s.add_variables(["b0", "b1"], "bin", lb=[0, 1], ub=[0, 1], var_type="integer")
    s.optimize()
    r = M.safe_call(s.get_values, bv, binary_values=True)
    if r[0] != "ok" or r[1] != {"b0": 0, "b1": 1}:
        viol.append({"sig": "C12/get_values/binary", "msg": f"{r}"})


def run_history(case, viol, obs, keys):
    """Random call history on one SolverWrapper, mirrored by a shadow model; after each optimize compare status/optimum with z3."""
    rng = gen.rng_for(case["rs"])
    so_ = dict(SO)
    if rng.random() < 0.3:
        # the custom (signal based) time-out route of optimize(): same answers expected, far below the limit
        so_.update({"time_limit": 30, "use_also_custom_timeout": True}); obs["c12.histories_custom_timeout"] += 1
    elif rng.random() < 0.2:
        so_.update({"time_limit": 30})
    s = SolverWrapper(**so_)
    names = []; var = {}; lb = {}; ub = {}; typ = {}
    cons = []          # (coefs dict, op, rhs)
    obj = ({}, 0.0, "minimize")
    pend_fix = []; pend_lb = []
    hist = []
    queued = False
    for step in range(rng.randint(4, 12)):
        op = rng.choice(["addvar", "addvar", "cons", "obj", "qlb", "qfix", "fix", "opt", "opt"]) if names else "addvar"
        if op == "addvar" and len(names) < 6:
            k = rng.randint(1, 2); ids = [f"v{len(names) + j}" for j in range(k)]
            l = [rng.choice([0, 0, 1]) for _ in ids]; u = [x + rng.randint(0, 5) for x in l]
            t = rng.choice(["integer", "continuous"])
            vs = s.add_variables(ids, "h", lb=l, ub=u, var_type=t)
            for i, a, b in zip(ids, l, u):
                names.append(i); var[i] = vs[i]; lb[i] = float(a); ub[i] = float(b); typ[i] = t
            hist.append(("addvar", ids, l, u, t))
        elif op == "cons" and names:
            idx = rng.sample(names, rng.randint(1, min(3, len(names))))
            co = {i: rng.choice([1, 1, 2, -1]) for i in idx}; rel = rng.choice(["<=", ">=", "=="])
            lo = sum(min(c * lb[i], c * ub[i]) for i, c in co.items()); hi = sum(max(c * lb[i], c * ub[i]) for i, c in co.items())
            rhs = rng.randint(math.floor(lo), math.ceil(hi))
            e = s.quicksum(co[i] * var[i] for i in idx)
            s.add_constraint(e <= rhs if rel == "<=" else (e >= rhs if rel == ">=" else e == rhs), name=f"c{step}")
            cons.append((co, rel, rhs)); hist.append(("cons", co, rel, rhs))
        elif op == "obj" and names:
            idx = rng.sample(names, rng.randint(1, len(names)))
            co = {i: rng.choice([1, 2, -1, 3]) for i in idx}; const = rng.choice([0, 1.5]); sense = rng.choice(["minimize", "maximize"])
            s.set_objective(s.quicksum(co[i] * var[i] for i in idx) + const, sense=sense)
            obj = (co, const, sense); hist.append(("obj", co, const, sense))
        elif op in ("qlb", "qfix") and names:
            free = [i for i in names if i not in {x for x, _ in pend_fix} and i not in {x for x, _ in pend_lb}]
            other = dict(pend_fix if op == "qlb" else pend_lb)
            both = [i for i in other if i not in {x for x, _ in (pend_lb if op == "qlb" else pend_fix)}]
            if both and rng.random() < 0.35:
                # the same variable in BOTH queues before one optimize, with the one value for which the request is unambiguous
                # (fix to v and lower bound v, in either order: bounds [v, v])
                i = rng.choice(both); val = int(other[i]); rep = 1
                obs["c12.history_var_in_both_queues"] += 1
            elif not free:
                continue
            else:
                i = rng.choice(free); val = rng.randint(int(lb[i]), max(int(lb[i]), int(ub[i])))
                rep = rng.choice([1, 1, 2])
            for _ in range(rep):
                if op == "qlb":
                    s.queue_set_var_lower_bound(var[i], val)
                else:
                    s.queue_fix_variable(var[i], val)
            (pend_lb if op == "qlb" else pend_fix).append((i, float(val))); hist.append((op, i, val, rep)); queued = True
        elif op == "fix" and names:
            free = [i for i in names if i not in {x for x, _ in pend_fix} and i not in {x for x, _ in pend_lb}]
            if not free:
                continue
            i = rng.choice(free); val = rng.randint(int(lb[i]), max(int(lb[i]), int(ub[i])))
            s.fix_variable(var[i], val); lb[i] = ub[i] = float(val); hist.append(("fix", i, val))
        elif op == "opt" and names:
            for i, v in pend_lb:
                lb[i] = v
            for i, v in pend_fix:
                lb[i] = ub[i] = v
            had_lb = bool(pend_lb)
            pend_fix = []; pend_lb = []
            s.optimize(); hist.append(("opt",))
            st = s.get_model_status()
            # shadow model, exact
            o = z3.Optimize(); o.set("timeout", 20000)
            zv = {i: (z3.Int(i) if typ[i] == "integer" else z3.Real(i)) for i in names}
            for i in names:
                o.add(zv[i] >= ref._q(lb[i]), zv[i] <= ref._q(ub[i]))
            for co, rel, rhs in cons:
                e = z3.Sum([ref._q(c) * zv[i] for i, c in co.items()])
                o.add(e <= rhs if rel == "<=" else (e >= rhs if rel == ">=" else e == rhs))
            co, const, sense = obj
            oe = z3.Sum([ref._q(c) * zv[i] for i, c in co.items()] + [ref._q(const)])
            (o.minimize if sense == "minimize" else o.maximize)(oe)
            r = o.check()
            if r == z3.unknown:
                obs["c12.history_ref_unknown"] += 1; return
            obs["c12.history_optimizes"] += 1
            # read bounds back
            _, gl, gu_ = lp_cols(s)
            got_b = {i: (gl[var[i].index], gu_[var[i].index]) for i in names}
            want_b = {i: (lb[i], ub[i]) for i in names}
            tag = "/after-queued-lb" if had_lb else ""
            if got_b != want_b:
                viol.append({"sig": "C12/history/bounds-differ-from-requested" + tag, "msg": f"history {hist}: bounds {got_b} requested {want_b}"}); return
            if r == z3.sat:
                exp = ref._num(o.model(), oe)
                if st != "kOptimal":
                    viol.append({"sig": "C12/history/feasible-reported-" + st + tag, "msg": f"history {hist}: z3 optimum {exp}, HiGHS status {st}"}); return
                if abs(s.get_objective_value() - float(exp)) > 1e-6 * max(1, abs(float(exp))):
                    viol.append({"sig": "C12/history/wrong-optimum" + tag, "msg": f"history {hist}: HiGHS {s.get_objective_value()} z3 {exp}"}); return
                vals = s.get_values(var)
                # returned values must satisfy the shadow model
                for i in names:
                    if vals[i] < lb[i] - 1e-6 or vals[i] > ub[i] + 1e-6:
                        viol.append({"sig": "C12/history/value-outside-bounds" + tag, "msg": f"{i}={vals[i]} not in [{lb[i]},{ub[i]}]; history {hist}"}); return
                # ... its constraints, and they must be the values OF THIS RUN: the objective recomputed from them is the optimum
                for co_, rel_, rhs_ in cons:
                    lhs_ = sum(c_ * vals[i] for i, c_ in co_.items())
                    if (rel_ == "<=" and lhs_ > rhs_ + 1e-6) or (rel_ == ">=" and lhs_ < rhs_ - 1e-6) or (rel_ == "==" and abs(lhs_ - rhs_) > 1e-6):
                        viol.append({"sig": "C12/history/values-violate-a-constraint" + tag, "msg": f"{co_} {rel_} {rhs_} with values {vals}; history {hist}"}); return
                ov_ = sum(c_ * vals[i] for i, c_ in obj[0].items()) + obj[1]
                if abs(ov_ - float(exp)) > 1e-6 * max(1, abs(float(exp))):
                    viol.append({"sig": "C12/history/values-are-not-those-of-this-run" + tag, "msg": f"objective recomputed from get_values() = {ov_}, optimum of this run {exp}; values {vals}; history {hist}"}); return
            else:
                if st == "kOptimal":
                    viol.append({"sig": "C12/history/infeasible-reported-optimal" + tag, "msg": f"history {hist}"}); return
    obs["c12.histories"] += 1
    keys.add("hist:" + hashlib.sha1(repr(hist).encode()).hexdigest()[:12])
    return queued


def run_case(case):
    viol = []; obs = collections.Counter(); keys = set()
    {"bin": run_bin, "int": run_int, "pw": run_pw, "bounds": run_bounds, "objective": run_objective, "values": run_values,
     "history": run_history}[case["kind"]](case, viol, obs, keys)
    # collapse repeated signatures inside one case
    seen = set(); out = []
    for v in viol:
        if v["sig"] not in seen:
            seen.add(v["sig"]); out.append(v)
    return {"viol": out[:6], "obs": dict(obs), "nontrivial": bool(keys), "keys": sorted(keys)[:400],
            "sample": {k: case[k] for k in case if k != "id"}}
