"""C03 - MinFlowDecomp (DAG) always finds a decomposition and it has the fewest paths.
Monitors: MinFlowDecomp.solve() return value, number of paths, the k values tried (constructor log), RouteMonitor on the side.
Oracle: exact z3 optimum over ALL source-to-sink paths (exhaustive reference => equality)."""
import collections, hashlib
import networkx as nx
from fpverif import gen, ref, monitors as M, models, instances as I
import flowpaths as fp

LEVEL = "exploration"
RULE = ("case = DAG (random/corpus shapes down to a single edge, stars, optimum=|E|, optimum>width) with a planted positive conserving flow "
        "(int or dyadic float), optionally subpath constraints (sub-sequences of arbitrary source-to-sink paths, coverage 1/0.75/0.5, or length "
        "coverage), ignored edges carrying garbage, node-weighted variants (nodes without the attribute, explicit ignores, extra starts/ends), "
        "and one lower-bound/optimisation option set; judged against the exact z3 minimum over all source-to-sink paths. "
        "non-trivial = optimum >= 2; distinct = (edges, flows, constraints, ignores, options)")
CASE_TIMEOUT = {"quick": 240, "thorough": 900}
REQUIRED_OBS = {"c03.compared_with_reference": 120}
ASSUMPTIONS = ["a MinFlowDecomp run whose inner MILP hits the 60 s solver limit yields no verdict (the library then reports 'not solved', as C13 demands)", "float inputs are dyadic so that conservation and sums are exact in binary; float weight type is compared with the real-valued optimum",
               "graphs <= 12 edges so that all source-to-sink paths can be enumerated (exhaustive reference)"]
EXHAUSTIVE = {"quick": False, "thorough": False}

OPTS = [{}, {}, {"optimize_with_greedy": False}, {"use_min_gen_set_lowerbound": True},
        {"use_min_gen_set_lowerbound": True, "use_min_gen_set_lowerbound_partition_constraints": True, "optimize_with_greedy": False},
        {"use_subgraph_scanning_lowerbound": True, "_small_window": True}, {"optimize_with_guessed_weights": True, "optimize_with_greedy": False},
        {"optimize_with_guessed_weights": True, "use_min_gen_set_lowerbound": True},
        {"optimize_with_flow_safe_paths": False, "optimize_with_safe_paths": True, "optimize_with_greedy": False},
        {"optimize_with_flow_safe_paths": False, "optimize_with_safe_paths": False, "optimize_with_safe_sequences": True, "optimize_with_greedy": False},
        {"optimize_with_safety_as_subpath_constraints": True, "optimize_with_greedy": False},
        {"optimize_with_flow_safe_paths": False, "optimize_with_safe_paths": False}]

CORPUS = [
    (["a", "b"], [("a", "b")], {("a", "b"): 5}),
    (["s", "x", "y", "z"], [("s", "x"), ("s", "y"), ("s", "z")], {("s", "x"): 1, ("s", "y"): 2, ("s", "z"): 4}),
    (["x", "y", "z", "t"], [("x", "t"), ("y", "t"), ("z", "t")], {("x", "t"): 3, ("y", "t"): 3, ("z", "t"): 1}),
    (["a", "b", "c"], [("a", "b"), ("b", "c")], {("a", "b"): 2, ("b", "c"): 2}),
    (["s", "a", "b", "t"], [("s", "a"), ("s", "b"), ("a", "t"), ("b", "t")], {("s", "a"): 1, ("s", "b"): 2, ("a", "t"): 1, ("b", "t"): 2}),
    (["s", "a", "b", "c", "d", "t"], [("s", "a"), ("s", "b"), ("a", "b"), ("a", "c"), ("b", "c"), ("c", "d"), ("c", "t"), ("d", "t")],
     {("s", "a"): 6, ("s", "b"): 7, ("a", "b"): 2, ("a", "c"): 4, ("b", "c"): 9, ("c", "d"): 6, ("c", "t"): 7, ("d", "t"): 6}),
    (["a", "b", "c", "d", "e"], [("a", "b"), ("c", "d"), ("d", "e")], {("a", "b"): 1, ("c", "d"): 2, ("d", "e"): 2}),
    # optimum > width: two parallel 2-edge routes sharing a middle node, 3 planted weights
    (["s", "m", "t"], [("s", "m"), ("m", "t")], {("s", "m"): 7, ("m", "t"): 7}),
    (["s", "a", "m", "b", "t"], [("s", "a"), ("a", "m"), ("s", "m"), ("m", "b"), ("b", "t"), ("m", "t")],
     {("s", "a"): 3, ("a", "m"): 3, ("s", "m"): 4, ("m", "b"): 5, ("b", "t"): 5, ("m", "t"): 2}),
]


def gen_cases(tier, seed):
    cases = []
    for i, (nodes, edges, fl) in enumerate(CORPUS):
        for wt in ("int", "float"):
            for oo in (OPTS[0], OPTS[2], OPTS[3]):
                base = {"nodes": nodes, "edges": edges, "flow": {e: (float(f) if wt == "float" else f) for e, f in fl.items()}, "planted": [], "wt": wt, "mode": "edge"}
                cases.append({"spec": I.spec_of(base), "mode": "edge", "wt": wt, "cons": [], "cov": 1.0, "ignore": [], "oo": oo, "tag": f"corpus{i}"})
    # constraints can force more paths than any unconstrained bound (m - n + 2 = 3 here, 4 crossing constraints need 4 paths)
    dd_n = ["s", "a", "b", "m", "c", "d", "t"]
    dd_e = [("s", "a"), ("a", "m"), ("s", "b"), ("b", "m"), ("m", "c"), ("c", "t"), ("m", "d"), ("d", "t")]
    dd_c = [[["a", "m"], ["m", "c"]], [["a", "m"], ["m", "d"]], [["b", "m"], ["m", "c"]], [["b", "m"], ["m", "d"]]]
    for wt in ("int", "float"):
        for f in (2, 6):
            for oo in (OPTS[0], {"optimize_with_greedy": False}, {"use_min_gen_set_lowerbound": True}):
                base = {"nodes": dd_n, "edges": dd_e, "flow": {e: (float(f) if wt == "float" else f) for e in dd_e}, "planted": [], "wt": wt, "mode": "edge"}
                for cons in (dd_c, dd_c[:3], [dd_c[0], dd_c[3]]):
                    cases.append({"spec": I.spec_of(base), "mode": "edge", "wt": wt, "cons": cons, "cov": 1.0, "ignore": [], "oo": oo, "tag": "corpus-dd"})
    # a hub whose (in-edge, out-edge) pairs are all constrained: the optimum (8) exceeds the number of edges (6)
    hub_n = ["a", "b", "c", "d", "h", "x", "y"]; hub_e = [("a", "h"), ("b", "h"), ("c", "h"), ("d", "h"), ("h", "x"), ("h", "y")]
    hub_f = {("a", "h"): 2, ("b", "h"): 2, ("c", "h"): 2, ("d", "h"): 2, ("h", "x"): 4, ("h", "y"): 4}
    hub_c = [[[u, "h"], ["h", w]] for u in ("a", "b", "c", "d") for w in ("x", "y")]
    for wt in ("int", "float"):
        base = {"nodes": hub_n, "edges": hub_e, "flow": {e: (float(f) if wt == "float" else f) for e, f in hub_f.items()}, "planted": [], "wt": wt, "mode": "edge"}
        for cons in (hub_c, hub_c[:7]):
            cases.append({"spec": I.spec_of(base), "mode": "edge", "wt": wt, "cons": cons, "cov": 1.0, "ignore": [], "oo": {}, "tag": "corpus-hub"})
    # scanning windows (small window) in which every edge is ignored: node-weighted double diamond with two ignored branch nodes
    dn = ["a", "b", "c", "d", "e", "f", "g"]; de = [("a", "b"), ("a", "c"), ("b", "d"), ("c", "d"), ("d", "e"), ("d", "f"), ("e", "g"), ("f", "g")]
    for wt in ("int", "float"):
        for ign, fl in ((["b", "c"], {"a": 8, "c": 77, "d": 8, "e": 6, "f": 2, "g": 8}), (["b", "c"], {"a": 8, "d": 8, "e": 6, "f": 2, "g": 8}),
                        (["e", "f"], {"a": 8, "b": 3, "c": 5, "d": 8, "g": 8})):
            base = {"nodes": dn, "edges": de, "flow": {v: (float(fl.get(v, 0)) if wt == "float" else fl.get(v, 0)) for v in dn}, "planted": [], "wt": wt, "mode": "node"}
            cases.append({"spec": I.spec_of(base, drop_attr=[v for v in dn if v not in fl]), "mode": "node", "wt": wt, "cons": [], "cov": 1.0, "ignore": ign,
                          "oo": {"use_subgraph_scanning_lowerbound": True, "_small_window": True}, "tag": "corpus-window"})
    n = 500 if tier == "quick" else 5000
    for i in range(n):
        rng = gen.rng_for("C03", seed, i)
        node = rng.random() < 0.3
        base = I.dag_node_base(rng, max_edges=9) if node else I.dag_edge_base(rng, max_edges=11 if tier == "quick" else 13)
        c = {"mode": base["mode"], "wt": base["wt"], "cons": [], "cov": 1.0, "ignore": [], "oo": rng.choice(OPTS), "planted": len(base["planted"])}
        drop = []; garbage = {}
        r = rng.random()
        if r < 0.45:
            P = gen.all_paths(base["nodes"], base["edges"]) if base["edges"] else []
            if P and base["mode"] == "edge":
                c["cons"] = gen.jl(gen.rand_subpath_constraints(rng, P, n=rng.randint(1, 3)))
                # a 'crossing' constraint (an edge of one planted path before a shared node, an edge of another planted path after it):
                # no planted path contains it, so a decomposition must spend an extra (possibly zero-weight) path on it; it is listed FIRST,
                # followed by constraints the planted paths satisfy
                pl = [p for p, _ in base["planted"]]
                cross = None
                for A in pl:
                    for B in pl:
                        if A is B:
                            continue
                        shared = [v for v in A[1:-1] if v in B[1:-1]]
                        if shared:
                            v = rng.choice(shared); i = A.index(v); j = B.index(v)
                            ea = (A[i - 1], A[i]); eb = (B[j], B[j + 1])
                            if (B[j - 1], B[j]) != ea and (A[i], A[i + 1]) != eb:
                                cross = [list(ea), list(eb)]
                if cross and rng.random() < 0.8:
                    easy = gen.jl(gen.rand_subpath_constraints(rng, pl, n=1, contiguous_prob=1.0))
                    c["cons"] = [cross] + easy; c["cov"] = 1.0; c.pop("covlen", None)
                    if rng.random() < 0.4:
                        # more crossings through the same kind of shared node: every (in-edge, out-edge) pair of one inner node
                        G0 = gen.build(I.spec_of(base))
                        mids = [v for v in G0.nodes if G0.in_degree(v) >= 2 and G0.out_degree(v) >= 2]
                        if mids:
                            v = rng.choice(mids)
                            pairs = [[[u, v], [v, w]] for u in G0.predecessors(v) for w in G0.successors(v)]
                            c["cons"] = pairs[:6] + easy
                    if rng.random() < 0.7:
                        c["oo"] = rng.choice([{}, {"use_min_gen_set_lowerbound": True}, {"optimize_with_flow_safe_paths": False, "optimize_with_safe_paths": False}])   # greedy stays on
                c["cov"] = rng.choice([1.0, 1.0, 0.75, 0.5])
                if rng.random() < 0.2:
                    c["covlen"] = rng.choice([1.0, 0.6, 0.45, 0.8]); c["cov"] = 1.0
                elif rng.random() < (0.6 if cross else 0.25):
                    c["lenattr_only"] = True      # length attribute named, coverage by edge count: the lengths must not matter
            elif base["mode"] == "node":
                c["cons"] = gen.jl(I.constraints_from_planted(rng, base, as_nodes=True)); c["cov"] = rng.choice([1.0, 0.5])
        r = rng.random()
        if r < 0.3 and len(base["edges"]) >= 2:
            ign = I.pick_ignore(rng, base, 0.3)
            if len(ign) < (len(base["edges"]) if base["mode"] == "edge" else len(base["nodes"])):
                c["ignore"] = gen.jl(ign)
                for e in ign:
                    g = rng.choice(["keep", "garbage", "missing", "zero", "small"])
                    if g == "small":
                        garbage[e] = 1 if base["wt"] == "int" else 0.5      # a stated value below what the paths through the ignored element carry
                    elif g == "garbage":
                        garbage[e] = 77 if base["wt"] == "int" else 77.5
                    elif g == "missing":
                        drop.append(e)
                    elif g == "zero":
                        garbage[e] = 0
        elif r < 0.4 and base["mode"] == "node" and len(base["nodes"]) >= 2:
            # a node without the attribute (implicitly ignored)
            v = rng.choice(base["nodes"]); drop.append(v); c["implicit_ignore"] = [v]
        extra = {}
        if c.get("covlen"):
            lv = rng.choice([[1, 2, 5], [0.5, 1.5, 2.25], [0.3, 1.7, 2.9, 4.1]])        # lengths need not be integers
            extra = {e: {"len": rng.choice(lv)} for e in base["edges"] if rng.random() < 0.8}
        elif c.get("lenattr_only"):
            extra = {e: {"len": rng.choice([2, 5, 9])} for e in base["edges"] if rng.random() < 0.8}
        if rng.random() < 0.08 and not garbage:
            # the same instance at another order of magnitude (exact in binary / as ints): the statement is about every positive flow
            mag = rng.choice(["1e6", "1e9", "2^-20"]) if base["wt"] == "float" else rng.choice(["1e6", "1e9"])
            fac = {"1e6": 10 ** 6, "1e9": 10 ** 9, "2^-20": 2.0 ** -20}[mag]
            base = dict(base); base["flow"] = {e: (f * fac if base["wt"] == "int" or mag != "2^-20" else f * fac) for e, f in base["flow"].items()}
            if base["wt"] == "float":
                base["flow"] = {e: float(f) for e, f in base["flow"].items()}
            c["mag"] = mag
        c["spec"] = I.spec_of(base, drop_attr=drop, garbage=garbage, extra_eattr=extra)
        cases.append(c)
    # corpus: two paths have to share an ignored middle edge whose own stated value is small; an ignored detour keeps every capacitated
    # cover of the stated values feasible (a lower bound computed from the stated values of ignored edges would overshoot)
    ig_ = [["a", "b"], ["a", "q"], ["q", "t3"], ["s3", "z"], ["z", "b"]]
    for fl_ in ({("s1", "a"): 1, ("s2", "a"): 1, ("a", "b"): 1, ("a", "q"): 1, ("q", "t3"): 1, ("s3", "z"): 1, ("z", "b"): 1, ("b", "t1"): 1, ("b", "t2"): 1},
                {("s1", "a"): 4, ("s2", "a"): 6, ("a", "b"): 1, ("a", "q"): 9, ("q", "t3"): 9, ("s3", "z"): 9, ("z", "b"): 9, ("b", "t1"): 4, ("b", "t2"): 6}):
        for wt_ in ("int", "float"):
            base_ = {"nodes": ["s1", "s2", "s3", "a", "b", "q", "z", "t1", "t2", "t3"], "edges": list(fl_), "flow": {e: (float(f) if wt_ == "float" else f) for e, f in fl_.items()},
                     "planted": [], "wt": wt_, "mode": "edge"}
            for oo_ in ({}, {"optimize_with_greedy": False}):
                cases.append({"spec": I.spec_of(base_), "mode": "edge", "wt": wt_, "cons": [], "cov": 1.0, "ignore": ig_, "oo": oo_, "tag": "corpus-ignored-shared"})
    # everything behind a waist node is ignored but keeps its (conserving) values, which split the total differently from the part that has to be
    # explained: a level cut made of ignored edges says nothing about the weights of a minimum decomposition (lower-bound helpers must not use it)
    for i in range(8 if tier == "quick" else 60):
        rng = gen.rng_for("C03tail", seed, i)
        a_ = rng.randint(2, 3); A_ = [rng.randint(1, 6) for _ in range(a_)]; T_ = sum(A_)
        b_ = rng.randint(2, 3); cuts_ = sorted(rng.sample(range(1, T_), min(b_ - 1, T_ - 1))); B_ = [y - x for x, y in zip([0] + cuts_, cuts_ + [T_])]
        wt_ = rng.choice(["int", "float"]); sc_ = 1 if wt_ == "int" else rng.choice([1.0, 0.5, 2.5])
        fl_ = {}
        for j, w in enumerate(A_):
            fl_[("s", f"x{j}")] = w * sc_; fl_[(f"x{j}", "m")] = w * sc_
        ig_ = []
        for j, w in enumerate(B_):
            fl_[("m", f"y{j}")] = w * sc_; fl_[(f"y{j}", "t")] = w * sc_; ig_ += [["m", f"y{j}"], [f"y{j}", "t"]]
        eds_ = list(fl_); rng.shuffle(eds_)
        base_ = {"nodes": ["s", "m", "t"] + [f"x{j}" for j in range(a_)] + [f"y{j}" for j in range(len(B_))], "edges": eds_, "flow": {e: fl_[e] for e in eds_}, "planted": [], "wt": wt_, "mode": "edge"}
        cases.append({"spec": I.spec_of(base_), "mode": "edge", "wt": wt_, "cons": [], "cov": 1.0, "ignore": ig_, "tag": "ignored-tail",
                      "oo": rng.choice([OPTS[4], OPTS[4], OPTS[3], {"use_min_gen_set_lowerbound": True, "use_min_gen_set_lowerbound_partition_constraints": True}, OPTS[7], OPTS[5]])})
    # corpus (thorough tier, seed 2): at magnitude 1e7 HiGHS' presolve declares the 3-path model infeasible (known finding, classified by re-solving)
    cases.append({"mode": "edge", "wt": "int", "cons": [[["2", "3"], ["3", "4"]]], "cov": 0.75, "ignore": [], "planted": 4, "mag": "1e6",
                  "oo": {"optimize_with_flow_safe_paths": False, "optimize_with_safe_paths": False, "optimize_with_safe_sequences": True, "optimize_with_greedy": False},
                  "spec": {"nodes": [["1", {}], ["2", {}], ["3", {}], ["4", {}]], "graph": {},
                           "edges": [["1", "4", {"flow": 5000000}], ["2", "3", {"flow": 14000000}], ["2", "4", {"flow": 13000000}], ["3", "4", {"flow": 14000000}]]}})
    # corpus (thorough tier, seed 0): at magnitude 1e7 the minimum-generating-set model overshoots (known finding; with presolve off that model does not finish)
    cases.append({"mode": "edge", "wt": "int", "cons": [], "cov": 1.0, "ignore": [], "planted": 0, "mag": "1e6", "oo": {"use_min_gen_set_lowerbound": True},
                  "spec": {"nodes": [[str(i), {}] for i in range(7)], "graph": {},
                           "edges": [[u, v, {"flow": f * 10 ** 6}] for u, v, f in (("0", "3", 5), ("0", "5", 11), ("1", "2", 11), ("1", "3", 17), ("1", "5", 7), ("1", "6", 13),
                                                                                  ("2", "4", 11), ("3", "4", 5), ("3", "5", 17), ("4", "6", 16))]}})
    return cases


def constraint_ok(col, c, cov, covlen, lengths, mode):
    """does the route (Counter of elements) satisfy constraint c (list of elements)? counting rule of the docs: elements of the
    constraint that lie on the path, relative to the constraint's size (or length)."""
    if covlen is None:
        return sum(1 for e in c if col.get(e, 0) > 0) >= len(c) * cov - 1e-12
    tot = sum(lengths.get(e, 1) for e in c)
    return sum(lengths.get(e, 1) for e in c if col.get(e, 0) > 0) >= tot * covlen - 1e-12


def reference(G, mode, wt, flowattr, ignore, cons, cov, covlen, starts=(), ends=()):
    S = list(dict.fromkeys(ref.sources(G) + list(starts))); T = list(dict.fromkeys(ref.sinks(G) + list(ends)))
    P = ref.st_paths(G, S, T)
    if mode == "edge":
        cols = [collections.Counter(ref.path_edges(p)) for p in P]
        demand = {(u, v): d[flowattr] for u, v, d in G.edges(data=True) if (u, v) not in ignore and flowattr in d}
        lengths = {(u, v): d.get("len", 1) for u, v, d in G.edges(data=True)}
    else:
        cols = [collections.Counter(p) for p in P]
        demand = {v: d[flowattr] for v, d in G.nodes(data=True) if v not in ignore and flowattr in d}
        lengths = {}
    cons_cols = [[i for i, col in enumerate(cols) if constraint_ok(col, c, cov, covlen, lengths, mode)] for c in cons]
    return ref.mfd_min(cols, demand, models.WT[wt], cons_cols), len(P)


def run_case(case):
    viol = []; obs = collections.Counter()
    G = gen.build(case["spec"])
    mode = case["mode"]; wt = case["wt"]
    ign = [models._elem(e) for e in case["ignore"]]
    cons = [[models._elem(e) for e in c] for c in case["cons"]]
    oo = dict(case["oo"]); small = oo.pop("_small_window", False)
    kw = {"flow_attr": "flow", "weight_type": wt, "optimization_options": oo}
    if mode == "node":
        kw["flow_attr_origin"] = "node"
    if cons:
        kw["subpath_constraints"] = case["cons"]
        if case.get("covlen"):
            kw["subpath_constraints_coverage_length"] = case["covlen"]; kw["length_attr"] = "len"
        else:
            kw["subpath_constraints_coverage"] = case["cov"]
            if case.get("lenattr_only"):
                kw["length_attr"] = "len"
    if ign:
        kw["elements_to_ignore"] = case["ignore"]
    inst = {"cls": "MinFlowDecomp", "spec": case["spec"], "kw": kw}
    M.ROUTES.install(); M.ROUTES.drain(); del M.CTOR_LOG[:]
    old = (fp.MinFlowDecomp.subgraph_lowerbound_size, fp.MinFlowDecomp.subgraph_lowerbound_shift)
    if small:
        fp.MinFlowDecomp.subgraph_lowerbound_size, fp.MinFlowDecomp.subgraph_lowerbound_shift = 3, 2
    M.TRACE.install(); M.TRACE.reset()
    try:
        res = models.run(inst, solver_options={"threads": 1, "time_limit": 60})
    finally:
        fp.MinFlowDecomp.subgraph_lowerbound_size, fp.MinFlowDecomp.subgraph_lowerbound_shift = old
    side = [s for s, _ in M.ROUTES.drain()]
    if not res.get("solved") and "exc" not in res and any(t.get("status") == "kTimeLimit" for t in M.TRACE.trace):
        # heavy-tailed MILP (60 s solver limit hit): the library correctly reports 'not solved'; no verdict on minimality from this case
        return {"viol": [], "obs": {"c03.time_limited": 1}, "side": side, "nontrivial": False}
    desc = f"mode={mode} wt={wt} edges={[(u, v, d.get('flow')) for u, v, d in G.edges(data=True)]}" + (f" nodes={[(v, d.get('flow')) for v, d in G.nodes(data=True)]}" if mode == "node" else "") + f" cons={cons} cov={case['cov']} covlen={case.get('covlen')} ignore={ign} oo={case['oo']}"
    try:
        kstar, npaths = reference(G, mode, wt, "flow", set(ign), cons, case["cov"], case.get("covlen"))
    except ref.RefTimeout:
        return {"viol": [], "obs": {"c03.ref_timeout": 1}, "inconclusive": None, "nontrivial": False}
    obs["c03.compared_with_reference"] += 1
    E = G.number_of_edges() if mode == "edge" else None
    tags = []
    if mode == "edge" and kstar is not None and kstar >= G.number_of_edges():
        tags.append("optimum>=|E|")
    if ign:
        tags.append("ignore")
    if mode == "node":
        tags.append("node")
    if cons:
        tags.append("cons")
    lbopt = [k for k in ("use_min_gen_set_lowerbound", "use_subgraph_scanning_lowerbound", "optimize_with_guessed_weights") if oo.get(k)]
    tagstr = "/".join(tags + lbopt)
    if "exc" in res:
        kind = res["exc"][0]
        viol.append({"sig": f"C03/{res['stage']}-raises/{kind}" + (f"/{tagstr}" if tagstr else ""), "msg": f"{res['exc']}; reference optimum {kstar}; {desc}"})
    elif kstar is None:
        if res["solved"]:
            viol.append({"sig": "C03/solved-but-reference-infeasible", "msg": f"{desc}"})
        else:
            obs["c03.both_infeasible"] += 1
    elif not res["solved"]:
        viol.append({"sig": "C03/unsolved" + (f"/{tagstr}" if tagstr else ""), "msg": f"solve() returned {res.get('solve_ret')} but a decomposition with {kstar} paths exists (of {npaths} s-t paths); {desc}"})
    else:
        got = len(res["sol"]["paths"])
        if got != kstar:
            viol.append({"sig": ("C03/not-minimum" if got > kstar else "C03/below-reference") + (f"/{tagstr}" if tagstr else ""),
                         "msg": f"returned {got} paths, exact minimum is {kstar}; {desc}"})
        ks = [k for n, k in M.CTOR_LOG if n == "kFlowDecomp" and k is not None]
        lb = getattr(res.get("model"), "_lowerbound_k", None)
        if lb is not None and lb > kstar:
            viol.append({"sig": "C03/lower-bound-overshoots" + (f"/{tagstr}" if tagstr else ""), "msg": f"lower bound {lb} > exact minimum {kstar}; {desc}"})
        if case.get("planted") and not cons and not ign and got > case["planted"]:
            viol.append({"sig": "C03/more-than-planted", "msg": f"{got} > planted {case['planted']}; {desc}"})
    if lbopt and "exc" not in res and isinstance(res.get("kw", {}).get("optimization_options"), dict):
        # history: the caller re-uses the SAME options dict for a later, smaller instance (one path): still decomposed with the fewest paths
        P = nx.DiGraph(); f1 = 3 if wt == "int" else 3.0
        P.add_edge("p0", "p1", flow=f1); P.add_edge("p1", "p2", flow=f1)
        old2 = (fp.MinFlowDecomp.subgraph_lowerbound_size, fp.MinFlowDecomp.subgraph_lowerbound_shift)
        if small:
            fp.MinFlowDecomp.subgraph_lowerbound_size, fp.MinFlowDecomp.subgraph_lowerbound_shift = 3, 2
        try:
            r2 = M.safe_call(fp.MinFlowDecomp, P, flow_attr="flow", weight_type=models.WT[wt], optimization_options=res["kw"]["optimization_options"], solver_options={"threads": 1, "time_limit": 60})
            s2 = M.safe_call(r2[1].solve) if r2[0] == "ok" else r2
        finally:
            fp.MinFlowDecomp.subgraph_lowerbound_size, fp.MinFlowDecomp.subgraph_lowerbound_shift = old2
        obs["c03.same_options_object_reused"] += 1
        if s2[0] != "ok":
            viol.append({"sig": f"C03/later-model-with-the-same-options-object/raises/{s2[1]}/{'/'.join(lbopt)}", "msg": f"{s2[2]}; after {desc}"})
        elif not r2[1].is_solved() or len(r2[1].get_solution()["paths"]) != 1:
            viol.append({"sig": f"C03/later-model-with-the-same-options-object/not-minimum/{'/'.join(lbopt)}",
                         "msg": f"single path p0->p1->p2 with flow {f1}: solved={r2[1].is_solved()} {r2[1].get_solution() if r2[1].is_solved() else None}; options object now {res['kw']['optimization_options']}; after {desc}"})
    key = hashlib.sha1(desc.encode()).hexdigest()[:14]
    if case.get("mag"):
        # every disagreement on a magnitude-shifted instance is keyed by that magnitude (numerical range of the MILP layer)
        obs["c03.magnitude_cases"] += 1
        presolve = False
        if viol and kstar is not None:
            # classification (as in C04/C05/C07/C15): the same model with HiGHS' presolve switched off reaches the exact minimum
            # => the solver (trusted base) went wrong on the k*-model; everything that followed (a larger k, a k+1 model that runs
            # out of time or memory) is a consequence
            res2 = models.run(inst, solver_options={"threads": 1, "time_limit": 60, "presolve": "off"})
            presolve = bool(res2.get("solved")) and "exc" not in res2 and len(res2["sol"]["paths"]) == kstar
            obs["c03.presolve_off_reruns"] += 1
        for v in viol:
            v["sig"] = f"C03/numerical-range/{case['mag']}/" + ("solver-presolve-defect" if presolve else v["sig"][4:])
    return {"viol": viol, "obs": dict(obs), "side": side, "nontrivial": bool(kstar and kstar >= 2), "keys": [key] if kstar and kstar >= 2 else [],
            "sample": {"edges": [(u, v, d.get("flow")) for u, v, d in G.edges(data=True)][:14], "mode": mode, "wt": wt, "cons": case["cons"], "ignore": case["ignore"],
                       "oo": case["oo"], "reference_optimum": kstar, "library": (len(res["sol"]["paths"]) if res.get("sol") else None)}}
