"""C06 - safe paths/sequences are truly safe, mutually incompatible, and prune soundly.
Monitors: return values of safe_paths / safe_sequences / maximal_safe_sequences_via_dominators /
compute_flow_decomp_safe_paths / get_longest_incompatible_sequences and walks_to_fix / edges_set_to_zero / edges_set_to_one
of constructed (never solved) models. Oracle: avoidance automaton (product of the s-t graph with greedy subsequence
matchers) - an exact decision procedure for 'every source-to-sink walk through e contains the sequence' - and z3 for
flow-safety."""
import collections, itertools, hashlib, sys
import networkx as nx
from fpverif import gen, ref, monitors as M
import flowpaths as fp
from flowpaths.utils import safetypathcovers as spd, safetypathcoverscycles as spc, safetyflowdecomp as sfd
import z3

LEVEL = "exploration"
RULE = ("case kinds: (cyc) digraph + trusted set X -> every maximal safe sequence judged by the avoidance automaton, every pair chosen by "
        "get_longest_incompatible_sequences judged by the two-matcher product; (dag) DAG + X (edges and subpath-constraint lists) -> "
        "safe_paths / safe_sequences per item, with threads in {1,2,4,8} under a 1e-6 switch interval compared with the 1-thread result; "
        "(flow) planted flow -> flow-safe paths judged by z3 feasibility of a decomposition avoiding the path; (prune) constructed cyclic "
        "models -> walks_to_fix safe + pairwise incompatible, every edges_set_to_zero entry judged by the automaton, edges_set_to_one "
        "entries lie on their slot's sequence. thorough: all digraphs on <=3 inner nodes (self-loops) and 4 inner nodes (no self-loops). "
        "non-trivial = at least one sequence of length>=2 judged; distinct = (edges, X)")
CASE_TIMEOUT = {"quick": 60, "thorough": 300}
REQUIRED_OBS = {"c06.cyc_sequences_judged": 300, "c06.incompatible_pairs_judged": 50, "c06.dag_safe_paths_judged": 300,
                "c06.dag_safe_sequences_judged": 300, "c06.flow_safe_paths_judged": 100, "c06.pruned_edges_judged": 100,
                "c06.thread_stress_runs": 50, "c06.dag_model_safe_lists_judged": 100}
ASSUMPTIONS = ["X contains only edges of the caller's graph (never the synthetic source/sink edges), as every in-repository caller guarantees",
               "flow-safety is judged against real-weighted decompositions (a real-weighted decomposition avoiding the path is a valid witness)"]
EXHAUSTIVE = {"quick": False, "thorough": False}
SO = {"threads": 1}


def small_scope_graphs(n_inner, self_loops):
    inner = [f"n{i}" for i in range(n_inner)]
    pairs = [(a, b) for a in inner for b in inner if self_loops or a != b]
    for mask in range(1 << len(pairs)):
        edges = [("s", inner[0])] + [pairs[i] for i in range(len(pairs)) if mask >> i & 1] + [(inner[-1], "t")]
        yield ["s"] + inner + ["t"], edges


def gen_cases(tier, seed):
    cases = []
    n = 400 if tier == "quick" else 20000
    for i in range(n):
        rng = gen.rng_for("C06c", seed, i)
        nodes, edges = gen.cyc_any(rng, 13)
        r = rng.random()
        X = list(edges) if r < 0.4 else (rng.sample(edges, rng.randint(1, len(edges))) if r < 0.85 else [rng.choice(edges)])
        cases.append({"kind": "cyc", "spec": gen.spec(nodes, edges), "X": gen.jl(X)})
    # digraphs with parts that lie on no source-to-sink walk (a cycle that cannot reach the sink / cannot be reached from a source)
    for i in range(max(20, n // 20)):
        rng = gen.rng_for("C06dead", seed, i)
        nodes, edges = gen.cyc_any(rng, 10)
        nodes = list(nodes); edges = list(edges)
        x = rng.choice(nodes); r = rng.random()
        if r < 0.5:
            nodes.append("dead1"); edges += [(x, "dead1"), ("dead1", "dead1")]
        if r >= 0.3:
            nodes.append("dead2"); edges += [("dead2", "dead2"), ("dead2", x)]
        live = [e for e in edges if "dead1" not in e and "dead2" not in e]
        X = list(edges) if rng.random() < 0.3 else rng.sample(live, rng.randint(1, len(live)))
        cases.append({"kind": "cyc", "spec": gen.spec(nodes, edges), "X": gen.jl(X)})
    for i in range(n):
        rng = gen.rng_for("C06d", seed, i)
        nodes, edges = gen.dag_any(rng, 14)
        X = rng.sample(edges, rng.randint(1, len(edges)))
        P = gen.all_paths(nodes, edges)
        cons = gen.rand_subpath_constraints(rng, P, n=rng.randint(0, 3)) if P else []
        cases.append({"kind": "dag", "spec": gen.spec(nodes, edges), "X": gen.jl(X), "cons": gen.jl(cons), "threads": rng.choice([1, 2, 4, 8]),
                      "stress": rng.random() < 0.35})
    for i in range(n // 2):
        rng = gen.rng_for("C06f", seed, i)
        nodes, edges = gen.dag_any(rng, 12)
        flow, planted = gen.plant_paths(rng, nodes, edges, npaths=rng.randint(1, 4), maxw=rng.choice([3, 9, 30]))
        if any(f == 0 for f in flow.values()):
            continue
        cases.append({"kind": "flow", "spec": gen.spec(nodes, edges, eattr={e: {"flow": f} for e, f in flow.items()})})
        if rng.random() < 0.5:
            # inexact flow: an interval [lb, ub] around the planted flow on some edges; the planted paths decompose a feasible flow
            ea = {}
            for e, f in flow.items():
                r = rng.random()
                # (lower bounds stay >= 1: with lb = 0 an edge need not carry flow at all, and whether its one-edge path is then "safe" is not
                #  settled by the statement - the library reports it)
                lo, hi = (f, f) if r < 0.4 else ((max(1, f - rng.randint(0, 2)), f + rng.randint(0, 2)) if r < 0.8 else (max(1, f - rng.randint(1, 3)), f))
                ea[e] = {"flow": f, "lb": lo, "ub": hi}
            cases.append({"kind": "iflow", "spec": gen.spec(nodes, edges, eattr=ea), "paths": [list(p) for p, _ in planted]})
    for i in range(n // 2):
        rng = gen.rng_for("C06p", seed, i)
        nodes, edges = gen.cyc_any(rng, 12)
        ign = [] if rng.random() < 0.5 else rng.sample(edges, rng.randint(1, max(1, len(edges) // 3)))
        r2 = gen.rng_for("C06p2", seed, i); se_ = {}
        if r2.random() < 0.35:
            # additional start / end nodes (no cover is obliged to start or end there), or a source all of whose edges are ignored
            if r2.random() < 0.7:
                se_["additional_starts"] = [r2.choice(nodes)]
            if r2.random() < 0.7:
                se_["additional_ends"] = [r2.choice(nodes)]
        elif r2.random() < 0.2:
            src_ = [v for v in nodes if not any(e[1] == v for e in edges)]
            if src_:
                v_ = r2.choice(src_); ign = list(dict.fromkeys(list(ign) + [e for e in edges if e[0] == v_]))
                if len(ign) == len(edges):
                    ign = []
        cases.append({"kind": "prune", "se": se_, "spec": gen.spec(nodes, edges, eattr={e: {"flow": rng.randint(1, 5)} for e in edges}),
                      "cls": rng.choice(["kPathCoverCycles", "kPathCoverCycles", "kMinPathErrorCycles", "kLeastAbsErrorsCycles"]),
                      "k": rng.randint(1, 4), "ignore": gen.jl(ign), "oo": rng.choice([{}, {"optimize_with_safe_sequences_allow_geq_constraints": False}, {"optimize_with_max_safe_antichain_as_subset_constraints": True},
                                        {"optimize_with_safe_sequences_fix_via_bounds": True}, {"optimize_with_safe_sequences_fix_via_bounds": True, "optimize_with_safe_sequences_fix_zero_edges": False}])})
    # corpus: the single safe walk goes through the edge x->y twice, and 2 is also the most that edge can be traversed (its flow / the largest
    # reachable flow is 2): 'at least twice' and 'exactly twice' coincide there, 'exactly once' never holds
    dbl = [("s", "x", 1), ("x", "y", 2), ("y", "t", 1), ("y", "u", 1), ("u", "x", 1)]
    for order in (dbl, list(reversed(dbl)), dbl[2:] + dbl[:2]):
        for cls_ in ("kFlowDecompCycles", "kMinPathErrorCycles", "kLeastAbsErrorsCycles", "kPathCoverCycles"):
            for oo_ in ({}, {"optimize_with_safe_sequences_fix_via_bounds": True}, {"optimize_with_safe_sequences_fix_via_bounds": True, "optimize_with_safe_sequences_fix_zero_edges": False}):
                cases.append({"kind": "prune", "cls": cls_, "k": 1, "ignore": [], "oo": oo_,
                              "spec": gen.spec(["s", "x", "y", "u", "t"], [(u, v) for u, v, _ in order], eattr={(u, v): {"flow": f} for u, v, f in order})})
    for i in range(n // 2):
        rng = gen.rng_for("C06m", seed, i)
        nodes, edges = gen.dag_any(rng, 11)
        P = gen.all_paths(nodes, edges)
        cons = gen.rand_subpath_constraints(rng, P, n=rng.randint(1, 2)) if P else []
        r = rng.random()
        cov, covlen = (1.0, None) if r < 0.4 else ((rng.choice([0.5, 0.75]), None) if r < 0.7 else (1.0, rng.choice([0.4, 0.7, 1.0])))
        lengths = [[u, v, rng.choice([1, 3, 7, 0, 0])] for (u, v) in edges if rng.random() < 0.7] if covlen else []      # zero-length edges: covering "100% of the length" does not force them
        cases.append({"kind": "dagmodel", "spec": gen.spec(nodes, edges, eattr={(u, v): {"len": l} for u, v, l in lengths}), "cons": gen.jl(cons), "cov": cov, "covlen": covlen,
                      "lengths": lengths, "k": rng.randint(1, 3), "cls": rng.choice(["kPathCover", "kPathCover", "kLeastAbsErrors", "kMinPathError"]),
                      "oo": rng.choice([{}, {"optimize_with_safe_paths": False, "optimize_with_safe_sequences": True}, {"optimize_with_safe_paths": True}, {"optimize_with_safe_paths": False}])})
        if rng.random() < 0.4 and len(nodes) >= 3:
            # declared additional start / end nodes: paths may begin / stop there, so nothing may be extended THROUGH such a node just because it
            # has a single in- or out-neighbour in the caller's graph
            cases[-1]["starts"] = rng.sample(nodes, rng.randint(0, 2)); cases[-1]["ends"] = rng.sample(nodes, rng.randint(0 if cases[-1]["starts"] else 1, 2))
    # corpus: a constraint covered "100% by length" whose first edge has length 0 (need not lie on the covering path)
    zl_e = [("p", "x"), ("x", "y"), ("w", "y"), ("y", "z")]; zl_len = [["p", "x", 1], ["x", "y", 0], ["w", "y", 1], ["y", "z", 3]]
    for cls_ in ("kLeastAbsErrors",):
        for oo_ in ({}, {"optimize_with_safe_paths": False, "optimize_with_safe_sequences": True}):
            cases.append({"kind": "dagmodel", "spec": gen.spec(["p", "x", "w", "y", "z"], zl_e, eattr={(u, v): {"len": l} for u, v, l in zl_len}), "cons": [[["x", "y"], ["y", "z"]]],
                          "cov": 1.0, "covlen": 1.0, "lengths": zl_len, "k": 2, "cls": cls_, "oo": oo_, "trusted": [["w", "y"], ["y", "z"]]})
    if tier == "thorough":
        for nodes, edges in small_scope_graphs(3, True):
            cases.append({"kind": "cyc", "spec": gen.spec(nodes, edges), "X": gen.jl(edges), "also_subsets": True})
        for j, (nodes, edges) in enumerate(small_scope_graphs(4, False)):
            cases.append({"kind": "cyc", "spec": gen.spec(nodes, edges), "X": gen.jl(edges), "also_subsets": j % 4 == 0})
    return cases


def is_safe(st, seq, X):
    seq = [tuple(e) for e in seq]
    return any(not ref.exists_walk_avoiding(st, st.source, st.sink, seq, [e]) for e in X)


def run_cyc(case, viol, obs):
    G = gen.build(case["spec"])
    r = M.safe_call(fp.stDiGraph, G)
    if r[0] != "ok":
        return None, False
    st = r[1]
    Xs = [gen.tupl(case["X"])]
    if case.get("also_subsets"):
        E = list(G.edges)
        Xs += [[e] for e in E[:4]] + [E[::2], E[1::2]]
    nontriv = False
    fwd = ref.reach_from(st, st.source); bwd = ref.reach_to(st, st.sink)
    for X in Xs:
        # a trusted edge lying on no source-to-sink walk has no walk cover at all (the property is vacuous for such an X, and no
        # model passes one): only coverable edges are trusted
        X = [e for e in X if G.has_edge(*e) and e[0] in fwd and e[1] in bwd]
        if not X:
            continue
        obs["c06.cyc_trusted_sets"] += 1
        r = M.safe_call(spc.maximal_safe_sequences_via_dominators, st, set(X))
        if r[0] != "ok":
            viol.append({"sig": f"C06/cyc-safe-sequences-raise/{r[1]}", "msg": f"{r[2]} edges {list(G.edges)} X {X}"}); continue
        seqs = r[1]
        for s in seqs:
            obs["c06.cyc_sequences_judged"] += 1
            s_ = [tuple(e) for e in s]
            if any(not st.has_edge(*e) for e in s_):
                viol.append({"sig": "C06/cyc-sequence-has-non-edge", "msg": f"{s_}"}); continue
            if len(s_) >= 2:
                nontriv = True
            if not is_safe(st, s_, X):
                e0 = X[0]
                w = ref.witness_walk_avoiding(st, st.source, st.sink, s_, [e0])
                viol.append({"sig": "C06/cyc-sequence-not-safe", "msg": f"sequence {s_} is avoided by a cover of X={X}: e.g. walk {w} through {e0}; edges {list(G.edges)}"})
        # every trusted edge must be covered by some sequence? (not part of the property) -- only count
        if seqs:
            r2 = M.safe_call(st.get_longest_incompatible_sequences, seqs)
            if r2[0] != "ok":
                viol.append({"sig": f"C06/incompatible-sequences-raise/{r2[1]}", "msg": f"{r2[2]} edges {list(G.edges)} X {X}"}); continue
            inc = r2[1]
            for a, b in itertools.combinations(inc, 2):
                obs["c06.incompatible_pairs_judged"] += 1
                if ref.can_cooccur(st, st.source, st.sink, [tuple(e) for e in a], [tuple(e) for e in b]):
                    viol.append({"sig": "C06/slots-can-share-a-walk", "msg": f"sequences {a} and {b} were assigned to different slots but one source-to-sink walk contains both; edges {list(G.edges)} X {X}"})
            for a in inc:
                if a not in seqs:
                    viol.append({"sig": "C06/slot-sequence-not-from-input", "msg": f"{a}"})
    return hashlib.sha1(repr((list(G.edges), case["X"])).encode()).hexdigest()[:14], nontriv


def run_dag(case, viol, obs):
    G = gen.build(case["spec"]); st = fp.stDAG(G)
    X = gen.tupl(case["X"]); cons = [gen.tupl(c) for c in case["cons"]]
    thr = case["threads"]
    old = sys.getswitchinterval()
    nontriv = False
    try:
        if case.get("stress"):
            sys.setswitchinterval(1e-6)
        r = M.safe_call(spd.safe_paths, st, X, False, thr)
        items = X + cons
        r2 = M.safe_call(spd.safe_sequences, st, items, False, thr)
    finally:
        sys.setswitchinterval(old)
    desc = f"edges {list(G.edges)}"
    if r[0] != "ok":
        viol.append({"sig": f"C06/safe_paths-raise/{r[1]}", "msg": f"{r[2]} {desc}"})
    else:
        if len(r[1]) != len(X):
            viol.append({"sig": "C06/safe_paths-count", "msg": f"{len(r[1])} results for {len(X)} edges"})
        for e, p in zip(X, r[1]):
            obs["c06.dag_safe_paths_judged"] += 1
            p_ = [tuple(x) for x in p]
            if len(p_) >= 2:
                nontriv = True
            if e not in p_ or any(not st.has_edge(*x) for x in p_) or any(a[1] != b[0] for a, b in zip(p_, p_[1:])):
                viol.append({"sig": "C06/dag-safe-path-malformed", "msg": f"safe path {p_} for edge {e}; {desc}"}); continue
            if ref.exists_walk_avoiding(st, st.source, st.sink, p_, [e]):
                viol.append({"sig": "C06/dag-safe-path-not-safe", "msg": f"path {p_} for {e} is avoided by {ref.witness_walk_avoiding(st, st.source, st.sink, p_, [e])}; {desc}"})
    if r2[0] != "ok":
        viol.append({"sig": f"C06/safe_sequences-raise/{r2[1]}", "msg": f"{r2[2]} {desc}"})
    else:
        if len(r2[1]) != len(items):
            viol.append({"sig": "C06/safe_sequences-count", "msg": f"{len(r2[1])} results for {len(items)} items"})
        for it, s in zip(items, r2[1]):
            obs["c06.dag_safe_sequences_judged"] += 1
            thr_ = [it] if isinstance(it, tuple) else list(it)
            s_ = [tuple(x) for x in s]
            if len(s_) >= 2:
                nontriv = True
            if any(not st.has_edge(*x) for x in s_) or not ref.contains_subseq(s_, thr_):
                viol.append({"sig": "C06/dag-safe-sequence-malformed", "msg": f"sequence {s_} for item {it}; {desc}"}); continue
            if ref.exists_walk_avoiding(st, st.source, st.sink, s_, thr_):
                viol.append({"sig": "C06/dag-safe-sequence-not-safe", "msg": f"sequence {s_} for {it} is avoided by {ref.witness_walk_avoiding(st, st.source, st.sink, s_, thr_)}; {desc}"})
    if thr != 1 or case.get("stress"):
        obs["c06.thread_stress_runs"] += 1
        b1 = M.safe_call(spd.safe_paths, st, X, False, 1); b2 = M.safe_call(spd.safe_sequences, st, X + cons, False, 1)
        if r[0] == "ok" and b1[0] == "ok" and [list(map(tuple, p)) for p in r[1]] != [list(map(tuple, p)) for p in b1[1]]:
            viol.append({"sig": "C06/threads-change-safe_paths", "msg": f"threads={thr} differs from threads=1; {desc}"})
        if r2[0] == "ok" and b2[0] == "ok" and [list(map(tuple, p)) for p in r2[1]] != [list(map(tuple, p)) for p in b2[1]]:
            viol.append({"sig": "C06/threads-change-safe_sequences", "msg": f"threads={thr} differs from threads=1; {desc}"})
    return hashlib.sha1(repr((list(G.edges), X, cons)).encode()).hexdigest()[:14], nontriv


def run_flow(case, viol, obs):
    G = gen.build(case["spec"])
    flow = {(u, v): d["flow"] for u, v, d in G.edges(data=True)}
    r = M.safe_call(sfd.compute_flow_decomp_safe_paths, G, "flow")
    desc = f"flows {sorted((str(e), f) for e, f in flow.items())}"
    if r[0] != "ok":
        viol.append({"sig": f"C06/flow-safe-raise/{r[1]}", "msg": f"{r[2]} {desc}"}); return None, False
    P = ref.st_paths(G)
    nontriv = False
    for sp in r[1]:
        obs["c06.flow_safe_paths_judged"] += 1
        sp_ = [tuple(e) for e in sp]
        if len(sp_) >= 2:
            nontriv = True
        if any(not G.has_edge(*e) for e in sp_) or any(a[1] != b[0] for a, b in zip(sp_, sp_[1:])):
            viol.append({"sig": "C06/flow-safe-path-malformed", "msg": f"{sp_}; {desc}"}); continue
        # decomposition using only paths that do not contain sp
        s = z3.Solver(); s.set("timeout", 30000)
        cols = [p for p in P if not ref.contains_subseq(ref.path_edges(p), sp_)]
        W = [z3.Real(f"w{i}") for i in range(len(cols))]
        for w in W:
            s.add(w >= 0)
        for e, f in flow.items():
            s.add(z3.Sum([W[i] for i, p in enumerate(cols) if e in ref.path_edges(p)] + [z3.RealVal(0)]) == ref._q(f))
        res = s.check()
        if res == z3.sat:
            m = s.model()
            wit = [(cols[i], str(m.eval(W[i], model_completion=True))) for i in range(len(cols)) if str(m.eval(W[i], model_completion=True)) != "0"]
            viol.append({"sig": "C06/flow-safe-path-not-safe", "msg": f"path {sp_} reported flow-safe but this decomposition avoids it: {wit}; {desc}"})
        elif res == z3.unknown:
            obs["c06.flow_ref_unknown"] += 1
    return hashlib.sha1(desc.encode()).hexdigest()[:14], nontriv


def run_iflow(case, viol, obs):
    """inexact flows: a reported path must be a subpath of some path of EVERY decomposition of EVERY feasible flow (lb <= f <= ub)"""
    G = gen.build(case["spec"])
    lb = {(u, v): d["lb"] for u, v, d in G.edges(data=True)}; ub = {(u, v): d["ub"] for u, v, d in G.edges(data=True)}
    r = M.safe_call(sfd.compute_inexact_flow_decomp_safe_paths, G, "lb", "ub", [list(p) for p in case["paths"]])
    desc = f"intervals {sorted((str(e), lb[e], ub[e]) for e in lb)} decomposition paths {case['paths']}"
    if r[0] != "ok":
        viol.append({"sig": f"C06/inexact-flow-safe-raise/{r[1]}", "msg": f"{r[2]} {desc}"}); return None, False
    P = ref.st_paths(G)
    nontriv = False
    for sp in r[1]:
        obs["c06.inexact_flow_safe_paths_judged"] += 1
        sp_ = [tuple(e) for e in sp]
        if len(sp_) >= 2:
            nontriv = True
        if any(not G.has_edge(*e) for e in sp_) or any(a[1] != b[0] for a, b in zip(sp_, sp_[1:])):
            viol.append({"sig": "C06/flow-safe-path-malformed/inexact", "msg": f"{sp_}; {desc}"}); continue
        s = z3.Solver(); s.set("timeout", 30000)
        cols = [p for p in P if not ref.contains_subseq(ref.path_edges(p), sp_)]
        W = [z3.Real(f"w{i}") for i in range(len(cols))]
        for w in W:
            s.add(w >= 0)
        for e in lb:
            tot = z3.Sum([W[i] for i, p in enumerate(cols) if e in ref.path_edges(p)] + [z3.RealVal(0)])
            s.add(tot >= ref._q(lb[e]), tot <= ref._q(ub[e]))
        res = s.check()
        if res == z3.sat:
            m = s.model()
            wit = [(cols[i], str(m.eval(W[i], model_completion=True))) for i in range(len(cols)) if str(m.eval(W[i], model_completion=True)) != "0"]
            viol.append({"sig": "C06/flow-safe-path-not-safe/inexact", "msg": f"path {sp_} reported flow-safe but this decomposition of a feasible flow avoids it: {wit}; {desc}"})
        elif res == z3.unknown:
            obs["c06.flow_ref_unknown"] += 1
    return hashlib.sha1(desc.encode()).hexdigest()[:14], nontriv


def run_prune(case, viol, obs):
    G = gen.build(case["spec"])
    cls = getattr(fp, case["cls"])
    ign = gen.tupl(case["ignore"])
    kw = dict(k=case["k"], optimization_options=dict(case["oo"]) or None, solver_options=dict(SO), elements_to_ignore=list(ign))
    if case["cls"] != "kPathCoverCycles":
        kw.update(flow_attr="flow", weight_type=int)
    kw.update({k_: list(v_) for k_, v_ in (case.get("se") or {}).items()})
    if case["cls"] == "kLeastAbsErrorsCycles":
        kw["trusted_edges_for_safety"] = [e for e in G.edges if e not in ign]
    r = M.safe_call(cls, G, **kw)
    desc = f"{case['cls']} k={case['k']} ignore={ign} oo={case['oo']} {case.get('se') or ''} edges {list(G.edges)}"
    if r[0] != "ok":
        # construction may legitimately fail (e.g. no source); not this property's business
        obs["c06.prune_ctor_failed"] += 1
        return None, False
    m = r[1]
    st = m.G
    X = [e for e in (m.trusted_edges_for_safety or [])]
    if case["cls"] == "kPathCoverCycles":
        # a cover model: the edges every solution has to cover are the caller's non-ignored edges - that is the X the sequences must be safe for
        # (never the synthetic edges from the global source / into the global sink, which no cover is obliged to use)
        X = [e for e in G.edges if e not in ign]; obs["c06.prune_cover_models_judged_against_the_callers_edges"] += 1
    elif case["cls"] == "kLeastAbsErrorsCycles":
        X = list(kw["trusted_edges_for_safety"])
    wtf = [[tuple(e) for e in w] for w in (getattr(m, "walks_to_fix", None) or [])]
    nontriv = False
    obs["c06.prune_models"] += 1
    for w in wtf:
        obs["c06.walks_to_fix_judged"] += 1
        if len(w) >= 2:
            nontriv = True
        if X and not is_safe(st, w, X):
            viol.append({"sig": "C06/walk-to-fix-not-safe", "msg": f"{w} not safe w.r.t. trusted edges {sorted(X)}; {desc}"})
    for a, b in itertools.combinations(wtf[:case["k"]], 2):
        obs["c06.incompatible_pairs_judged"] += 1
        if ref.can_cooccur(st, st.source, st.sink, a, b):
            viol.append({"sig": "C06/slots-can-share-a-walk", "msg": f"slots {a} / {b}; {desc}"})
    for (u, v, i) in m.edges_set_to_zero:
        obs["c06.pruned_edges_judged"] += 1
        if i >= len(wtf):
            viol.append({"sig": "C06/pruned-slot-without-sequence", "msg": f"{(u, v, i)}; {desc}"}); continue
        if ref.exists_walk_with_seq_and_edge(st, st.source, st.sink, wtf[i], (u, v)):
            viol.append({"sig": "C06/pruned-edge-can-cooccur-with-slot-sequence", "msg": f"edge {(u, v)} forbidden in slot {i} but a source-to-sink walk contains {wtf[i]} and uses it; {desc}"})
    # bound updates queued for the solver (optimize_with_safe_sequences_fix_via_bounds): a variable FIXED to m forbids every further traversal
    # of that edge in that slot; for an edge inside a strongly connected component a walk that contains the slot's sequence can always go
    # round once more, so only a lower bound is sound there (and a fix to 0 is judged like edges_set_to_zero)
    sv = getattr(m, "solver", None)
    if sv is not None and getattr(sv, "_pending_fix_vars", None):
        by_index = {getattr(var_, "index", None): key_ for key_, var_ in (getattr(m, "edge_vars", {}) or {}).items()}
        for var_, val_ in zip(sv._pending_fix_vars, sv._pending_fix_vals):
            key_ = by_index.get(getattr(var_, "index", None))
            if key_ is None:
                continue
            (u, v, i) = key_
            obs["c06.queued_fixes_judged"] += 1
            if i >= len(wtf):
                continue
            if val_ >= 1 and st.is_scc_edge(u, v) and ref.exists_walk_with_seq_and_edge(st, st.source, st.sink, wtf[i], (u, v)):
                viol.append({"sig": "C06/queued-fix-forbids-further-traversals-of-an-SCC-edge", "msg": f"edge {(u, v)} of slot {i} fixed to {val_} (not bounded from below) although walks containing {wtf[i]} can traverse it more often; {desc}"})
            elif val_ == 0 and ref.exists_walk_with_seq_and_edge(st, st.source, st.sink, wtf[i], (u, v)):
                viol.append({"sig": "C06/pruned-edge-can-cooccur-with-slot-sequence", "msg": f"edge {(u, v)} fixed to 0 in slot {i} (queued) but a source-to-sink walk contains {wtf[i]} and uses it; {desc}"})
    for (u, v, i) in m.edges_set_to_one:
        obs["c06.fixed_one_judged"] += 1
        if i >= len(wtf) or (u, v) not in wtf[i]:
            viol.append({"sig": "C06/fixed-edge-not-on-slot-sequence", "msg": f"{(u, v, i)}; {desc}"})
        elif wtf[i].count((u, v)) != 1 or st.is_scc_edge(u, v):
            # 'traversed exactly once' (the concrete models then let the slot's weight count once on that edge) forbids every walk that
            # contains the slot's sequence and traverses the edge a different number of times: the sequence itself does if it lists the
            # edge twice, and inside a strongly connected component a walk containing the sequence can always go round once more
            viol.append({"sig": "C06/edge-declared-traversed-exactly-once-although-the-slot-sequence-allows-more", "msg": f"{(u, v, i)}: the sequence {wtf[i]} lists it {wtf[i].count((u, v))} time(s), SCC edge: {st.is_scc_edge(u, v)}; {desc}"})
    return hashlib.sha1(desc.encode()).hexdigest()[:14], nontriv


def run_dagmodel(case, viol, obs):
    """safe lists a constructed (never solved) DAG model derived from trusted edges and from its subpath constraints"""
    G = gen.build(case["spec"])
    for e in G.edges:
        G.edges[e]["flow"] = 1 + (hash(e) % 3)
    cons = [gen.tupl(c) for c in case["cons"]]
    kw = dict(k=case["k"], optimization_options=dict(case["oo"]), solver_options=dict(SO))
    if cons:
        kw["subpath_constraints"] = [list(c) for c in cons]
        if case["covlen"]:
            kw["subpath_constraints_coverage_length"] = case["covlen"]; kw["length_attr"] = "len"
        else:
            kw["subpath_constraints_coverage"] = case["cov"]
    if case["cls"] != "kPathCover":
        kw.update(flow_attr="flow", weight_type=int)
        if case["cls"] == "kLeastAbsErrors":
            kw["trusted_edges_for_safety"] = gen.tupl(case["trusted"]) if case.get("trusted") else list(G.edges)
    if case.get("starts"):
        kw["additional_starts"] = list(case["starts"])
    if case.get("ends"):
        kw["additional_ends"] = list(case["ends"])
    r = M.safe_call(getattr(fp, case["cls"]), G, **kw)
    desc = f"{case['cls']} edges={list(G.edges)} cons={cons} cov={case['cov']} covlen={case['covlen']} lengths={case['lengths']} oo={case['oo']} starts={case.get('starts')} ends={case.get('ends')}"
    if case.get("starts") or case.get("ends"):
        obs["c06.dag_models_with_additional_starts_ends"] += 1
    if r[0] != "ok":
        obs["c06.dagmodel_ctor_failed"] += 1
        return None, False
    m = r[1]; st = m.G
    # the trusted set is the CALLER's (the library may add constraint edges to its own copy; whether that is justified is what is judged here)
    trusted = [tuple(e) for e in (kw.get("trusted_edges_for_safety") or list(G.edges))]
    L = {(u, v): l for u, v, l in case["lengths"]}
    P = [ref.path_edges(p) for p in ref.st_paths(st, [st.source], [st.sink])]
    def covers(pe, c):
        if case["covlen"]:
            return sum(L.get(e, 1) for e in c if e in pe) >= sum(L.get(e, 1) for e in c) * case["covlen"] - 1e-9
        return sum(1 for e in c if e in pe) >= len(c) * case["cov"] - 1e-9
    nontriv = False
    for sl in (m.safe_lists or []):
        sl_ = [tuple(e) for e in sl]
        obs["c06.dag_model_safe_lists_judged"] += 1
        if len(sl_) >= 2:
            nontriv = True
        # safe iff some trusted item forces it: a trusted edge all of whose paths contain it, or a constraint all of whose admissible paths contain it
        ok = any(not ref.exists_walk_avoiding(st, st.source, st.sink, sl_, [e]) for e in trusted if e in sl_)
        if not ok:
            for c in cons:
                adm = [pe for pe in P if covers(set(pe), c)]
                if adm and all(ref.contains_subseq(pe, sl_) for pe in adm):
                    ok = True; break
        if not ok:
            viol.append({"sig": "C06/dag-model-safe-list-not-safe" + ("/from-partially-covered-constraint" if (case["covlen"] and case["covlen"] < 1) or case["cov"] < 1 else ""),
                         "msg": f"safe list {sl_} of the constructed model is contained in a path of every cover neither through a trusted edge nor through a constraint; {desc}"})
    return hashlib.sha1(desc.encode()).hexdigest()[:14], nontriv


def run_case(case):
    viol = []; obs = collections.Counter()
    out = {"cyc": run_cyc, "dag": run_dag, "flow": run_flow, "iflow": run_iflow, "prune": run_prune, "dagmodel": run_dagmodel}[case["kind"]](case, viol, obs)
    key, nontriv = out if out else (None, False)
    seen = set(); outv = []
    for v in viol:
        if v["sig"] not in seen:
            seen.add(v["sig"]); outv.append(v)
    return {"viol": outv[:5], "obs": dict(obs), "nontrivial": bool(nontriv), "keys": [key] if key and nontriv else [],
            "sample": {"kind": case["kind"], "edges": gen.edges_of(case["spec"])[:14], "X": case.get("X", case.get("ignore"))}}
