"""C10 - constraints, ignored elements and extra start/end nodes behave as documented.
Monitors: get_solution()/get_objective_value() with and without the feature on the same input.
Oracles: (a) per-constraint coverage recomputed on the returned routes; (b) exact z3 optimum over exactly the constrained
solutions (DAG LAE/MPE, exhaustive); (c) metamorphic equivalence  ignore e == scale 0 on e == e carrying garbage / zero /
no weight while ignored; (d) additional starts/ends: reference with enlarged start/end sets, and no effect when the node
already is a source/sink."""
import collections, hashlib, copy
from fpverif import gen, ref, monitors as M, models, instances as I, workload as W
import flowpaths as fp

LEVEL = "exploration"
RULE = ("case kinds: (cons) any class accepting constraints on a planted instance with 1-3 constraints (contiguous or not, overlapping, duplicated; "
        "coverage 1/0.75/0.5/0.34 or length coverage with a length attribute incl. missing lengths) -> every constraint covered by one route, "
        "and for DAG LAE/MPE the objective equals the exact optimum over the constrained solutions; (ign) one input, one element e: variants "
        "ignore(e), scale0(e), ignore+garbage, ignore+zero, ignore+missing weight must agree in (solved, objective) and with the reference where "
        "it is exhaustive, and e stays traversable; (se) additional starts/ends that already are sources/sinks change nothing, real ones match "
        "the reference with enlarged start/end sets. non-trivial = solved model with an active feature; distinct = (class, input, feature)")
CASE_TIMEOUT = {"quick": 200, "thorough": 900}
REQUIRED_OBS = {"c10.constraints_judged": 150, "c10.ignore_variant_groups": 80, "c10.start_end_cases": 60, "c10.constrained_optimum_compared": 30}
ASSUMPTIONS = ["a solve that hits the 8 s solver limit yields no verdict", "constraint counting rule: edges of the constraint lying on the route (DAG), distinct used edges of the set (walks), lengths default to 1"]
EXHAUSTIVE = {"quick": False, "thorough": False}
SO = {"threads": 1, "time_limit": 8}


def gen_cases(tier, seed):
    cases = []
    n = 25 if tier == "quick" else 250
    for cls in W.ALL:
        for i in range(n):
            cases.append({"kind": "cons", "cls": cls, "rs": f"C10c:{seed}:{cls}:{i}"})
    for cls in W.ALL:
        for i in range(max(8, n // 2)):
            cases.append({"kind": "ign", "cls": cls, "rs": f"C10i:{seed}:{cls}:{i}"})
    for cls in [c for c in W.ALL if c not in ("kFlowDecomp", "MinFlowDecomp", "MinFlowDecompCycles")]:
        for i in range(max(8, n // 2)):
            cases.append({"kind": "se", "cls": cls, "rs": f"C10s:{seed}:{cls}:{i}"})
    for i in range(max(12, n // 2)):
        cases.append({"kind": "pct", "cls": "kMinPathErrorCycles", "rs": f"C10p:{seed}:{i}"})
    for cls in ("kLeastAbsErrorsCycles", "kMinPathErrorCycles"):
        for i in range(max(12, n // 2)):
            cases.append({"kind": "ign", "cls": cls, "rs": f"C10it:{seed}:{cls}:{i}", "trusted": True})
    # length coverage of a CROSSING constraint whose first edge has no length attribute (documented: counts as length 1) and whose second edge is short:
    # the route through the second edge alone stays below the requested fraction, so one more route through the crossing is needed (seed C10-l).
    # Appended last, own random streams.
    for cls in [c for c in W.ALL if not c.endswith("Cycles")]:
        for i in range(6 if tier == "quick" else 40):
            cases.append({"kind": "cons", "cls": cls, "rs": f"C10xl:{seed}:{cls}:{i}", "want": "crosslen"})
    return cases


def base_for(cls, rng, node=False, exact=None):
    cyc = cls.endswith("Cycles")
    wt = rng.choice(["int", "int", "float"])
    ex = (cls in W.FD) if exact is None else exact
    if cyc:
        b = I.cyc_node_base(rng, wt=wt, exact=ex or rng.random() < 0.3, max_edges=7) if node else I.cyc_edge_base(rng, wt=wt, exact=ex or rng.random() < 0.3, max_edges=8)
    else:
        b = I.dag_node_base(rng, wt=wt, exact=ex or rng.random() < 0.3, max_edges=8) if node else I.dag_edge_base(rng, wt=wt, exact=ex or rng.random() < 0.3, max_edges=9)
    return b


def kw_for(cls, base, k=None):
    kw = {}
    if cls in W.COV:
        if base["mode"] == "node":
            kw["cover_type"] = "node"
    else:
        kw.update({"flow_attr": "flow", "weight_type": base["wt"]})
        if base["mode"] == "node":
            kw["flow_attr_origin"] = "node"
    if cls.startswith("k"):
        kw["k"] = k if k is not None else max(1, len(base["planted"]))
    if cls in ("kFlowDecomp", "MinFlowDecomp"):
        kw["optimization_options"] = {"optimize_with_greedy": False}
    return kw


def run(inst):
    M.TRACE.reset()
    res = models.run(inst, solver_options=SO)
    res["tl"] = any(t.get("status") == "kTimeLimit" for t in M.TRACE.trace)
    return res


def summary(cls, res):
    if res.get("tl"):
        return ("time-limit",)
    if "exc" in res:
        return ("exc", res["exc"][0])
    if not res["solved"]:
        return ("unsolved",)
    if cls.startswith("Min"):
        return ("solved", len(models.routes_of(res["sol"])))
    if cls in W.ERR:
        return ("solved", round(res["obj"], 6) if isinstance(res.get("obj"), (int, float)) else res.get("obj"))
    return ("solved",)


def run_cons(case, viol, obs):
    rng = gen.rng_for(case["rs"]); cls = case["cls"]; cyc = cls.endswith("Cycles")
    node = rng.random() < 0.2
    base = base_for(cls, rng, node)
    if not cyc and not node and rng.random() < (0.6 if cls in ("kFlowDecomp", "MinFlowDecomp") else 0.25):
        # 'waist' shape: several entrances and exits around one middle node (with optional stretches before / after it), so that planted
        # paths cross in it and a constraint can pair the entrance of one with the exit of another
        def waist(r_):
            ni, no = r_.randint(2, 3), r_.randint(2, 3); nodes_ = ["m"]; edges_ = []
            for i_ in range(ni):
                nodes_.append(f"s{i_}")
                if r_.random() < 0.4:
                    nodes_.append(f"p{i_}"); edges_ += [(f"s{i_}", f"p{i_}"), (f"p{i_}", "m")]
                else:
                    edges_.append((f"s{i_}", "m"))
            for j_ in range(no):
                nodes_.append(f"t{j_}")
                if r_.random() < 0.4:
                    nodes_.append(f"q{j_}"); edges_ += [("m", f"q{j_}"), (f"q{j_}", f"t{j_}")]
                else:
                    edges_.append(("m", f"t{j_}"))
            r_.shuffle(edges_)
            return nodes_, edges_
        base = I.dag_edge_base(rng, wt=rng.choice(["int", "int", "float"]), exact=(cls in W.FD) or rng.random() < 0.3, shape=waist, npaths=rng.randint(2, 4))
    if not base["planted"]:
        return None, False, None
    cons = I.constraints_from_planted(rng, base, n=rng.randint(1, 3), as_nodes=(rng.random() < 0.6) if node else None)
    if not cons:
        return None, False, None
    ckey = "subset_constraints" if cyc else "subpath_constraints"
    crossing = False
    force_xl = case.get("want") == "crosslen"
    if not cyc and not node and (rng.random() < 0.4 or force_xl):
        # a 'crossing' constraint: an edge of one planted path into a shared node followed by an edge of ANOTHER planted path out of it. No planted
        # path (and typically no path of a greedy decomposition) contains both, although different paths contain one each; one more path
        # (weight 0 if need be) through the crossing satisfies it, so k = planted + 1 keeps every k-model feasible
        pl = [p_ for p_, _ in base["planted"]]
        for A in pl:
            for B in pl:
                shared = [v for v in A[1:-1] if v in B[1:-1]] if A is not B else []
                if shared and not crossing:
                    v = rng.choice(shared); i_ = A.index(v); j_ = B.index(v)
                    ea = (A[i_ - 1], A[i_]); eb = (B[j_], B[j_ + 1])
                    if (B[j_ - 1], B[j_]) != ea and (A[i_], A[i_ + 1]) != eb:
                        cons = [[ea, eb]] + list(cons); crossing = True
        if crossing:
            obs["c10.crossing_constraints"] += 1
    kw = kw_for(cls, base, k=max(1, len(base["planted"])) + (1 if crossing else rng.choice([0, 1])))
    if "optimization_options" in kw and rng.random() < 0.5:
        del kw["optimization_options"]          # library defaults (greedy pre-check on)
    if cyc and not node and rng.random() < 0.35:
        # a SUBSET constraint is a set of edges: an edge that is listed more than once (the edge list of a walk going round a cycle twice) counts once
        cons = [list(c) + [rng.choice(list(c)) for _ in range(rng.randint(1, 2))] for c in cons]
        obs["c10.subset_constraints_with_repeated_entries"] += 1
    kw[ckey] = gen.jl(cons)
    cov = rng.choice([1.0, 1.0, 0.75, 0.5, 0.34])
    covlen = None; lengths = {}
    extra = None
    if not cyc and not node and (rng.random() < 0.25 or force_xl):
        covlen = rng.choice([1.0, 0.6, 0.4]); cov = 1.0
        lv = rng.choice([[1, 2, 5], [0.5, 1.5, 2.25], [0.3, 1.7, 2.9]])
        lengths = {e: rng.choice(lv) for e in base["edges"] if rng.random() < 0.7}
        if force_xl and crossing:
            ea_, eb_ = tuple(cons[0][0]), tuple(cons[0][1])
            lengths.pop(ea_, None); lengths[eb_] = rng.choice([1, 1, 2]); covlen = rng.choice([0.8, 0.9, 1.0])
            obs["c10.crossing_length_coverage_with_missing_length"] += 1
        extra = {e: {"len": l} for e, l in lengths.items()}
        kw["subpath_constraints_coverage_length"] = covlen; kw["length_attr"] = "len"
    else:
        kw[ckey + "_coverage"] = cov
        if not cyc and not node and rng.random() < 0.25:
            # a length attribute is present and named, but coverage is by edge count (coverage_length left at None): lengths must not matter
            extra = {e: {"len": rng.choice([2, 5, 9])} for e in base["edges"] if rng.random() < 0.8}
            kw["length_attr"] = "len"
    inst = {"cls": cls, "spec": I.spec_of(base, extra_eattr=extra), "kw": kw}
    M.ROUTES.install(); M.ROUTES.drain(); M.TRACE.install()
    res = run(inst)
    desc = f"{models.brief(inst)} cov={cov} covlen={covlen} lengths={sorted((str(e), l) for e, l in lengths.items())}"[:900]
    if res["tl"] or "exc" in res or not res["solved"]:
        if "exc" in res:
            viol.append({"sig": f"C10/constraints/{cls}/{res['stage']}-raises/{res['exc'][0]}", "msg": f"{res['exc']}; {desc}"})
        elif not res["tl"] and not res["solved"]:
            # the planted solution satisfies the constraints with k >= planted routes (FD: exact flow; others: always feasible)
            mech = ""
            if cls == "kMinPathErrorCycles" and not node:
                # classify by mechanism (see C08): infeasible only under the library's own per-edge multiplicity caps / product bound?
                try:
                    from fpverif.props import c08
                    Gx = gen.build(inst["spec"])
                    cols, _ = c08.columns(Gx, "edge", True, [], [])
                    demand = {(u, v): d["flow"] for u, v, d in Gx.edges(data=True)}
                    m = res.get("model"); caps = getattr(m, "edge_upper_bounds", {}) or {}
                    capped = [c for c in cols if all(caps.get(e) is None or mult <= int(caps[e] + 1e-9) for e, mult in c.items())]
                    wt_ = models.WT[base["wt"]]
                    if ref.mpe_min(cols, demand, kw["k"], wt_) is not None:
                        if len(capped) < len(cols) and ref.mpe_min(capped, demand, kw["k"], wt_) is None:
                            mech = "/edge-cap-max-reachable-weight"
                        elif ref.mpe_min(cols, demand, kw["k"], wt_, prod_cap=getattr(m, "w_max", None)) is None:
                            mech = "/product-bound-w_max"
                        elif ref.mpe_min(capped, demand, kw["k"], wt_, prod_cap=getattr(m, "w_max", None)) is None:
                            mech = "/edge-cap+product-bound"
                except ref.RefTimeout:
                    pass
            if cls in W.ERR and all((f_ or 0) == 0 for f_ in base["flow"].values()):
                # every weight is zero: the error models are specified for 'non-negative, not all zero' weights (C07/C08), and this property speaks
                # about SOLVED models - no feasibility verdict on the degenerate instance (false alarm of the thorough tier, seed 4; DESIGN 5.3)
                obs["c10.all_zero_weights_no_feasibility_verdict"] += 1
            else:
                viol.append({"sig": f"C10/constraints/{cls}/unsolved-although-planted-solution-satisfies-them" + mech + ("/node" if node else ""), "msg": f"{desc}"})
        return None, False, None
    routes = models.routes_of(res["sol"])
    for c in cons:
        obs["c10.constraints_judged"] += 1
        if node:
            # node-list or edge-list constraint on a node-weighted graph, judged on the expanded representation (docs: node-expanded-digraph)
            if isinstance(c[0], str):
                elems = [("n", v) for v in c]
            else:
                elems = []
                for i, e in enumerate(c):
                    e = tuple(e); elems += [("n", e[0]), ("e", e)]
                    if i == len(c) - 1:
                        elems.append(("n", e[1]))
            def has(r, el):
                return (el[1] in r) if el[0] == "n" else (el[1] in set(zip(r, r[1:])))
            need = len(elems) * cov
            ok = any(sum(1 for el in (set(elems) if cyc else elems) if has(r, el)) >= (len(set(elems)) * cov if cyc else need) - 1e-9 for r in routes)
        else:
            ce = [tuple(e) for e in c]
            if cyc:
                cs = set(ce)
                ok = any(sum(1 for e in cs if e in set(zip(r, r[1:]))) >= len(cs) * cov - 1e-9 for r in routes)
            elif covlen is None:
                ok = any(sum(1 for e in ce if e in set(zip(r, r[1:]))) >= len(ce) * cov - 1e-9 for r in routes)
            else:
                tot = sum(lengths.get(e, 1) for e in ce)
                ok = any(sum(lengths.get(e, 1) for e in ce if e in set(zip(r, r[1:]))) >= tot * covlen - 1e-9 for r in routes)
        if not ok:
            viol.append({"sig": f"C10/constraint-not-covered-by-a-single-route/{cls}" + ("/node" if node else "") + ("/length" if covlen else ""), "msg": f"constraint {c} (coverage {covlen or cov}) is not contained in any of {routes}; {desc}"})
    # (a2) cover models: adding (relaxed) constraints must not remove the cover requirement - the returned routes still cover every element
    if cls in W.COV:
        obs["c10.cover_models_with_constraints"] += 1
        used_e = set(); used_n = set()
        for r in routes:
            used_n.update(r); used_e.update(zip(r, r[1:]))
        missing = [v for v in base["nodes"] if v not in used_n] if node else [e for e in base["edges"] if e not in used_e]
        if missing:
            viol.append({"sig": f"C10/constraints/{cls}/solution-leaves-elements-uncovered" + ("/node" if node else "") + ("/length" if covlen else ""), "msg": f"not covered: {missing[:5]} by {routes}; {desc}"})
    # (b) exact optimum over the constrained solutions: DAG LAE / MPE, edge mode
    if cls in ("kLeastAbsErrors", "kMinPathError") and not node:
        G = gen.build(inst["spec"])
        P = ref.st_paths(G)
        cols = [collections.Counter(ref.path_edges(p)) for p in P]
        demand = {(u, v): d["flow"] for u, v, d in G.edges(data=True)}
        cc = []
        for c in cons:
            ce = [tuple(e) for e in c]
            if covlen is None:
                cc.append([i for i, col in enumerate(cols) if sum(1 for e in ce if col.get(e)) >= len(ce) * cov - 1e-9])
            else:
                tot = sum(lengths.get(e, 1) for e in ce)
                cc.append([i for i, col in enumerate(cols) if sum(lengths.get(e, 1) for e in ce if col.get(e)) >= tot * covlen - 1e-9])
        try:
            fn = ref.lae_min if cls == "kLeastAbsErrors" else ref.mpe_min
            best = fn(cols, demand, kw["k"], models.WT[base["wt"]], cons_cols=cc)
            if best is not None:
                obs["c10.constrained_optimum_compared"] += 1
                got = res["obj"]
                if not models.num_close(got, float(best)):
                    viol.append({"sig": f"C10/constrained-optimum/{cls}/" + ("worse" if got > float(best) else "better") + "-than-exact-reference", "msg": f"objective {got}, exact optimum over the solutions satisfying the constraints {best}; {desc}"})
        except ref.RefTimeout:
            pass
    return hashlib.sha1(desc.encode()).hexdigest()[:14], True, {"inst": models.brief(inst), "routes": routes[:3]}


def run_ign(case, viol, obs):
    rng = gen.rng_for(case["rs"]); cls = case["cls"]
    node = rng.random() < 0.2 and not case.get("trusted")
    base = base_for(cls, rng, node, exact=(True if cls in W.FD else (True if case.get("trusted") and rng.random() < 0.7 else None)))
    elems = base["nodes"] if node else base["edges"]
    if len(elems) < 2:
        return None, False, None
    e = rng.choice(elems)
    ej = gen.jl(e) if isinstance(e, tuple) else e
    kw0 = kw_for(cls, base, k=max(1, len(base["planted"])) + rng.choice([0, 1]))
    if cls in ("kMinPathError", "kMinPathErrorCycles", "kLeastAbsErrorsCycles") and rng.random() < 0.4:
        kw0["k"] = None         # the model then derives k from the non-ignored part: ignoring and scale 0 must give the same k
    trusted_variant = False
    if cls in ("kLeastAbsErrorsCycles", "kMinPathErrorCycles") and not node and (case.get("trusted") or rng.random() < 0.5):
        # the caller trusts a set of edges that includes the element: ignoring it and scaling it by 0 must then agree as well (the trusted
        # set is the same user assumption in all variants, and an ignored element is documented to drop out of it)
        trusted_variant = True
        if rng.random() < 0.5:
            kw0["trusted_edges_for_safety"] = gen.jl(list(dict.fromkeys([e] + rng.sample(base["edges"], rng.randint(1, len(base["edges"]))))))
        else:
            kw0["trusted_edges_for_safety_percentile"] = rng.choice([0, 25, 50])
        r_ = rng.random() * (0.6 if case.get("trusted") else 1.0)
        if r_ < 0.45:
            # a detour u -> z -> v beside an existing edge: (u,z) carries an outlier value and is the element to switch off, (z,v) carries 0,
            # and k is tight - a solution that is forced through the switched-off edge has to pay for it
            (u_, v_) = rng.choice(base["edges"]); z_ = "zdet"
            base["nodes"].append(z_); base["edges"] += [(u_, z_), (z_, v_)]
            base["flow"][(u_, z_)] = 47 if base["wt"] == "int" else 47.5; base["flow"][(z_, v_)] = 0 if base["wt"] == "int" else 0.0
            e = (u_, z_); ej = gen.jl(e); kw0["k"] = max(1, len(base["planted"]))
            if "trusted_edges_for_safety" in kw0:
                kw0["trusted_edges_for_safety"] = gen.jl(list(dict.fromkeys([e] + [tuple(x) for x in kw0["trusted_edges_for_safety"]])))
        elif r_ < 0.8:
            base["flow"][e] = 47 if base["wt"] == "int" else 47.5      # an outlier value (in every variant): the optimum without the element tends to avoid it
    variants = {"ignore": (dict(kw0, elements_to_ignore=[ej]), {}, [])}
    if rng.random() < 0.5:
        # the same ignore list handed over as a one-shot iterable (a generator): same entries, same answer
        variants["ignore(as-generator)"] = (dict(kw0, elements_to_ignore=[ej], elements_to_ignore_as="generator"), {}, [])
    big = 97 if base["wt"] == "int" else 97.5
    if cls not in W.COV and (not trusted_variant or "trusted_edges_for_safety_percentile" in kw0):
        # (also under a trust PERCENTILE: it is taken over the elements whose value counts, so the value of an ignored one does not move it)
        variants["ignore+garbage"] = (dict(kw0, elements_to_ignore=[ej]), {e: big}, [])
        variants["ignore+zero"] = (dict(kw0, elements_to_ignore=[ej]), {e: 0}, [])
        variants["ignore+missing"] = (dict(kw0, elements_to_ignore=[ej]), {}, [e])
    if cls in W.ERR:
        variants["scale0"] = (dict(kw0, error_scaling=[[ej, 0]]), {}, [])
        if not trusted_variant or "trusted_edges_for_safety_percentile" in kw0:
            variants["scale0+garbage"] = (dict(kw0, error_scaling=[[ej, 0]]), {e: big}, [])
        variants["ignore+scale1"] = (dict(kw0, elements_to_ignore=[ej], error_scaling=[[ej, 1]]), {}, [])
    M.TRACE.install()
    out = {}; caps = {}; trusted_sets = {}
    for name, (kw, garbage, drop) in variants.items():
        sp = gen.spec(base["nodes"], base["edges"]) if cls in W.COV else I.spec_of(base, drop_attr=drop, garbage=garbage)
        if cls in W.COV and node:
            pass
        res = run({"cls": cls, "spec": sp, "kw": kw})
        out[name] = summary(cls, res)
        caps[name] = {str(k): v for k, v in (getattr(res.get("model"), "edge_upper_bounds", None) or {}).items() if "source_" not in str(k) and "sink_" not in str(k)}
        trusted_sets[name] = frozenset(str(x) for x in (getattr(res.get("model"), "trusted_edges_for_safety", None) or []))
        if out[name] == ("time-limit",):
            obs["c10.time_limited"] += 1
            break          # heavy-tailed instance: the remaining variants would only burn the budget
        if name == "ignore" and res.get("solved") and not res.get("tl"):
            out["_routes"] = models.routes_of(res["sol"])
    obs["c10.ignore_variant_groups"] += 1
    desc = f"{cls} mode={base['mode']} wt={base['wt']} element={e} k={kw0.get('k')} " + (f"nodes={sorted(base['flow'].items())} edges={base['edges']}" if node else f"edges={sorted((str(k), v) for k, v in base['flow'].items())}")
    vals = {k: v for k, v in out.items() if not k.startswith("_") and v != ("time-limit",)}
    if len(set(vals.values())) > 1:
        ref_ = vals.get("ignore")
        diff = {k: v for k, v in vals.items() if v != ref_}
        if "trusted_edges_for_safety_percentile" in kw0 and all(trusted_sets.get(k) != trusted_sets.get("ignore") for k in diff if "garbage" in k or "zero" in k) and any("garbage" in k or "zero" in k for k in diff):
            # the set of edges trusted under the percentile differs between variants that differ only in the VALUE of the switched-off element
            sig = f"C10/ignore-variants-disagree/{cls}/trusted-percentile-moved-by-the-value-of-a-switched-off-element"
        elif all(caps.get(k) != caps.get("ignore") for k in diff) and cls.endswith("Cycles"):
            # one mechanism: the walk models derive per-edge multiplicity caps from the largest reachable weight, including the value of ignored elements
            sig = f"C10/ignore-variants-disagree/{cls}/edge-cap-uses-ignored-values"
        else:
            sig = f"C10/ignore-variants-disagree/{cls}/" + "+".join(sorted(diff))[:80] + ("/node" if node else "")
        viol.append({"sig": sig, "msg": f"{vals}; {desc}"[:900]})
    return hashlib.sha1(desc.encode()).hexdigest()[:14], vals.get("ignore", ("",))[0] == "solved", {"desc": desc[:500], "variants": {k: str(v) for k, v in vals.items()}}


def run_pct(case, viol, obs):
    """elements_to_ignore_percentile=p is documented as ignoring the elements whose weight lies below the p-th percentile:
    it must behave exactly like elements_to_ignore=<that list> (same solved status, k and objective), edge and node mode."""
    import numpy as np
    rng = gen.rng_for(case["rs"]); cls = case["cls"]
    node = rng.random() < 0.35
    base = base_for(cls, rng, node)
    elems = base["nodes"] if node else base["edges"]
    pct = rng.choice([0, 10, 25, 50, 75])
    thr = float(np.percentile([base["flow"][e] for e in elems], pct))
    ign = [e for e in elems if base["flow"][e] < thr]
    kw0 = kw_for(cls, base, k=max(1, len(base["planted"])) + rng.choice([0, 1]))
    if rng.random() < 0.4:
        kw0["k"] = None
    kwp = dict(kw0, elements_to_ignore_percentile=pct)
    kwe = dict(kw0, elements_to_ignore=gen.jl(ign)) if ign else dict(kw0)
    sp = I.spec_of(base)
    M.TRACE.install()
    rp = run({"cls": cls, "spec": sp, "kw": kwp}); re_ = run({"cls": cls, "spec": sp, "kw": kwe})
    obs["c10.percentile_pairs"] += 1
    sp_, se_ = summary(cls, rp), summary(cls, re_)
    desc = f"{cls} mode={base['mode']} wt={base['wt']} k={kw0.get('k')} percentile={pct} (threshold {thr}) explicit={ign} " + (f"nodes={sorted(base['flow'].items())} edges={base['edges']}" if node else f"edges={sorted((str(k), v) for k, v in base['flow'].items())}")
    if "time-limit" not in (sp_[0], se_[0]) and sp_ != se_:
        viol.append({"sig": f"C10/ignore-percentile-differs-from-explicit-list/{cls}" + ("/node" if node else "") + (f"/{sp_[1]}" if sp_[0] == "exc" else ""), "msg": f"percentile: {sp_}; explicit list: {se_}; {desc}"[:900]})
    return hashlib.sha1(desc.encode()).hexdigest()[:14], bool(ign), {"desc": desc[:500], "percentile": str(sp_), "explicit": str(se_)}


def run_se(case, viol, obs):
    rng = gen.rng_for(case["rs"]); cls = case["cls"]; cyc = cls.endswith("Cycles")
    node = rng.random() < 0.2
    base = base_for(cls, rng, node)
    G = gen.build(I.spec_of(base))
    srcs = ref.sources(G); snks = ref.sinks(G)
    kw0 = kw_for(cls, base, k=max(1, len(base["planted"])) + rng.choice([0, 1]))
    sp = gen.spec(base["nodes"], base["edges"]) if cls in W.COV else I.spec_of(base)
    M.TRACE.install(); M.ROUTES.install(); M.ROUTES.drain()
    r0 = run({"cls": cls, "spec": sp, "kw": kw0})
    # (1) declaring an existing source/sink as additional start/end changes nothing
    kw1 = dict(kw0)
    if srcs:
        kw1["additional_starts"] = [rng.choice(srcs)]
    if snks:
        kw1["additional_ends"] = [rng.choice(snks)]
    r1 = run({"cls": cls, "spec": sp, "kw": kw1})
    obs["c10.start_end_cases"] += 1
    desc = f"{cls} mode={base['mode']} wt={base['wt']} k={kw0.get('k')} " + (f"nodes={sorted(base['flow'].items())} edges={base['edges']}" if node else f"edges={sorted((str(k), v) for k, v in base['flow'].items())}")
    s0, s1 = summary(cls, r0), summary(cls, r1)
    if "time-limit" not in (s0[0], s1[0]) and s0 != s1:
        viol.append({"sig": f"C10/redundant-start-end-changes-result/{cls}" + ("/node" if node else ""), "msg": f"without: {s0}; with additional_starts={kw1.get('additional_starts')} additional_ends={kw1.get('additional_ends')} (already source/sink): {s1}; {desc}"[:900]})
    # (2) a real additional start/end can only enlarge the set of admissible routes: objective must not get worse, solved stays solved
    inner = I.inner_nodes(base)
    if inner:
        kw2 = dict(kw0); a = rng.choice(inner); b = rng.choice(inner)
        if rng.random() < 0.7:
            kw2["additional_starts"] = [a]
        if rng.random() < 0.7 or "additional_starts" not in kw2:
            kw2["additional_ends"] = [b]
        r2 = run({"cls": cls, "spec": sp, "kw": kw2})
        s2 = summary(cls, r2)
        obs["c10.start_end_cases"] += 1
        if "time-limit" not in (s0[0], s2[0]):
            if s2[0] == "exc":
                viol.append({"sig": f"C10/additional-start-end-raises/{cls}/{s2[1]}" + ("/node" if node else ""), "msg": f"{r2.get('exc')}; starts={kw2.get('additional_starts')} ends={kw2.get('additional_ends')}; {desc}"[:900]})
            elif s0[0] == "solved" and s2[0] != "solved":
                viol.append({"sig": f"C10/additional-start-end-makes-unsolved/{cls}" + ("/node" if node else ""), "msg": f"without: {s0}; with starts={kw2.get('additional_starts')} ends={kw2.get('additional_ends')}: {s2}; {desc}"[:900]})
            elif s0[0] == "solved" and len(s0) > 1 and isinstance(s0[1], (int, float)) and s2[1] > s0[1] + 1e-6 * max(1, abs(s0[1])):
                viol.append({"sig": f"C10/additional-start-end-worsens-objective/{cls}" + ("/node" if node else ""), "msg": f"without: {s0}; with starts={kw2.get('additional_starts')} ends={kw2.get('additional_ends')}: {s2}; {desc}"[:900]})
            # endpoints: only sources / sinks / declared nodes (C01 rule) - judged by the class-level monitor
        # (3) ONE node declared both as additional start and as additional end keeps both roles: against 'end only' and against 'start only'
        # the admissible routes can only become more
        if rng.random() < 0.6:
            v = rng.choice(inner)
            outs = {}
            for nm, kw_ in (("end-only", dict(kw0, additional_ends=[v])), ("start-only", dict(kw0, additional_starts=[v])), ("both", dict(kw0, additional_starts=[v], additional_ends=[v]))):
                outs[nm] = summary(cls, run({"cls": cls, "spec": sp, "kw": kw_}))
            obs["c10.start_and_end_same_node"] += 1
            sb = outs["both"]
            for nm in ("end-only", "start-only"):
                so = outs[nm]
                if "time-limit" in (so[0], sb[0]) or "exc" in (so[0], sb[0]):
                    continue
                if so[0] == "solved" and sb[0] != "solved":
                    viol.append({"sig": f"C10/start-and-end-at-one-node-loses-a-role/{cls}" + ("/node" if node else ""), "msg": f"{nm} at {v}: {so}; both at {v}: {sb}; {desc}"[:900]})
                elif so[0] == "solved" and len(so) > 1 and isinstance(so[1], (int, float)) and isinstance(sb[1], (int, float)) and sb[1] > so[1] + 1e-6 * max(1, abs(so[1])):
                    viol.append({"sig": f"C10/start-and-end-at-one-node-loses-a-role/{cls}" + ("/node" if node else ""), "msg": f"{nm} at {v}: {so}; both at {v}: {sb} (worse); {desc}"[:900]})
    for sg, msg in M.ROUTES.drain():
        if "/bad-start/" in sg or "/bad-end/" in sg:
            viol.append({"sig": sg.replace("C01/", "C10/endpoint/"), "msg": msg + " :: " + desc[:400]})
    return hashlib.sha1(desc.encode()).hexdigest()[:14], s0[0] == "solved", {"desc": desc[:500], "without": str(s0), "redundant": str(s1)}


def run_case(case):
    viol = []; obs = collections.Counter()
    key, nontriv, sample = {"cons": run_cons, "ign": run_ign, "se": run_se, "pct": run_pct}[case["kind"]](case, viol, obs)
    seen = set(); out = []
    for v in viol:
        if v["sig"] not in seen:
            seen.add(v["sig"]); out.append(v)
    return {"viol": out[:5], "obs": dict(obs), "nontrivial": bool(nontriv), "keys": [key] if key and nontriv else [], "sample": sample or {"case": case["kind"], "cls": case["cls"]}}
