"""C01 - returned paths/walks are real source-to-sink routes of the caller's graph.
Monitor: class-level RouteMonitor on __init__/get_solution of all 12 exported model classes (every instance, including
the inner k-models built by the Min* wrappers, is judged against the graph *it* was given), plus the driver's own judgement
of NumPathsOptimization and of minimal harness subclasses of the two abstract models (the documented extension point)."""
import collections, hashlib
import networkx as nx
from fpverif import gen, ref, monitors as M, models, workload as W
import flowpaths as fp

LEVEL = "exploration"
RULE = ("case = one model class (12 exported classes, NumPathsOptimization around a k-model, or a minimal subclass of an abstract model with a "
        "random linear objective) on a random in-domain instance: DAG / cyclic shapes incl. several sources/sinks, self-loops, nested cycles; "
        "edge / node weighted; k around the planted number (or None); int/float; constraints, ignore lists with garbage/missing values, error "
        "scaling, additional starts/ends, solution_weights_superset, path-length factors and one safety/greedy option set. Every solved "
        "model's get_solution() (default and remove_empty variants) is judged. non-trivial = solved with >=1 route of >=2 nodes; "
        "distinct = (class, graph, arguments)")
CASE_TIMEOUT = {"quick": 120, "thorough": 300}
REQUIRED_OBS = {"route_monitor.judged": 400, "c01.solved_top_level": 250}
ASSUMPTIONS = ["inputs are generated inside each class's documented domain; unsolved or rejected models produce no observation (C19 covers rejection)"]
EXHAUSTIVE = {"quick": False, "thorough": False}
SO = {"threads": 1, "time_limit": 10}   # a model that is not solved within the limit simply yields no observation


class ProbeDAG(fp.AbstractPathModelDAG):
    def __init__(self, G, k, coef, starts=(), ends=(), **kw):
        self.stG = fp.stDAG(G, additional_starts=list(starts), additional_ends=list(ends))
        oo = dict(kw.pop("optimization_options", None) or {})
        oo.setdefault("trusted_edges_for_safety", set())
        oo.setdefault("optimize_with_safe_paths", False)
        super().__init__(self.stG, k, optimization_options=oo, solver_options=dict(SO), **kw)
        self.create_solver_and_paths()
        self.solver.set_objective(self.solver.quicksum(coef.get((u, v), 0) * (1 + i) * self.edge_vars[(u, v, i)] for (u, v, i) in self.edge_indexes), sense="maximize")

    def get_solution(self):
        self.check_is_solved(); return {"paths": self.get_solution_paths()}
    def get_lowerbound_k(self): return 1
    def is_valid_solution(self): return True
    def get_objective_value(self): return None


class ProbeWalk(fp.AbstractWalkModelDiGraph):
    def __init__(self, G, k, coef, starts=(), ends=(), rep=2, **kw):
        self.stG = fp.stDiGraph(G, additional_starts=list(starts), additional_ends=list(ends))
        oo = dict(kw.pop("optimization_options", None) or {})
        oo.setdefault("optimize_with_safe_sequences", False)
        super().__init__(self.stG, k, max_edge_repetition=rep, optimization_options=oo, solver_options=dict(SO), **kw)
        self.create_solver_and_walks()
        self.solver.set_objective(self.solver.quicksum(coef.get((u, v), 0) * (1 + i) * self.edge_vars[(u, v, i)] for (u, v, i) in self.edge_indexes), sense="maximize")

    def get_solution(self):
        self.check_is_solved(); return {"walks": self.get_solution_walks()}
    def get_lowerbound_k(self): return 1
    def is_valid_solution(self): return True
    def get_objective_value(self): return None


def corpus_cases():
    """hand-written hard cases that every run includes, independent of the seed"""
    out = []
    E = lambda *e: [list(x) for x in e]
    def add(cls, nodes, edges, kw, mode="edge", nattr=None, eattr=None, starts=(), ends=(), allow_empty=False):
        sp = gen.spec(nodes, edges, nattr=nattr, eattr=eattr)
        meta = {"mode": mode, "planted": 0, "starts": list(starts), "ends": list(ends), "ignore": [], "allow_empty": allow_empty}
        out.append({"kind": "class", "cls": cls, "rs": f"corpus:{cls}:{len(out)}", "inst_meta": [{"cls": cls, "spec": sp, "kw": kw}, meta]})
    one = (["v"], [], {"v": {"flow": 4}})
    iso = (["v", "a", "b"], [("a", "b")], {"v": {"flow": 4}, "a": {"flow": 2}, "b": {"flow": 2}})
    for nodes, edges, na in (one, iso):
        k = 1 + len(edges)
        for cls in ("kFlowDecomp", "kLeastAbsErrors", "kMinPathError", "kFlowDecompCycles", "kLeastAbsErrorsCycles", "kMinPathErrorCycles"):
            add(cls, nodes, edges, {"flow_attr": "flow", "flow_attr_origin": "node", "weight_type": "int", "k": k}, "node", nattr=na)
        for cls in ("MinFlowDecomp", "MinFlowDecompCycles"):
            add(cls, nodes, edges, {"flow_attr": "flow", "flow_attr_origin": "node", "weight_type": "int"}, "node", nattr=na)
        for cls in ("kPathCover", "kPathCoverCycles"):
            add(cls, nodes, edges, {"cover_type": "node", "k": k}, "node")
        for cls in ("MinPathCover", "MinPathCoverCycles"):
            add(cls, nodes, edges, {"cover_type": "node"}, "node")
    # node-weighted minimum decompositions whose (possibly empty) additional starts / ends come in another container type than a list
    tn = ["a", "b", "c"]; te = [("a", "b"), ("a", "c")]; tna = {"a": {"flow": 2}, "b": {"flow": 2}, "c": {"flow": 0}}
    for cont in ("tuple", "set", "list"):
        for st_, en_ in (([], ["b"]), (["a"], []), ([], []), (["b"], ["b"])):
            for cls in ("MinFlowDecomp", "MinFlowDecompCycles"):
                add(cls, tn, te, {"flow_attr": "flow", "flow_attr_origin": "node", "weight_type": "int", "additional_starts": {"as": cont, "items": st_}, "additional_ends": {"as": cont, "items": en_}},
                    "node", nattr=tna, starts=st_, ends=en_)
    # nodes named like expanded / synthetic nodes
    hn = ["a", "a.0", "a.1", "source", "sink"]; he = [("a", "a.0"), ("a.0", "a.1"), ("a", "a.1"), ("a.1", "sink"), ("source", "a")]
    fl = {("a", "a.0"): 2, ("a.0", "a.1"): 2, ("a", "a.1"): 3, ("a.1", "sink"): 5, ("source", "a"): 5}
    for cls in ("MinFlowDecomp", "MinFlowDecompCycles", "MinPathCover", "MinPathCoverCycles"):
        kw = {} if "Cover" in cls else {"flow_attr": "flow", "weight_type": "int"}
        add(cls, hn, he, kw, eattr={e: {"flow": f} for e, f in fl.items()})
        kwn = {"cover_type": "node"} if "Cover" in cls else {"flow_attr": "flow", "weight_type": "int", "flow_attr_origin": "node"}
        add(cls, hn, he, kwn, "node", nattr={"a": {"flow": 5}, "a.0": {"flow": 2}, "a.1": {"flow": 5}, "source": {"flow": 5}, "sink": {"flow": 5}})
    # source inside a cycle with an additional start; same node start and end
    cn = ["a", "b", "t"]; ce = [("a", "b"), ("b", "a"), ("b", "t")]
    for cls in ("kPathCoverCycles", "MinPathCoverCycles", "kLeastAbsErrorsCycles", "kMinPathErrorCycles"):
        kw = {"additional_starts": ["a"]}
        if "Cover" not in cls:
            kw.update({"flow_attr": "flow", "weight_type": "int", "k": 1})
        elif cls.startswith("k"):
            kw["k"] = 1
        add(cls, cn, ce, kw, eattr={("a", "b"): {"flow": 2}, ("b", "a"): {"flow": 1}, ("b", "t"): {"flow": 1}}, starts=["a"])
    dn = ["s", "m", "t"]; de = [("s", "m"), ("m", "t")]
    for cls in ("kPathCover", "MinPathCover", "kLeastAbsErrors", "kMinPathError"):
        kw = {"additional_starts": ["m"], "additional_ends": ["m"]}
        if "Cover" not in cls:
            kw.update({"flow_attr": "flow", "weight_type": "int", "k": 2})
        elif cls.startswith("k"):
            kw["k"] = 2
        add(cls, dn, de, kw, eattr={("s", "m"): {"flow": 2}, ("m", "t"): {"flow": 3}}, starts=["m"], ends=["m"])
    return out


def gen_cases(tier, seed):
    cases = corpus_cases()
    per = 45 if tier == "quick" else 500
    for ci, cls in enumerate(W.ALL):
        for i in range(per):
            cases.append({"kind": "class", "cls": cls, "rs": f"C01:{seed}:{cls}:{i}"})
    for i in range(per * 2):
        cases.append({"kind": "probe", "rs": f"C01p:{seed}:{i}"})
    for i in range(per):
        cases.append({"kind": "numpaths", "rs": f"C01n:{seed}:{i}"})
    return cases


def judge(cls_name, G, sol, meta, k, viol, tag, is_dag):
    evs = M.route_events(cls_name, G, sol, mode=meta["mode"], starts=meta["starts"], ends=meta["ends"], k=k,
                         allow_empty=meta["allow_empty"], is_dag=is_dag, tag=tag)
    for s, msg in evs:
        viol.append({"sig": s, "msg": msg})


def run_case(case):
    viol = []; obs = collections.Counter()
    rng = gen.rng_for(case["rs"])
    M.ROUTES.install(); M.ROUTES.drain()
    before = M.OBS["route_monitor.judged"]
    nontriv = False; sample = None
    if case["kind"] == "class":
        inst, meta = case.get("inst_meta") or W.random_instance(rng, case["cls"])
        if case.get("inst_meta"):
            obs["c01.corpus_cases"] += 1
        elif meta["mode"] == "edge" and int(hashlib.sha1(case["rs"].encode()).hexdigest(), 16) % 9 == 0:
            # nodes of a str subclass whose str() is not the node (members of a (str, Enum) class): routes are made of the caller's nodes
            inst["spec"]["str_subclass"] = True; obs["c01.str_subclass_node_cases"] += 1
        elif meta["mode"] == "edge" and rng.random() < 0.07:
            # an isolated node in an edge-weighted graph: it is a source and a sink at once, so the one-node route through it is a real
            # source-to-sink route of the caller's graph
            inst["spec"]["nodes"].append(["iso_x", {}]); obs["c01.isolated_node_cases"] += 1
        res = models.run(inst, solver_options=SO)
        sample = {"inst": models.brief(inst), "solved": res.get("solved"), "exc": res.get("exc")}
        rep = {"kind": "class", "cls": case["cls"], "rs": case["rs"], "inst_meta": [inst, meta]}
        if res.get("solved") and "model" in res:
            obs["c01.solved_top_level"] += 1
            m = res["model"]
            # getter variants
            for kwv in ({}, {"remove_empty_paths": False}, {"remove_empty_paths": True}, {"remove_empty_walks": False}, {"remove_empty_walks": True}):
                r = M.safe_call(m.get_solution, **kwv)
                if r[0] == "ok" and r[1] is not None:
                    rts = models.routes_of(r[1]) or []
                    nontriv = nontriv or any(len(x) >= 2 for x in rts)
            if res.get("sol") is None and "exc" not in res:
                viol.append({"sig": f"C01/get_solution-returns-None/{case['cls']}", "msg": f"{models.brief(inst)}"})
            sample["solution"] = {k: (v[:3] if isinstance(v, list) else None) for k, v in (res.get("sol") or {}).items() if k in ("paths", "walks", "weights", "slacks")}
        for s, msg in M.ROUTES.drain():
            viol.append({"sig": s, "msg": msg + f" :: {models.brief(inst)}", "replay": rep})
        if inst["spec"].get("str_subclass") and not res.get("solved"):
            # the twin with plain string nodes: if that one is solved, the str-subclass graph (equal nodes) has routes to hand out as well
            i2 = {"cls": inst["cls"], "spec": {k_: v_ for k_, v_ in inst["spec"].items() if k_ != "str_subclass"}, "kw": inst["kw"]}
            r2 = models.run(i2, solver_options=SO); M.ROUTES.drain()
            if r2.get("solved"):
                viol.append({"sig": f"C01/str-subclass-nodes/no-routes-handed-out/{case['cls']}" + (f"/{res['exc'][0]}" if "exc" in res else ""),
                             "msg": f"plain string nodes: solved; nodes of a str subclass (equal to those strings): {res.get('exc') or 'not solved'} :: {models.brief(inst)}", "replay": rep})
    elif case["kind"] == "probe":
        cyc = rng.random() < 0.5
        nodes, edges = gen.cyc_any(rng, 10) if cyc else gen.dag_any(rng, 12)
        G = gen.build(gen.spec(nodes, edges))
        k = rng.randint(1, 3)
        coef = {e: rng.choice([-1, 0, 1, 2, 3]) for e in edges}
        starts = [rng.choice(nodes)] if rng.random() < 0.25 else []
        ends = [rng.choice(nodes)] if rng.random() < 0.25 else []
        allow_empty = rng.random() < 0.3
        P = gen.all_paths(nodes, edges) if not cyc else []
        cons = gen.rand_subpath_constraints(rng, P, n=1) if (P and rng.random() < 0.3) else []
        oo = {"allow_empty_walks" if cyc else "allow_empty_paths": allow_empty}
        kw = {"optimization_options": oo}
        if cons:
            kw["subset_constraints" if cyc else "subpath_constraints"] = cons
        r = M.safe_call(ProbeWalk if cyc else ProbeDAG, G, k, coef, starts, ends, **kw)
        sample = {"probe": "walk" if cyc else "dag", "edges": edges, "k": k, "coef": sorted((str(e), c) for e, c in coef.items()), "starts": starts, "ends": ends, "allow_empty": allow_empty, "cons": cons}
        if r[0] == "ok":
            m = r[1]
            s = M.safe_call(m.solve)
            if s[0] == "ok" and m.is_solved():
                obs["c01.probe_solved"] += 1
                g = M.safe_call(m.get_solution)
                if g[0] == "ok":
                    meta = {"mode": "edge", "starts": starts, "ends": ends, "allow_empty": allow_empty}
                    judge("AbstractWalkModelDiGraph-subclass" if cyc else "AbstractPathModelDAG-subclass", G, g[1], meta, k, viol, "[harness subclass]", is_dag=not cyc)
                    obs["route_monitor.judged"] += 1
                    nontriv = any(len(x) >= 2 for x in models.routes_of(g[1]))
                    sample["solution"] = models.routes_of(g[1])[:3]
                else:
                    viol.append({"sig": f"C01/probe-get_solution-raises/{g[1]}", "msg": f"{g[2]} {sample}"})
    else:
        cls = rng.choice(["kMinPathError", "kLeastAbsErrors", "kFlowDecomp"])
        inst, meta = W.random_instance(rng, cls, small=True)
        kw = models.decode_kwargs(inst["kw"]); kw.pop("k", None); kw["solver_options"] = dict(SO)
        G = gen.build(inst["spec"])
        stop = rng.choice([{"stop_on_first_feasible": True}, {"stop_on_delta_abs": 1}, {"stop_on_delta_rel": 0.1}])
        r = M.safe_call(fp.NumPathsOptimization, model_type=getattr(fp, cls), G=G, max_num_paths=6, **stop, **kw)
        sample = {"numpaths": cls, "inst": models.brief(inst), "stop": stop}
        if r[0] == "ok":
            m = r[1]
            s = M.safe_call(m.solve)
            if s[0] == "ok" and s[1] and M.safe_call(m.is_solved) == ("ok", True):
                obs["c01.numpaths_solved"] += 1
                g = M.safe_call(m.get_solution)
                if g[0] == "ok":
                    judge("NumPathsOptimization", G, g[1], meta, None, viol, f"[NumPathsOptimization({cls})]", is_dag=True)
                    obs["route_monitor.judged"] += 1
                    nontriv = any(len(x) >= 2 for x in models.routes_of(g[1]))
                    # never more than the k of the chosen inner model
                    kk = getattr(getattr(m, "model", None), "k", None)
                    if kk is not None and len(models.routes_of(g[1])) > kk:
                        viol.append({"sig": "C01/count>k/NumPathsOptimization", "msg": f"{len(models.routes_of(g[1]))} routes, inner k={kk}"})
        for sg, msg in M.ROUTES.drain():
            viol.append({"sig": sg, "msg": msg + f" :: {models.brief(inst)}"})
    obs["route_monitor.judged"] += M.OBS["route_monitor.judged"] - before
    seen = set(); out = []
    for v in viol:
        if v["sig"] not in seen:
            seen.add(v["sig"]); out.append(v)
    key = hashlib.sha1(repr(sample).encode()).hexdigest()[:14]
    return {"viol": out[:6], "obs": dict(obs), "nontrivial": nontriv, "keys": [key] if nontriv else [], "sample": sample}
