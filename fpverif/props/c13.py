"""C13 - solved means proven optimal; inconclusive solver runs never yield an answer.
Technique: fault enumeration. A SolverTrace monitor (wrapping SolverWrapper.__init__/optimize/get_model_status) records the
sequence of solver invocations of a fault-free run; then, for EVERY position j of that sequence and every (mode, status),
the run is repeated with a fault injected at invocation j:
  native   - the j-th SolverWrapper constructed receives time_limit=0, HiGHS itself ends with kTimeLimit
  override - optimize() runs to the end, then the reported status is replaced (an incumbent exists, as after a real time-out)
  skip     - optimize() is not run, the status is reported directly
  custom   - did_timeout is set as the SIGALRM handler of use_also_custom_timeout would
Oracle: see RULE."""
import collections, hashlib, copy
from fpverif import gen, ref, monitors as M, models, instances as I, workload as W
import flowpaths as fp

LEVEL = "fault_enumeration"
RULE = ("case = (class, small instance); fault-free run gives n solver invocations and the reference result; then one run per (j < n, mode, status) "
        "with statuses kTimeLimit, kInterrupt, kIterationLimit, kSolutionLimit, kMemoryLimit, kUnknown, kUnboundedOrInfeasible, kNotset - exhaustive "
        "over j incl. first and last. Judged: (i) getters raise before solve(); (ii) a faulted single k-model / MinErrorFlow / MinSetCover is not "
        "solved and its getters raise; (iii) a faulted minimum search (MinFlowDecomp, MinFlowDecompCycles, MinPathCover, MinPathCoverCycles, "
        "MinGenSet, incl. MinGenSet as lower bound and guessed weights) is not solved or returns exactly the fault-free optimum and the "
        "answering invocation is not the faulted one; (iv) NumPathsOptimization returns only a model whose own last solver status was optimal. "
        "non-trivial = instance with >= 2 solver invocations or a faulted run that stayed solved; distinct = (class, instance, j, mode, status)")
CASE_TIMEOUT = {"quick": 600, "thorough": 1800}
REQUIRED_OBS = {"c13.fault_runs": 1500, "c13.instances": 60, "c13.faults_at_first": 50, "c13.faults_at_last": 50, "c13.pre_solve_getters": 60,
                "c13.mode.native": 50, "c13.native_faults_effective": 3, "c13.mode.override": 300, "c13.mode.skip": 300, "c13.mode.custom": 50}
ASSUMPTIONS = ["Gurobi status codes cannot be exercised (Gurobi is not installed); HiGHS status names are used",
               "a fault in an auxiliary solve (a lower bound, guessed weights) may legitimately leave the answer unchanged"]
EXHAUSTIVE = {"quick": True, "thorough": True}     # exhaustive over the fault positions j of every explored instance
SO = {"threads": 1, "time_limit": 15}   # a real time-out is just one more inconclusive run: the model must then be unsolved
STATUSES = ["kTimeLimit", "kInterrupt", "kIterationLimit", "kSolutionLimit", "kMemoryLimit", "kUnknown", "kUnboundedOrInfeasible", "kNotset"]
MIN_CLASSES = ["MinFlowDecomp", "MinFlowDecompCycles", "MinPathCover", "MinPathCoverCycles"]
K_CLASSES = ["kFlowDecomp", "kFlowDecompCycles", "kLeastAbsErrors", "kLeastAbsErrorsCycles", "kMinPathError", "kMinPathErrorCycles", "kPathCover", "kPathCoverCycles"]


def gen_cases(tier, seed):
    cases = []
    n = 12 if tier == "quick" else 60
    # corpus: minimum searches that need several solver invocations (lower bound < optimum)
    cases.append({"kind": "corpus", "which": "mfd_readme", "rs": "corpus", "full": True})
    cases.append({"kind": "corpus", "which": "mfd_readme_mgs", "rs": "corpus", "full": True})
    cases.append({"kind": "corpus", "which": "mfd_readme_guessed", "rs": "corpus", "full": True})
    cases.append({"kind": "corpus", "which": "mfd_waist_guessed", "rs": "corpus", "full": True})
    cases.append({"kind": "corpus", "which": "mfdc_two", "rs": "corpus", "full": True})
    cases.append({"kind": "corpus", "which": "mgs_124_7", "rs": "corpus", "full": True})
    cases.append({"kind": "corpus", "which": "mpc_cons", "rs": "corpus", "full": True})
    cases.append({"kind": "restricted", "rs": "restricted"})
    cases.append({"kind": "lastrun", "rs": f"lastrun:{seed}"})
    for i in range(12 if tier == "quick" else 150):
        cases.append({"kind": "greedypre", "rs": f"C13gp:{seed}:{i}"})
    for cls in MIN_CLASSES + K_CLASSES:
        for i in range(n):
            cases.append({"kind": "model", "cls": cls, "rs": f"C13:{seed}:{cls}:{i}", "variant": i % 3})
    for cls in K_CLASSES:
        for i in range(max(3, n // 3)):
            cases.append({"kind": "edited", "cls": cls, "rs": f"C13ed:{seed}:{cls}:{i}"})
    for i in range(n * 2):
        cases.append({"kind": "mingenset", "rs": f"C13g:{seed}:{i}"})
    for i in range(n):
        cases.append({"kind": "minerrorflow", "rs": f"C13e:{seed}:{i}"})
        cases.append({"kind": "minsetcover", "rs": f"C13s:{seed}:{i}"})
        cases.append({"kind": "numpaths", "rs": f"C13n:{seed}:{i}"})
    return cases


def make_runner(case, rng):
    """returns (label, build() -> model, objective(model) -> comparable, is_min_search)"""
    kind = case["kind"]
    if kind == "corpus":
        README = [("s", "a", 6), ("s", "b", 7), ("a", "b", 2), ("a", "c", 4), ("b", "c", 9), ("c", "d", 6), ("c", "t", 7), ("d", "t", 6)]
        w = case["which"]
        if w in ("mfd_readme", "mfd_readme_mgs", "mfd_readme_guessed"):
            sp = gen.spec(["s", "a", "b", "c", "d", "t"], [(u, v) for u, v, _ in README], eattr={(u, v): {"flow": f} for u, v, f in README})
            oo = {"optimize_with_greedy": False}
            if w.endswith("mgs"):
                oo["use_min_gen_set_lowerbound"] = True
            if w.endswith("guessed"):
                # the guessed-weights pre-step finds a decomposition before the search over k starts (below its number of paths every k is still run)
                oo["optimize_with_guessed_weights"] = True
            inst = {"cls": "MinFlowDecomp", "spec": sp, "kw": {"flow_attr": "flow", "weight_type": "int", "optimization_options": oo}}
            cls = "MinFlowDecomp"
        elif w == "mfd_waist_guessed":
            # three entrances and three exits around one node: lower bound 3, minimum 4, and the guessed-weights pre-step (candidate weights = the
            # flow values) already finds a 4-path decomposition, so the search still has to settle k = 3 by a solver run
            E = [("s0", "m", 4), ("m", "t0", 6), ("m", "t1", 1), ("m", "t2", 3), ("s1", "m", 4), ("s2", "m", 2)]
            sp = gen.spec(["s0", "s1", "s2", "m", "t0", "t1", "t2"], [(u, v) for u, v, _ in E], eattr={(u, v): {"flow": f} for u, v, f in E})
            inst = {"cls": "MinFlowDecomp", "spec": sp, "kw": {"flow_attr": "flow", "weight_type": "int", "optimization_options": {"optimize_with_greedy": False, "optimize_with_guessed_weights": True}}}
            cls = "MinFlowDecomp"
        elif w == "mfdc_two":
            E = [("s", "a", 3), ("a", "b", 2), ("b", "a", 2), ("a", "t", 3), ("s", "t", 1)]
            sp = gen.spec(["s", "a", "b", "t"], [(u, v) for u, v, _ in E], eattr={(u, v): {"flow": f} for u, v, f in E})
            inst = {"cls": "MinFlowDecompCycles", "spec": sp, "kw": {"flow_attr": "flow", "weight_type": "int", "optimization_options": {"optimize_with_safe_sequences": False}}}
            cls = "MinFlowDecompCycles"
        elif w == "mpc_cons":
            E = [("s", "a"), ("s", "b"), ("a", "c"), ("b", "c"), ("c", "d"), ("c", "e")]
            sp = gen.spec(["s", "a", "b", "c", "d", "e"], E)
            inst = {"cls": "MinPathCover", "spec": sp, "kw": {"subpath_constraints": [[["s", "a"], ["c", "d"]], [["s", "a"], ["c", "e"]], [["s", "b"], ["c", "d"]], [["s", "b"], ["c", "e"]]]}}
            cls = "MinPathCover"
        if w == "mgs_124_7":
            def build():
                return fp.MinGenSet([1, 2, 4], total=7, weight_type=int, solver_options=dict(SO))
            return "MinGenSet [1,2,4] total 7", build, lambda m: len(m.get_solution()), True
        def build():
            c = models.construct(inst, solver_options=SO)
            return c[1] if c[0] == "ok" else None
        return f"{cls} corpus {w}", build, lambda m: len(models.routes_of(m.get_solution())), True
    if kind == "model":
        cls = case["cls"]
        for _ in range(20):
            inst, meta = W.random_instance(rng, cls, small=True)
            kw = inst["kw"]
            kw.pop("solution_weights_superset", None); kw.pop("path_length_ranges", None); kw.pop("path_length_factors", None)
            if kw.get("k", 1) is None:
                kw["k"] = 2
            oo = dict(kw.get("optimization_options") or {})
            if cls in ("kFlowDecomp", "MinFlowDecomp"):
                oo["optimize_with_greedy"] = False      # otherwise no solver is involved at all
            if cls in ("MinFlowDecomp", "MinFlowDecompCycles") and "elements_to_ignore" not in kw and case["variant"] == 1:
                oo["use_min_gen_set_lowerbound"] = True
            if cls in ("MinFlowDecomp", "MinFlowDecompCycles") and case["variant"] == 2:
                oo["optimize_with_guessed_weights"] = True
                if cls == "MinFlowDecomp" and rng.random() < 0.6:
                    # entrances and exits around one node: the minimum often exceeds the lower bound, and the guessed-weights pre-step may already
                    # hold a decomposition when the search over k starts
                    ni_, no_ = rng.randint(2, 3), rng.randint(2, 3); tot_ = rng.randint(6, 14)
                    def split_(t_, n_):
                        cuts_ = sorted(rng.sample(range(1, t_), n_ - 1)); return [b_ - a_ for a_, b_ in zip([0] + cuts_, cuts_ + [t_])]
                    E_ = [(f"s{j_}", "m", f_) for j_, f_ in enumerate(split_(tot_, ni_))] + [("m", f"t{j_}", f_) for j_, f_ in enumerate(split_(tot_, no_))]
                    rng.shuffle(E_)
                    inst = {"cls": cls, "spec": gen.spec(sorted({x for u_, v_, _ in E_ for x in (u_, v_)}), [(u_, v_) for u_, v_, _ in E_], eattr={(u_, v_): {"flow": f_} for u_, v_, f_ in E_}),
                            "kw": {"flow_attr": "flow", "weight_type": "int"}}
                    kw = inst["kw"]
            kw["optimization_options"] = oo
            break
        def build():
            c = models.construct(inst, solver_options=SO)
            return c[1] if c[0] == "ok" else None
        def objective(m):
            s = m.get_solution()
            r = models.routes_of(s)
            if cls in MIN_CLASSES:
                return len(r)
            o = m.get_objective_value()
            return round(o, 6) if isinstance(o, float) else o
        return f"{cls} {models.brief(inst)}", build, objective, cls in MIN_CLASSES
    if kind == "mingenset":
        k = rng.randint(2, 4); g = [rng.randint(1, 9) for _ in range(k)]
        nums = list({sum(x for x, b in zip(g, [rng.random() < 0.5 for _ in g]) if b) for _ in range(4)} - {0})
        if not nums:
            nums = [g[0]]
        total = sum(g); lb = 1
        def build():
            return fp.MinGenSet(nums, total=total, weight_type=int, lowerbound=lb, solver_options=dict(SO))
        return f"MinGenSet numbers={nums} total={total}", build, lambda m: len(m.get_solution()), True
    if kind == "minerrorflow":
        nodes, edges = gen.dag_any(rng, 8) if rng.random() < 0.6 else gen.cyc_any(rng, 7)
        w = {e: rng.choice([0, 1, 2, 3, 5, 8]) for e in edges}
        if all(v == 0 for v in w.values()):
            w[edges[0]] = 3
        spec = gen.spec(nodes, edges, eattr={e: {"flow": w[e]} for e in edges})
        eps = rng.choice([None, 0.5])
        def build():
            return fp.MinErrorFlow(gen.build(spec), flow_attr="flow", weight_type=int, few_flow_values_epsilon=eps, solver_options=dict(SO))
        return f"MinErrorFlow {sorted((str(e), v) for e, v in w.items())} eps={eps}", build, lambda m: m.get_solution()["objective_value"], False
    if kind == "minsetcover":
        nu = rng.randint(2, 6); U = list(range(nu))
        subsets = [rng.sample(U, rng.randint(1, nu)) for _ in range(rng.randint(2, 5))] + [list(U)]
        wts = [rng.randint(1, 5) for _ in subsets]
        def build():
            return fp.MinSetCover(U, subsets, subset_weights=wts, solver_options=dict(SO))
        return f"MinSetCover {subsets} {wts}", build, lambda m: sum(wts[i] for i in m.get_solution()), False
    if kind == "numpaths":
        cls = rng.choice(["kMinPathError", "kLeastAbsErrors"])
        inst, meta = W.random_instance(rng, cls, small=True)
        kw = models.decode_kwargs(inst["kw"]); kw.pop("k", None); kw.pop("solution_weights_superset", None); kw["solver_options"] = dict(SO)
        kw.pop("path_length_ranges", None); kw.pop("path_length_factors", None)
        stop = rng.choice([{"stop_on_first_feasible": True}, {"stop_on_delta_abs": 1}])
        def build():
            return fp.NumPathsOptimization(model_type=getattr(fp, cls), G=gen.build(inst["spec"]), max_num_paths=5, **stop, **copy.deepcopy(kw))
        return f"NumPathsOptimization({cls}) {models.brief(inst)} {stop}", build, lambda m: None, False


def getters_raise(m):
    out = []
    for name in ("get_solution", "get_objective_value"):
        if not hasattr(m, name):
            continue
        r = M.safe_call(getattr(m, name))
        if r[0] == "ok" and r[1] is not None:
            out.append((name, repr(r[1])[:80]))
    return out


def one_run(build, objective, inject):
    M.TRACE.reset(); M.TRACE.inject = inject
    try:
        b = M.safe_call(build)
        if b[0] != "ok" or b[1] is None:
            return {"ctor": b[1:] if b[0] != "ok" else "None"}
        m = b[1]
        s = M.safe_call(m.solve)
        out = {"solve": s, "trace": list(M.TRACE.trace), "wrappers": M.TRACE.wrappers, "model": m}
        sv = M.safe_call(m.is_solved)
        out["solved"] = bool(sv[1]) if sv[0] == "ok" else False
        if out["solved"]:
            o = M.safe_call(objective, m)
            out["obj"] = o[1] if o[0] == "ok" else ("EXC", o[1:])
        else:
            out["leaks"] = getters_raise(m)
        return out
    finally:
        M.TRACE.inject = None


def run_restricted(case):
    """A model whose weights are restricted to a given superset and that has NO solution under that restriction must not report itself
    solved (nothing can have proven optimality of the current, restricted model): the greedy shortcut of kFlowDecomp included."""
    viol = []; obs = collections.Counter()
    import networkx as nx
    for name, edges, k, sup in (("chain", [("s", "a", 5), ("a", "t", 5)], 1, [4]), ("diamond", [("s", "a", 2), ("a", "t", 2), ("s", "b", 5), ("b", "t", 5)], 2, [2, 4]),
                                ("chain-ok", [("s", "a", 5), ("a", "t", 5)], 1, [5])):
        for oo in (None, {"optimize_with_greedy": False}):
            G = nx.DiGraph()
            for u, v, f in edges:
                G.add_edge(u, v, flow=f)
            kw_ = dict(flow_attr="flow", k=k, weight_type=int, solution_weights_superset=list(sup), solver_options=dict(SO))
            if oo is not None:
                kw_["optimization_options"] = dict(oo)
            r = M.safe_call(fp.kFlowDecomp, G, **kw_)
            if r[0] != "ok":
                obs["c13.restricted_ctor_failed"] += 1
                continue
            m = r[1]; M.safe_call(m.solve)
            obs["c13.restricted_models"] += 1
            solved = bool(m.is_solved())
            if solved:
                sol = m.get_solution()
                used = sorted(w for p_, w in zip(sol["paths"], sol["weights"]) if p_)
                pool = sorted(sup)
                ok = all(used.count(x) <= pool.count(x) for x in set(used))
                if not ok:
                    viol.append({"sig": "C13/solved-without-proof/kFlowDecomp/answer-outside-the-weights-superset" + ("" if oo else "/greedy"),
                                 "msg": f"{name}: edges {edges} k={k} solution_weights_superset={sup} options={oo}: is_solved() True with weights {sol['weights']} on paths {sol['paths']}"})
            elif name == "chain-ok":
                viol.append({"sig": "C13/restricted-model-with-a-solution-unsolved", "msg": f"{name} options={oo}"})
    return {"viol": viol, "obs": dict(obs), "nontrivial": True, "keys": ["restricted"], "sample": {"restricted": True}}


def run_greedypre(case):
    """kFlowDecomp with the library's default options (greedy shortcut available) for every k from 1 to the number of planted paths + 1: before
    solve() no getter hands out data - whatever the shortcut computed and cached at construction -, and after solve() data only if is_solved()."""
    viol = []; obs = collections.Counter()
    rng = gen.rng_for(case["rs"])
    base = I.dag_edge_base(rng, wt=rng.choice(["int", "float"]), max_edges=rng.choice([9, 14]), exact=True, npaths=rng.randint(2, 5))
    G = gen.build(I.spec_of(base)); np_ = max(1, len(base["planted"]))
    for k in range(1, np_ + 2):
        r = M.safe_call(fp.kFlowDecomp, G, flow_attr="flow", k=k, weight_type=models.WT[base["wt"]], solver_options=dict(SO))
        if r[0] != "ok":
            obs["c13.ctor_failed"] += 1; continue
        m = r[1]
        desc = f"kFlowDecomp(k={k}) default options, {np_} planted paths; edges={[(u, v, d.get('flow')) for u, v, d in G.edges(data=True)]}"
        obs["c13.pre_solve_getters"] += 1
        pre = getters_raise(m)
        if pre and not bool(m.is_solved()):
            # (when the shortcut finds a decomposition with <= k paths at construction the model already reports is_solved(): a feasible
            # solution of a pure feasibility model is an optimal one, data and flag agree. Judged: data WITHOUT the flag.)
            viol.append({"sig": "C13/getter-returns-data-before-solve/kFlowDecomp/default-options", "msg": f"is_solved() is False but {pre}; {desc}"})
        elif pre:
            obs["c13.solved_by_shortcut_at_construction"] += 1
            sol0 = m.get_solution()
            if len([p for p in sol0["paths"] if p]) > k:
                viol.append({"sig": "C13/solved-with-more-than-k-paths/kFlowDecomp/default-options", "msg": f"before solve(): {sol0}; {desc}"})
        M.safe_call(m.solve)
        if not bool(m.is_solved()):
            obs["c13.greedy_default_unsolved"] += 1
            post = getters_raise(m)
            if post:
                viol.append({"sig": "C13/unsolved-model-hands-out-data/kFlowDecomp/default-options", "msg": f"{post}; {desc}"})
        else:
            sol = m.get_solution()
            if len([p for p in sol["paths"] if p]) > k:
                viol.append({"sig": "C13/solved-with-more-than-k-paths/kFlowDecomp/default-options", "msg": f"{sol}; {desc}"})
    seen = set(); out = []
    for v in viol:
        if v["sig"] not in seen:
            seen.add(v["sig"]); out.append(v)
    return {"viol": out, "obs": dict(obs), "nontrivial": True, "keys": [hashlib.sha1(repr(sorted(G.edges(data="flow"))).encode()).hexdigest()[:14]], "sample": {"greedypre": np_}}


def run_lastrun(case):
    """Two-phase MinErrorFlow (few_flow_values_epsilon): is_solved() is set by the optimality of the LAST solver run (second phase), so the
    data handed out must be that run's solution, not a cached solution of an earlier run."""
    viol = []; obs = collections.Counter()
    import networkx as nx
    rng = gen.rng_for(case["rs"])
    insts = [([("s", "a", 10), ("a", "t", 12), ("s", "b", 20), ("b", "t", 21)], 10), ([("s", "a", 10), ("a", "t", 10), ("s", "b", 11), ("b", "t", 11), ("s", "c", 20), ("c", "t", 24)], 1)]
    for _ in range(6):
        n_ = rng.randint(2, 4); E = []
        for i in range(n_):
            a_ = rng.randint(5, 25); E += [("s", f"m{i}", a_), (f"m{i}", "t", a_ + rng.choice([0, 1, 2, 4]))]
        insts.append((E, rng.choice([0.5, 1, 3, 10])))
    for E, eps in insts:
        G = nx.DiGraph()
        for u, v, f in E:
            G.add_edge(u, v, flow=f)
        r = M.safe_call(fp.MinErrorFlow, G, flow_attr="flow", weight_type=int, few_flow_values_epsilon=eps, solver_options=dict(SO))
        if r[0] != "ok":
            continue
        m = r[1]; s_ = M.safe_call(m.solve)
        if s_[0] != "ok" or not m.is_solved():
            continue
        sol = m.get_solution()
        last = M.safe_call(m.solver.get_values, m.edge_vars)
        obs["c13.last_run_compared"] += 1
        if last[0] == "ok":
            got = {(u, v): d["flow"] for u, v, d in sol["graph"].edges(data=True)}
            cur = {e: round(x) for e, x in last[1].items() if e in got}
            if any(abs(got[e] - cur[e]) > 1e-6 for e in cur):
                viol.append({"sig": "C13/solution-handed-out-is-not-the-one-of-the-last-proven-run/MinErrorFlow/eps",
                             "msg": f"edges {E} eps={eps}: get_solution() graph {sorted(got.items())} but the solver run whose optimality set is_solved() holds {sorted(cur.items())}"})
    return {"viol": viol[:2], "obs": dict(obs), "nontrivial": True, "keys": ["lastrun"], "sample": {"lastrun": True}}


def run_edited(case):
    """A solved k-model whose MILP is then changed through its own solver object (model.solver.add_constraint on model.edge_vars: an edge that
    the solution uses is forbidden in every slot) and solved again: whatever it reports afterwards has to be about the CURRENT model - solved
    only with routes that respect the new constraint, never the cached answer of the model that was proven optimal before the change."""
    viol = []; obs = collections.Counter()
    rng = gen.rng_for(case["rs"]); cls = case["cls"]
    inst, meta = W.random_instance(rng, cls, small=True)
    if meta["mode"] != "edge":
        return {"viol": [], "obs": {"c13.edited_skipped_node_mode": 1}, "nontrivial": False}
    res = models.run(inst, solver_options=dict(SO))
    m = res.get("model")
    if not res.get("solved") or m is None or getattr(m, "solver", None) is None or not getattr(m, "edge_vars", None):
        return {"viol": [], "obs": {"c13.edited_not_applicable": 1}, "nontrivial": False}
    routes = [r for r in (models.routes_of(res["sol"]) or []) if len(r) >= 2]
    used = sorted({e for r in routes for e in zip(r, r[1:])})
    used = [e for e in used if all((e[0], e[1], i) in m.edge_vars for i in range(m.k))]
    if not used:
        return {"viol": [], "obs": {"c13.edited_not_applicable": 1}, "nontrivial": False}
    e = rng.choice(used)
    for i in range(m.k):
        M.safe_call(m.solver.add_constraint, m.edge_vars[(e[0], e[1], i)] <= 0, name=f"harness_forbid_{i}")
    s2 = M.safe_call(m.solve)
    obs["c13.edited_models_resolved"] += 1
    so = M.safe_call(m.is_solved)
    desc = f"{cls} {models.brief(inst)}; forbidden after the first solve: {e}"
    if s2[0] == "ok" and so == ("ok", True):
        g = M.safe_call(m.get_solution)
        r2 = [r for r in (models.routes_of(g[1]) or []) if len(r) >= 2] if g[0] == "ok" and isinstance(g[1], dict) else []
        if any(e in set(zip(r, r[1:])) for r in r2):
            viol.append({"sig": f"C13/solved-describes-an-earlier-model/{cls}", "msg": f"after the change is_solved() is True and get_solution() still routes through {e}: {r2}; {desc}"})
        obs["c13.edited_models_solved_again"] += 1
    elif s2[0] == "ok":
        pre = getters_raise(m)
        if pre:
            viol.append({"sig": f"C13/getters-hand-out-data-of-an-unsolved-model/{cls}/after-edit", "msg": f"{pre}; {desc}"})
        obs["c13.edited_models_unsolved_after"] += 1
    return {"viol": viol, "obs": dict(obs), "nontrivial": True, "keys": [hashlib.sha1(desc.encode()).hexdigest()[:14]], "sample": {"desc": desc[:400]}}


def run_case(case):
    if case["kind"] == "edited":
        return run_edited(case)
    if case["kind"] == "restricted":
        return run_restricted(case)
    if case["kind"] == "lastrun":
        return run_lastrun(case)
    if case["kind"] == "greedypre":
        return run_greedypre(case)
    viol = []; obs = collections.Counter(); keys = []
    rng = gen.rng_for(case["rs"])
    M.TRACE.install()
    label, build, objective, is_min = make_runner(case, rng)
    # (i) getters before solve
    M.TRACE.reset()
    b = M.safe_call(build)
    if b[0] != "ok" or b[1] is None:
        return {"viol": [], "obs": {"c13.ctor_failed": 1}, "nontrivial": False, "sample": {"label": label, "ctor": str(b[1:])[:200]}}
    pre = getters_raise(b[1])
    obs["c13.pre_solve_getters"] += 1
    kind = case.get("cls", case["kind"])
    if pre and not (case["kind"] == "model" and False):
        viol.append({"sig": f"C13/getter-returns-data-before-solve/{kind}", "msg": f"{pre}; {label}"})
    base = one_run(build, objective, None)
    if "ctor" in base or base["solve"][0] != "ok":
        return {"viol": viol, "obs": dict(obs), "nontrivial": False, "sample": {"label": label, "base": str(base.get("solve"))[:200]}}
    n = len(base["trace"]); nw = base["wrappers"]
    obs["c13.instances"] += 1
    obs[f"c13.n_invocations.{min(n, 6)}"] += 1
    if not base["solved"] or n == 0:
        # nothing to protect in an unsolved / solver-free run, but the run still counts for (i)
        return {"viol": viol, "obs": dict(obs), "nontrivial": False, "sample": {"label": label, "base_solved": base["solved"], "n": n}}
    plans = []
    for j in range(n):
        sts = STATUSES if case.get("full") else (["kTimeLimit"] + rng.sample(STATUSES[1:], 3))
        for st in sts:
            plans.append({"at": j, "mode": "override", "status": st})
            plans.append({"at": j, "mode": "skip", "status": st})
        plans.append({"at": j, "mode": "custom", "status": "kTimeLimit"})
    for w in range(nw):
        plans.append({"at_wrapper": w, "mode": "native", "status": "kTimeLimit"})
    for inj in plans:
        r = one_run(build, objective, dict(inj))
        obs["c13.fault_runs"] += 1; obs[f"c13.mode.{inj['mode']}"] += 1
        j = inj.get("at", inj.get("at_wrapper"))
        if j == 0:
            obs["c13.faults_at_first"] += 1
        if j == (n - 1 if "at" in inj else nw - 1):
            obs["c13.faults_at_last"] += 1
        tr = r.get("trace", [])
        faulted = [t for t in tr if t.get("fault")]
        if not faulted:
            if any(t.get("native_no_effect") for t in tr):
                obs["c13.native_limit_had_no_effect"] += 1
            else:
                obs["c13.fault_not_reached"] += 1     # the run took another route before reaching position j
            continue
        if inj["mode"] == "native":
            obs["c13.native_faults_effective"] += 1
        what = f"fault {inj} -> trace {[(t['i'], t.get('status'), t.get('fault')) for t in tr]}"
        if "ctor" in r or r["solve"][0] != "ok":
            ex = r.get("solve", ("", "ctor", ""))
            if inj["mode"] == "skip":
                obs["c13.exception_after_skip"] += 1      # without a solver run an exception is an acceptable way of not answering
                continue
            viol.append({"sig": f"C13/exception-under-fault/{kind}/{inj['mode']}/{ex[1]}", "msg": f"{ex}; {what}; {label}"}); continue
        keys.append(hashlib.sha1(f"{label}{inj}".encode()).hexdigest()[:14])
        if not r["solved"]:
            if r.get("leaks"):
                viol.append({"sig": f"C13/unsolved-model-hands-out-data/{kind}", "msg": f"{r['leaks']}; {what}; {label}"})
            if r["solve"][1] not in (False, None):
                viol.append({"sig": f"C13/solve-returns-true-but-unsolved/{kind}", "msg": f"{what}; {label}"})
            continue
        obs["c13.stayed_solved"] += 1
        last = tr[-1] if tr else {}
        if case["kind"] == "numpaths":
            mm = getattr(r["model"], "model", None)
            wid = getattr(getattr(mm, "solver", None), "_fpv_widx", None)
            ent = [t for t in tr if t.get("w") == wid]
            if not ent or ent[-1].get("fault") or ent[-1].get("status") != "kOptimal":
                viol.append({"sig": "C13/NumPathsOptimization-returns-model-not-proven-optimal", "msg": f"returned model's last solver entry {ent[-1:]}; {what}; {label}"})
            continue
        if not is_min:
            viol.append({"sig": f"C13/solved-although-solver-run-was-inconclusive/{kind}/{inj['mode']}", "msg": f"objective {r.get('obj')}; {what}; {label}"}); continue
        if r.get("obj") != base.get("obj"):
            viol.append({"sig": f"C13/min-search-answer-differs-under-fault/{kind}/{inj['mode']}", "msg": f"fault-free answer {base.get('obj')}, under fault {r.get('obj')}; {what}; {label}"})
        elif last.get("fault"):
            viol.append({"sig": f"C13/min-search-answered-by-faulted-invocation/{kind}/{inj['mode']}", "msg": f"answer {r.get('obj')}; {what}; {label}"})
        if len(viol) > 6:
            break
    # ---- re-solve history on ONE model object: a proven-optimal solve() followed by a solve() whose solver run is inconclusive
    if case["kind"] in ("model", "minerrorflow", "minsetcover", "mingenset", "numpaths", "corpus"):
        for mode, st in (("override", "kTimeLimit"), ("skip", "kInterrupt"), ("custom", "kTimeLimit")):
            M.TRACE.reset(); M.TRACE.inject = None
            b2 = M.safe_call(build)
            if b2[0] != "ok" or b2[1] is None:
                break
            m = b2[1]
            s1 = M.safe_call(m.solve)
            if s1[0] != "ok" or not M.safe_call(m.is_solved)[1:] == (True,):
                break
            M.safe_call(objective, m)
            M.TRACE.inject = {"at": len(M.TRACE.trace), "mode": mode, "status": st}
            try:
                s2 = M.safe_call(m.solve)
            finally:
                M.TRACE.inject = None
            obs["c13.resolve_histories"] += 1
            if not any(t.get("fault") for t in M.TRACE.trace):
                continue
            sv = M.safe_call(m.is_solved)
            what = f"solve() optimal, then solve() again with the solver run ending {st} ({mode})"
            if (is_min or case["kind"] == "numpaths") and s2[0] == "ok" and s2[1] not in (False, None):
                # a search over k may survive the fault (it hit a lower-bound / guessed-weights helper, whose failure only costs the shortcut):
                # the first-solve plans above judge that; here only a FAILED re-solve is of interest
                obs["c13.resolve_search_survived_fault"] += 1
                continue
            if s2[0] == "ok" and s2[1] not in (False, None):
                viol.append({"sig": f"C13/resolve/solve-returns-true-after-inconclusive-run/{kind}", "msg": f"{what}; {label}"})
            if sv[0] == "ok" and sv[1]:
                viol.append({"sig": f"C13/resolve/still-reports-solved-after-inconclusive-run/{kind}", "msg": f"{what}: is_solved() stays True; {label}"})
            else:
                leaks = getters_raise(m)
                if leaks:
                    viol.append({"sig": f"C13/resolve/unsolved-model-hands-out-cached-data/{kind}/" + "+".join(sorted(x for x, _ in leaks)), "msg": f"{what}: is_solved() is False but {leaks}; {label}"})
    # the reverse history: the FIRST solve() of an object is hit by an inconclusive run, the caller then solves the same object again without
    # any fault: that second solve must give the fault-free answer (nothing learnt from the inconclusive run may be kept as if it were proven)
    if case["kind"] in ("model", "minerrorflow", "minsetcover", "mingenset", "numpaths", "corpus") and n >= 1:
        for j in sorted({0, n - 1, n // 2}):
            for mode, st in (("override", "kTimeLimit"), ("skip", "kInterrupt")):
                M.TRACE.reset(); M.TRACE.inject = {"at": j, "mode": mode, "status": st}
                b3 = M.safe_call(build)
                if b3[0] != "ok" or b3[1] is None:
                    M.TRACE.inject = None; break
                m = b3[1]
                try:
                    s1 = M.safe_call(m.solve)
                finally:
                    M.TRACE.inject = None
                if not any(t.get("fault") for t in M.TRACE.trace):
                    continue
                s2 = M.safe_call(m.solve)
                if any(t.get("status") == "kTimeLimit" and not t.get("fault") for t in M.TRACE.trace):
                    obs["c13.clean_resolve_time_limited"] += 1; continue      # (heavy-tailed MILP: the clean run itself hit the solver limit; no verdict)
                obs["c13.fault_then_clean_resolve"] += 1
                what = f"first solve() with invocation {j} ending {st} ({mode}), then a clean solve() of the same object"
                if s2[0] != "ok":
                    viol.append({"sig": f"C13/clean-resolve-after-fault/raises/{kind}/{s2[1]}", "msg": f"{s2[2]}; {what}; {label}"}); continue
                sv = M.safe_call(m.is_solved)
                if not (sv[0] == "ok" and sv[1]):
                    viol.append({"sig": f"C13/clean-resolve-after-fault/unsolved/{kind}", "msg": f"{what}: not solved although the fault-free run is ({base.get('obj')}); {label}"}); continue
                o2 = M.safe_call(objective, m)
                if o2[0] != "ok" or o2[1] != base.get("obj"):
                    viol.append({"sig": f"C13/clean-resolve-after-fault/answer-differs/{kind}", "msg": f"{what}: {o2[1:]} instead of the fault-free {base.get('obj')}; {label}"})
    seen = set(); out = []
    for v in viol:
        if v["sig"] not in seen:
            seen.add(v["sig"]); out.append(v)
    return {"viol": out[:6], "obs": dict(obs), "nontrivial": n >= 2 or obs["c13.stayed_solved"] > 0, "keys": keys[:300],
            "sample": {"label": label[:400], "n_invocations": n, "wrappers": nw, "fault_plans": len(plans), "base_objective": str(base.get("obj"))}}
