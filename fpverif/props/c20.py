"""C20 - graph files are parsed faithfully and malformed files are rejected.
Monitor: return value / exception of the real graphutils.read_graphs on rendered files; oracle: the generating description
(and, for the repository's fixture files, an independent mini-parser)."""
import copy, collections, hashlib, os, tempfile, glob, shutil
import networkx as nx
from fpverif import gen, ref, monitors as M
import flowpaths as fp
from flowpaths.utils import graphutils as gu

LEVEL = "exploration"
RULE = ("case = one rendered multi-block file (1-6 blocks; 1-3 header lines; '#S' lines incl. duplicates; blank lines, tabs, extra spaces; "
        "weights rendered as 3 / 3.50 / 1e2 / 2.5E+1; zero-vertex blocks) compared block by block with its description, then every "
        "single-line corruption of the stated kinds applied to it; fixture files under tests/ are parsed and compared with an independent "
        "mini-parser. non-trivial = file with >=2 blocks or a constraint or a cycle; distinct = file text")
CASE_TIMEOUT = {"quick": 120, "thorough": 600}
REQUIRED_OBS = {"c20.blocks_compared": 300, "c20.corruptions_judged": 300, "c20.fixture_blocks": 1}
ASSUMPTIONS = ["graphs have >=1 source and >=1 sink (as quantified); comment lines only in headers; an edge line is repeated only verbatim (same weight); a header line is a '#S' line only if its first token is exactly '#S'",
               "non-numeric tokens used for corruption are ones Python's float()/int() reject (abc, 1.2.3, --, 1,5, 0x10, empty-ish)"]
EXHAUSTIVE = {"quick": False, "thorough": False}

WFORMS = [lambda w: str(int(w)) if float(w).is_integer() else repr(float(w)),
          lambda w: f"{float(w):.2f}", lambda w: f"{float(w):e}", lambda w: f"{float(w):.3E}", lambda w: repr(float(w))]


def make_block(rng, idx):
    if rng.random() < 0.08:
        # a block without edge lines; the vertex-count line is informational (the fixture files of the repository often disagree with the
        # real node count), so it need not be 0
        return {"headers": [f"empty block {idx}"], "cons": [], "n": rng.choice([0, 0, 3]), "edges": [], "zero": True}
    nodes, edges = gen.cyc_any(rng, 12) if rng.random() < 0.5 else gen.dag_any(rng, 12)
    if rng.random() < 0.06:
        # a graph without source (or without sink): listed edges must still be read; no width is defined for it
        nodes = ["a", "b", "c"]; edges = rng.choice([[("a", "b"), ("b", "a")], [("a", "b"), ("b", "c"), ("c", "b")], [("a", "b"), ("b", "a"), ("b", "c")]])
    toks = []
    for (u, v) in edges:
        w = rng.choice([0, 1, 2, 3, 7, 10, 100, 0.5, 2.25, 3.5, 12.125])
        toks.append((u, v, rng.choice(WFORMS)(w)))
    if toks and rng.random() < 0.1:
        # an edge line listed twice, verbatim (same weight, so 'the listed edges and weights' stay unambiguous): one edge, counted once
        toks.insert(rng.randrange(len(toks) + 1), rng.choice(toks))
    cons = []
    G = nx.DiGraph(edges)
    for _ in range(rng.choice([0, 0, 1, 2, 3])):
        v = rng.choice(list(G.nodes)); seq = [v]
        for _ in range(rng.randint(1, 4)):
            succ = list(G.successors(seq[-1]))
            if not succ:
                break
            seq.append(rng.choice(succ))
        if len(seq) >= 2:
            cons.append(seq)
    if cons and rng.random() < 0.4:
        cons.insert(rng.randrange(len(cons) + 1), list(rng.choice(cons)))   # duplicate '#S' line
    if rng.random() < 0.5:
        # distinct '#S' lines that traverse the SAME set of edges (once vs twice round a cycle, different start) are distinct constraints
        try:
            cyc = nx.find_cycle(G)
            cn = [u for u, _ in cyc] + [cyc[0][0]]
            once = cn; twice = cn + cn[1:]; rot = cn[1:] + cn[1:2] if len(cn) > 2 else None
            for c in rng.sample([x for x in (once, twice, rot) if x and len(x) >= 2], rng.randint(2, 3) if rot else 2):
                cons.insert(rng.randrange(len(cons) + 1), list(c))
        except Exception:
            pass
    nh = rng.randint(1, 3)
    # header / comment texts, including ones that begin with a capital S, a digit or contain '#' further inside (none of them is a '#S' line:
    # the renderer always puts white space between '#' and a text starting with 'S')
    pool = [f"extra comment {idx}", f"Sample {idx} replicate 2", "Strain_K12", "S", f"S{idx} second", "subpath constraints below", f"{idx} 7 3", "unique source is 0 # really",
            "Source: simulated", "SRR1234 run"]
    first = rng.choice([f"graph number = {idx} name = g{rng.randint(0, 999)}"] * 3 + [f"Sample {idx} replicate {rng.randint(1, 9)}", f"Strain_K{idx}", f"S{idx}", f"{idx}"])
    headers = [first] + [rng.choice(pool) for j in range(nh - 1)]
    n_real = len(set(x for e in edges for x in e))
    return {"headers": headers, "cons": cons, "n": n_real if rng.random() < 0.8 else rng.choice([0, 1, n_real + 3]), "edges": toks, "zero": False,
            "blank_in_header": rng.random() < 0.15}


def render(rng, blocks):
    lines = []
    for b in blocks:
        # (a header text may follow the '#' directly - '#Strain_K12', '#SRR1234 run', '#kmersize=27' as in the repository's own files - unless
        # its first token is exactly 'S', which would make the line a '#S' line)
        hdr = [("#" + rng.choice(([] if h.split()[0] == "S" else ["", ""]) + [" ", "  ", "\t"]) + h) for h in b["headers"]]
        cl = [("#S" + rng.choice([" ", "  ", "\t"]) + rng.choice([" ", "  "]).join(c)) for c in b["cons"]]
        # constraint lines may be interleaved with the later header lines, the id line stays first
        rest = hdr[1:] + cl
        rng.shuffle(rest)
        # keep relative order of constraint lines (file order defines constraint order)
        ci = iter(cl)
        rest = [next(ci) if x.split()[0] == "#S" else x for x in rest]
        for l in [hdr[0]] + rest:
            lines.append(rng.choice(["", " "]) + l)
            if b.get("blank_in_header") and rng.random() < 0.5 and l is not ([hdr[0]] + rest)[-1]:
                lines.append("")          # a blank line between two header lines of the same block
        if rng.random() < 0.3:
            lines.append("")
        lines.append(rng.choice(["", " "]) + str(b["n"]) + rng.choice(["", " "]))
        for (u, v, w) in b["edges"]:
            if rng.random() < 0.1:
                lines.append("")
            sep = rng.choice([" ", "  ", "\t"])
            lines.append(rng.choice(["", " "]) + u + sep + v + sep + w + rng.choice(["", " "]))
        for _ in range(rng.choice([0, 0, 1, 2])):
            lines.append("")
    return lines


def expected_of(b):
    edges = {(u, v): float(w) for u, v, w in b["edges"]}
    seen = set(); cons = []
    for c in b["cons"]:
        if tuple(c) not in seen:
            seen.add(tuple(c)); cons.append(list(zip(c, c[1:])))
    return {"id": b["headers"][0], "edges": edges, "cons": cons, "zero": b["zero"]}


def compare(G, exp, viol, obs, where):
    obs["c20.blocks_compared"] += 1
    if G.graph.get("id") != exp["id"]:
        viol.append({"sig": "C20/id", "msg": f"{where}: id {G.graph.get('id')!r} expected {exp['id']!r}"})
    got = {(u, v): d.get("flow") for u, v, d in G.edges(data=True)}
    if set(got) != set(exp["edges"]):
        viol.append({"sig": "C20/edge-set", "msg": f"{where}: edges {sorted(got)} expected {sorted(exp['edges'])}"})
    else:
        bad = [(e, got[e], exp["edges"][e]) for e in got if got[e] != exp["edges"][e] or not isinstance(got[e], float)]
        if bad:
            viol.append({"sig": "C20/weights", "msg": f"{where}: {bad[:3]}"})
    gc = [[tuple(e) for e in c] for c in G.graph.get("constraints", [])]
    if gc != exp["cons"]:
        viol.append({"sig": "C20/constraints", "msg": f"{where}: constraints {gc} expected {exp['cons']}"})
    if not exp["zero"]:
        H = nx.DiGraph(list(exp["edges"]))
        if G.graph.get("n") != H.number_of_nodes() or G.graph.get("m") != H.number_of_edges():
            viol.append({"sig": "C20/stored-n-m", "msg": f"{where}: n,m = {G.graph.get('n')},{G.graph.get('m')} expected {H.number_of_nodes()},{H.number_of_edges()}"})
        w = ref.walk_cover_width(H) if (ref.sources(H) and ref.sinks(H)) else None
        obs["c20.width_compared"] += 1
        if G.graph.get("w") != w:
            viol.append({"sig": "C20/stored-width", "msg": f"{where}: w = {G.graph.get('w')} reference width {w}; edges {sorted(exp['edges'])}"})
    else:
        if G.number_of_edges() != 0:
            viol.append({"sig": "C20/zero-block-has-edges", "msg": where})
        # the stored counts match the graph for a block without edges as well (0 nodes, 0 edges, no width)
        if (G.graph.get("n", "absent"), G.graph.get("m", "absent"), G.graph.get("w", "absent")) != (0, 0, None):
            viol.append({"sig": "C20/stored-n-m/zero-block", "msg": f"{where}: n,m,w = {G.graph.get('n', 'absent')},{G.graph.get('m', 'absent')},{G.graph.get('w', 'absent')} expected 0,0,None"})


def mini_parse(path):
    """independent reading of the format, for the fixture files"""
    blocks = []; cur = None; state = None
    for raw in open(path):
        l = raw.strip()
        if l.startswith("#"):
            if state != "hdr":
                cur = {"headers": [], "cons": [], "edges": [], "n": None}; blocks.append(cur); state = "hdr"
            if l.split()[0] == "#S":
                t = l[2:].split()
                if len(t) >= 2:
                    cur["cons"].append(t)
            else:
                cur["headers"].append(l.lstrip("#").strip())
        elif l == "":
            continue
        elif cur is not None:
            if state == "hdr":
                cur["n"] = int(l); state = "edges"
            else:
                u, v, w = l.split(); cur["edges"].append((u, v, w))
    for b in blocks:
        b["zero"] = (b["n"] == 0)
    return blocks


def write_tmp(lines):
    d = tempfile.mkdtemp(prefix="fpverif-c20-", dir="/var/tmp")
    p = os.path.join(d, "g.graph")
    with open(p, "w") as f:
        f.write("\n".join(lines) + "\n")
    return d, p


def gen_cases(tier, seed):
    n = 260 if tier == "quick" else 20000
    cases = [{"kind": "gen", "rs": f"C20:{seed}:{i}"} for i in range(n)]
    for f in sorted(glob.glob("/repo/tests/*.graph") + glob.glob("/repo/tests/*/*.graph")):
        try:
            if os.path.getsize(f) < 60000:
                cases.append({"kind": "fixture", "file": f})
        except OSError:
            pass
    return cases


BAD_NUM = ["abc", "1.2.3", "--", "1,5", "0x10", "3..", "1e", "five", "nan", "NaN", "inf", "-inf", "1e999"]      # (a weight that is "not a number" or not finite is no numeric weight)


def run_case(case):
    viol = []; obs = collections.Counter()
    if case["kind"] == "fixture":
        blocks = mini_parse(case["file"])
        r = M.safe_call(gu.read_graphs, case["file"])
        if r[0] != "ok":
            # fixture files of the error tests are expected to be rejected; only note it
            obs["c20.fixture_rejected"] += 1
            return {"viol": [], "obs": dict(obs), "nontrivial": False, "sample": {"file": case["file"], "result": r[1:]}}
        graphs = r[1]
        if len(graphs) != len(blocks):
            viol.append({"sig": "C20/block-count", "msg": f"{case['file']}: {len(graphs)} graphs, mini-parser sees {len(blocks)} blocks"})
        else:
            for i, (G, b) in enumerate(zip(graphs, blocks)):
                obs["c20.fixture_blocks"] += 1
                try:
                    compare(G, expected_of(b), viol, obs, f"{os.path.basename(case['file'])}#{i}")
                except ref.RefTimeout:
                    obs["c20.width_ref_timeout"] += 1
        return {"viol": viol[:5], "obs": dict(obs), "nontrivial": len(blocks) > 1, "keys": [case["file"]],
                "sample": {"file": case["file"], "blocks": len(blocks)}}
    if case["kind"] == "corrupt":
        d2, p2 = write_tmp(case["lines"])
        try:
            r2 = M.safe_call(gu.read_graphs, p2)
        finally:
            shutil.rmtree(d2, ignore_errors=True)
        obs["c20.corruptions_judged"] += 1
        kind = case.get("corruption", "?")
        if r2[0] == "ok":
            viol.append({"sig": f"C20/corruption-accepted/{kind}", "msg": f"corrupted line {case.get('line')} was accepted"})
        elif r2[1] != "ValueError":
            viol.append({"sig": f"C20/corruption-wrong-exception/{kind}/{r2[1]}", "msg": f"{r2[1]}: {r2[2]}"})
        return {"viol": viol, "obs": dict(obs), "nontrivial": True}
    rng = gen.rng_for(case["rs"])
    if "lines" in case:
        lines = case["lines"]; blocks = case["blocks"]
    else:
        blocks = [make_block(rng, i) for i in range(rng.randint(1, 6))]
        if rng.random() < 0.3:
            # a 'twin' of an earlier block: same header lines, same node and edge counts, one edge rewired (so possibly another width)
            b0 = rng.choice(blocks)
            if not b0["zero"] and len(b0["edges"]) >= 2:
                t = copy.deepcopy(b0); t["cons"] = []
                ns = sorted({x for u, v, _ in t["edges"] for x in (u, v)}); have = {(u, v) for u, v, _ in t["edges"]}
                for _ in range(20):
                    i = rng.randrange(len(t["edges"])); x, y = rng.choice(ns), rng.choice(ns)
                    rest = [e for j, e in enumerate(t["edges"]) if j != i]
                    if (x, y) not in have and {a for u, v, _ in rest for a in (u, v)} | {x, y} == set(ns):
                        H = nx.DiGraph([(u, v) for u, v, _ in rest] + [(x, y)])
                        try:
                            okw = bool(ref.sources(H)) and bool(ref.sinks(H)) and ref.walk_cover_width(H) is not None
                        except ref.RefTimeout:
                            okw = False
                        if not okw:
                            continue        # keep the twin inside the format's domain: a source, a sink, every edge on a source-to-sink walk
                        t["edges"] = rest[:i] + [(x, y, t["edges"][i][2])] + rest[i:]
                        blocks.insert(rng.randrange(len(blocks) + 1), t); break
        lines = render(rng, blocks)
    d, p = write_tmp(lines)
    try:
        r = M.safe_call(gu.read_graphs, p)
        rep = {"kind": "gen", "rs": case["rs"], "lines": lines, "blocks": blocks}
        if r[0] != "ok":
            viol.append({"sig": f"C20/wellformed-rejected/{r[1]}", "msg": f"{r[2]}", "replay": rep})
        else:
            graphs = r[1]
            if len(graphs) != len(blocks):
                viol.append({"sig": "C20/block-count", "msg": f"{len(graphs)} graphs for {len(blocks)} blocks", "replay": rep})
            else:
                for i, (G, b) in enumerate(zip(graphs, blocks)):
                    compare(G, expected_of(b), viol, obs, f"block {i}")
                for v in viol:
                    v.setdefault("replay", rep)
        # ---- single-line corruptions
        edge_lines = [i for i, l in enumerate(lines) if l.strip() and not l.strip().startswith("#") and len(l.split()) == 3]
        count_lines = [i for i, l in enumerate(lines) if l.strip() and not l.strip().startswith("#") and len(l.split()) == 1]
        cons_lines = [i for i, l in enumerate(lines) if l.strip() and l.split()[0] == "#S"]
        nonzero_block_edge_lines = edge_lines
        corr = []
        for _ in range(4):
            if edge_lines:
                i = rng.choice(edge_lines); t = lines[i].split()
                corr.append(("malformed-edge-2tok", i, " ".join(t[:2])))
                corr.append(("malformed-edge-4tok", i, " ".join(t + ["9"])))
                corr.append(("nonnumeric-weight", i, " ".join(t[:2] + [rng.choice(BAD_NUM)])))
            if count_lines:
                i = rng.choice(count_lines)
                corr.append(("nonnumeric-count", i, rng.choice(BAD_NUM)))
                # ... a count line that starts with the right number but is not a number: 'n x', 'n m', 'n, m'
                corr.append(("nonnumeric-count", i, lines[i].strip() + rng.choice([" x", " 4", ", 4", " #"])))
                if i + 1 < len(lines) and len(lines[i + 1].split()) == 3 and not lines[i + 1].strip().startswith("#"):
                    # ... the count line is lost (blank): the first edge line stands where the count is read
                    corr.append(("count-line-lost", i, ""))
            if cons_lines:
                # the only edge line that carries an edge of a constraint goes missing (blank line): that constraint edge is then missing from the graph
                i = rng.choice(cons_lines); t = lines[i].split()
                if len(t) >= 3:
                    a_ = rng.randrange(1, len(t) - 1); ce = (t[a_], t[a_ + 1])
                    j = i
                    while j < len(lines) and (lines[j].strip().startswith("#") or not lines[j].strip()):
                        j += 1
                    j += 1      # (past the count line)
                    hits = []
                    while j < len(lines) and not lines[j].strip().startswith("#"):
                        tt = lines[j].split()
                        if len(tt) == 3 and (tt[0], tt[1]) == ce:
                            hits.append(j)
                        j += 1
                    if len(hits) == 1:
                        corr.append(("constraint-edge-line-deleted", hits[0], ""))
            if cons_lines:
                i = rng.choice(cons_lines); t = lines[i].split()
                # find which block the line belongs to and whether that block has edges
                corr.append(("constraint-edge-missing", i, lines[i].rstrip() + " zz_absent_node"))
                if len(t) >= 3 and t[0] == "#S":
                    corr.append(("constraint-edge-missing", i, " ".join([t[0], "zz_absent_node"] + t[2:])))       # ... the FIRST node is the absent one
                    if len(t) >= 4:
                        corr.append(("constraint-edge-missing", i, " ".join(t[:2] + ["zz_absent_node"] + t[3:])))   # ... a middle node
            # the first header line of a block loses its '#': the text then is a line outside every block (first block) or a malformed
            # edge line of the previous block - unless it happens to look like an edge line (3 tokens), which is skipped
            firsts = [i for i, l in enumerate(lines) if l.strip().startswith("#") and not l.split()[0] == "#S"
                      and not any(x.strip().startswith("#") for x in ([y for y in lines[:i] if y.strip()][-1:]))]
            firsts = [i for i in firsts if len(lines[i].strip()[1:].split()) != 3 and lines[i].strip()[1:].strip()]
            if firsts:
                i = rng.choice(firsts[:1] + firsts)
                corr.append(("header-lost-hash", i, lines[i].replace("#", "", 1)))
        seen = set()
        for kind, i, new in corr:
            if (kind, i, new) in seen:
                continue
            seen.add((kind, i, new))
            if kind == "constraint-edge-missing":
                # in a zero-vertex block constraints are not checked against edges (nothing to check): skip those
                j = i
                while j < len(lines) and (lines[j].strip().startswith("#") or not lines[j].strip()):
                    j += 1
                if j >= len(lines):
                    continue
            if kind == "nonnumeric-count":
                pass
            L2 = list(lines); L2[i] = new
            d2, p2 = write_tmp(L2)
            try:
                r2 = M.safe_call(gu.read_graphs, p2)
            finally:
                shutil.rmtree(d2, ignore_errors=True)
            obs["c20.corruptions_judged"] += 1
            obs[f"c20.corrupt.{kind}"] += 1
            rep2 = {"kind": "corrupt", "lines": L2, "corruption": kind, "line": i}
            if r2[0] == "ok":
                viol.append({"sig": f"C20/corruption-accepted/{kind}", "msg": f"line {i} -> {new!r} was accepted", "replay": rep2})
            elif r2[1] != "ValueError":
                viol.append({"sig": f"C20/corruption-wrong-exception/{kind}/{r2[1]}", "msg": f"line {i} -> {new!r}: {r2[1]}: {r2[2]}", "replay": rep2})
    finally:
        shutil.rmtree(d, ignore_errors=True)
    txt = "\n".join(lines)
    nontriv = len(blocks) >= 2 or any(b["cons"] for b in blocks)
    return {"viol": viol[:6], "obs": dict(obs), "nontrivial": nontriv, "keys": [hashlib.sha1(txt.encode()).hexdigest()[:14]] if nontriv else [],
            "sample": {"first_lines": lines[:14], "blocks": len(blocks)}}
