"""C02 - flow decompositions explain every non-ignored edge's (node's) flow exactly.
Monitors: get_solution() of kFlowDecomp, MinFlowDecomp, kFlowDecompCycles, MinFlowDecompCycles (+ class-level route monitor,
solver trace to tag the optimisation route). Oracle: per-element recomputation of sum_i w_i * (#traversals)."""
import collections, hashlib
from fpverif import gen, ref, monitors as M, models, instances as I
import flowpaths as fp

LEVEL = "exploration"
RULE = ("case = one of the four flow-decomposition classes on a planted conserving flow (DAG / cyclic, edge / node weighted, int / dyadic float / "
        "decimal float), k in {p, p+1, p+2} for k-models, optional constraints, ignored elements with garbage / missing / zero values, and an "
        "option set selecting the optimisation route (greedy, MILP, given weights / guessed weights, min-gen-set); every solved model's "
        "solution is recomputed element by element. non-trivial = solved with >= 2 routes or a route traversing an element twice; "
        "distinct = (class, graph, flows, options)")
CASE_TIMEOUT = {"quick": 240, "thorough": 900}
REQUIRED_OBS = {"c02.solved_models_judged": 150, "c02.elements_judged": 1000, "c02.route.milp": 30, "c02.route.greedy": 5, "c02.route.given_weights": 5}
ASSUMPTIONS = ["only solved models are judged; float comparison uses |a-b| <= 1e-6*max(1,|a|,|b|)", "'requested type': int => int instances; float => real numbers"]
EXHAUSTIVE = {"quick": False, "thorough": False}

DAG_OO = [{}, {"optimize_with_greedy": False}, {"optimize_with_greedy": False, "optimize_with_flow_safe_paths": False, "optimize_with_safe_paths": True},
          {"optimize_with_greedy": False, "optimize_with_flow_safe_paths": False, "optimize_with_safe_paths": False, "optimize_with_safe_sequences": True},
          {"optimize_with_greedy": False, "optimize_with_safety_as_subpath_constraints": True}]
MFD_OO = DAG_OO + [{"optimize_with_guessed_weights": True, "optimize_with_greedy": False}, {"use_min_gen_set_lowerbound": True},
                   {"optimize_with_guessed_weights": True, "use_min_gen_set_lowerbound": True, "optimize_with_greedy": False}]
CYC_OO = [None, {}, {"optimize_with_safe_sequences": False}, {"optimize_with_safety_as_subset_constraints": True},
          {"optimize_with_max_safe_antichain_as_subset_constraints": True}, {"optimize_with_safe_sequences_fix_via_bounds": True},
          {"optimize_with_safe_sequences_allow_geq_constraints": False}, {"optimize_with_safe_sequences_fix_zero_edges": False}]
MFDC_OO = CYC_OO + [{"optimize_with_guessed_weights": True}, {"use_min_gen_set_lowerbound": True},
                    {"optimize_with_guessed_weights": True, "use_min_gen_set_lowerbound": True, "optimize_with_given_weights_num_free_walks": 1}]


def gen_cases(tier, seed):
    cases = []
    # corpus: int weights requested, only IGNORED edges carry non-integer values, two constraints force two paths through the only trusted edge
    for gv in ((2.5, 8.5), (0.5, 10.5), (3, 8)):
        ce = [("s", "a", 11), ("a", "b", gv[0]), ("b", "t", gv[0]), ("a", "c", gv[1]), ("c", "t", gv[1])]
        sp = gen.spec(["s", "a", "b", "c", "t"], [(u, v) for u, v, _ in ce], eattr={(u, v): {"flow": f} for u, v, f in ce})
        ig = [["a", "b"], ["b", "t"], ["a", "c"], ["c", "t"]]
        for oo in ({"optimize_with_guessed_weights": True}, {}, {"optimize_with_guessed_weights": True, "use_min_gen_set_lowerbound": True}):
            cases.append({"inst": {"cls": "MinFlowDecomp", "spec": sp, "kw": {"flow_attr": "flow", "weight_type": "int", "elements_to_ignore": ig,
                                   "subpath_constraints": [[["a", "b"]], [["a", "c"]]], "optimization_options": dict(oo)}}, "mode": "edge", "planted": 2, "ignore": ig})
            cases.append({"inst": {"cls": "MinFlowDecompCycles", "spec": sp, "kw": {"flow_attr": "flow", "weight_type": "int", "elements_to_ignore": ig,
                                   "subset_constraints": [[["a", "b"]], [["a", "c"]]], "optimization_options": dict(oo)}}, "mode": "edge", "planted": 2, "ignore": ig})
    n = 600 if tier == "quick" else 6000
    for i in range(n):
        rng = gen.rng_for("C02", seed, i)
        cls = rng.choice(["kFlowDecomp", "MinFlowDecomp", "kFlowDecompCycles", "MinFlowDecompCycles"])
        cyc = cls.endswith("Cycles")
        node = rng.random() < 0.3
        wt = rng.choice(["int", "int", "float"])
        if cyc:
            base = I.cyc_node_base(rng, wt=wt) if node else I.cyc_edge_base(rng, wt=wt, max_edges=9)
        else:
            base = I.dag_node_base(rng, wt=wt) if node else I.dag_edge_base(rng, wt=wt)
        if wt == "float" and rng.random() < 0.3 and not cyc:
            # decimal floats (multiples of 0.1): the library may legitimately reject them (exact conservation test); judged only if solved
            base = I.dag_node_base(rng, wt="int") if node else I.dag_edge_base(rng, wt="int")
            base["flow"] = {e: f * 0.1 for e, f in base["flow"].items()}; base["wt"] = "float"
        if cls.startswith("k") and rng.random() < 0.2:
            zs = I.add_zero_elements(rng, base, n=1)       # an element with flow exactly 0 must be explained by 0 as well
            if zs and rng.random() < 0.6 and not cyc:
                z = zs[0]
                base["_zero_cons"] = [[z] if node else [list(z)]]
        if wt == "int" and rng.random() < 0.12:
            # integral flows given as float objects while int weights are requested
            base["flow"] = {e: float(f) for e, f in base["flow"].items()}
        elif wt == "int" and not node and base["planted"] and rng.random() < 0.08:
            # int weights requested for a flow with half-integral values: 0.5 is added along one planted route, so the values stay a conserved
            # flow and their integer parts are one too. No integer-weighted decomposition explains it exactly: a model that reports solved
            # (e.g. because it truncated the values) is caught by the exact comparison below
            route = base["planted"][rng.randrange(len(base["planted"]))][0]
            seen_ = set()
            for e in zip(route, route[1:]):
                if e not in seen_:
                    seen_.add(e); base["flow"][e] = base["flow"][e] + 0.5 * list(zip(route, route[1:])).count(e)
        elif wt == "float" and rng.random() < 0.3:
            # the converse: flow values given as Python ints while float weights (the documented default type) are requested
            if cyc:
                base = I.cyc_node_base(rng, wt="int") if node else I.cyc_edge_base(rng, wt="int", max_edges=9)
            else:
                base = I.dag_node_base(rng, wt="int") if node else I.dag_edge_base(rng, wt="int")
            base["wt"] = "float"
        kw = {"flow_attr": "flow", "weight_type": wt}
        if node:
            kw["flow_attr_origin"] = "node"
        p = len(base["planted"])
        if cls.startswith("k"):
            kw["k"] = p + rng.choice([0, 0, 1, 2])
        oo = rng.choice({"kFlowDecomp": DAG_OO, "MinFlowDecomp": MFD_OO, "kFlowDecompCycles": CYC_OO, "MinFlowDecompCycles": MFDC_OO}[cls])
        if oo is not None:
            kw["optimization_options"] = dict(oo)
        drop = []; garbage = {}
        if base.get("_zero_cons"):
            kw["subpath_constraints"] = gen.jl(base["_zero_cons"])       # forces a route through the zero-flow element (its weight must then be 0)
            if cls.startswith("k"):
                kw["k"] = kw["k"] + 1
        elif rng.random() < 0.3:
            cons = I.constraints_from_planted(rng, base)
            if cons:
                kw["subset_constraints" if cyc else "subpath_constraints"] = gen.jl(cons)
                if rng.random() < 0.3:
                    kw["subset_constraints_coverage" if cyc else "subpath_constraints_coverage"] = rng.choice([0.5, 0.75])
        if rng.random() < 0.3 and (len(base["edges"]) >= 2):
            ign = I.pick_ignore(rng, base, 0.25)
            kw["elements_to_ignore"] = gen.jl(ign)
            for e in ign:
                g = rng.choice(["keep", "garbage", "missing", "zero"])
                if g == "garbage":
                    # (an ignored element may carry any value at all, also a non-integer one while int weights are requested)
                    garbage[e] = rng.choice([41, 2.5, 8.5]) if wt == "int" else 41.5
                elif g == "missing":
                    drop.append(e)
                elif g == "zero":
                    garbage[e] = 0
        if cls == "kFlowDecomp" and rng.random() < 0.15 and "elements_to_ignore" not in kw:
            ws = [w for _, w in base["planted"]]
            kw["solution_weights_superset"] = ws + [rng.choice([1, 2, 3]) if wt == "int" else 0.5]
            kw["k"] = p
        cases.append({"inst": {"cls": cls, "spec": I.spec_of(base, drop_attr=drop, garbage=garbage), "kw": kw}, "mode": base["mode"],
                      "planted": p, "ignore": kw.get("elements_to_ignore", [])})
    return cases


def run_case(case):
    inst = case["inst"]; mode = case["mode"]
    viol = []; obs = collections.Counter()
    M.ROUTES.install(); M.ROUTES.drain(); M.TRACE.install(); M.TRACE.reset()
    res = models.run(inst)
    side = [s for s, _ in M.ROUTES.drain()]
    G = res["G"]; kw = inst["kw"]; wt = kw["weight_type"]
    desc = f"{inst['cls']} mode={mode} {[(u, v, d.get('flow')) for u, v, d in G.edges(data=True)] if mode == 'edge' else [(v, d.get('flow')) for v, d in G.nodes(data=True)]} edges={list(G.edges) if mode == 'node' else ''} kw={ {k: v for k, v in kw.items() if k != 'flow_attr'} }"
    nontriv = False
    if not res.get("solved") or "sol" not in res:
        obs["c02.not_solved_or_rejected"] += 1
        return {"viol": [], "obs": dict(obs), "side": side, "nontrivial": False,
                "sample": {"inst": models.brief(inst), "outcome": res.get("exc") or "unsolved"}}
    sol = res["sol"]
    m = res["model"]
    # which optimisation route produced it
    stats = getattr(m, "solve_statistics", {}) or {}
    route = "greedy" if "greedy_solve_time" in stats else ("given_weights" if (kw.get("solution_weights_superset") is not None or (getattr(m, "_given_weights_model", None) is not None and getattr(m, "fd_model", None) is getattr(m, "_given_weights_model", None))) else "milp")
    obs[f"c02.route.{route}"] += 1
    obs["c02.solved_models_judged"] += 1
    routes = models.routes_of(sol); weights = sol.get("weights")
    if weights is None or len(weights) != len(routes):
        viol.append({"sig": f"C02/weights-missing-or-wrong-length/{inst['cls']}/{route}", "msg": f"weights={weights!r} for {len(routes)} routes; {desc}"})
    else:
        ign = set(models._elem(e) for e in case["ignore"])
        if mode == "edge":
            demand = {(u, v): d["flow"] for u, v, d in G.edges(data=True) if "flow" in d and (u, v) not in ign}
        else:
            demand = {v: d["flow"] for v, d in G.nodes(data=True) if "flow" in d and v not in ign}
        bad_type = [w for w in weights if (wt == "int" and (not isinstance(w, int) or isinstance(w, bool))) or (wt == "float" and not isinstance(w, float))]
        if bad_type:
            viol.append({"sig": f"C02/weight-type/{inst['cls']}/{wt}", "msg": f"weights {weights} for weight_type={wt}; {desc}"})
        else:
            ex = models.explained(sol, mode)
            for el, f in demand.items():
                obs["c02.elements_judged"] += 1
                got = ex.get(el, 0)
                ok = (got == f) if (wt == "int" and isinstance(f, int)) else models.num_close(got, f)
                if not ok:
                    viol.append({"sig": f"C02/flow-not-explained/{inst['cls']}/{mode}/{route}", "msg": f"element {el}: flow {f} but routes explain {got}; solution {sol.get('paths', sol.get('walks'))} weights {weights}; {desc}"})
                    break
        nontriv = len(routes) >= 2 or any(max(models.traversal_counts(r, mode).values(), default=0) > 1 for r in routes)
    key = hashlib.sha1(desc.encode()).hexdigest()[:14]
    return {"viol": viol, "obs": dict(obs), "side": side, "nontrivial": nontriv, "keys": [key] if nontriv else [],
            "sample": {"inst": models.brief(inst), "route": route, "solution": {"routes": routes[:4], "weights": (weights or [])[:4]}}}
