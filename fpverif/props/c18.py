"""C18 - a model's result depends only on its own arguments; caller data is never mutated.
Monitors: ArgGuard (structural snapshots of every caller-side object and of every class's __init__.__defaults__ before/after
construct + solve + getters), results of identical constructions inside a history vs in isolation, repeated solve()/getters."""
import collections, hashlib, copy, inspect
import networkx as nx
from fpverif import gen, ref, monitors as M, models, instances as I
import flowpaths as fp

LEVEL = "exploration"
RULE = ("case = history of 2-4 model constructions (+solve+getters) of one family (DAG or cyclic) SHARING the caller's argument objects: graph, "
        "non-empty optimization_options dict, solver_options dict, constraint list, ignore list, starts/ends lists, error_scaling dict, weights "
        "superset; a second worker group omits solver_options/optimization_options entirely (mutable default arguments). After every step all "
        "caller objects and every model class's __init__ defaults are compared structurally with their snapshot; each model's (solved, objective, "
        "#routes) is compared with the same construction in isolation (fresh copies); solve() and the getters are repeated. "
        "non-trivial = history with >= 2 solved models; distinct = history description")
CASE_TIMEOUT = {"quick": 240, "thorough": 900}
REQUIRED_OBS = {"c18.histories": 100, "c18.steps": 250, "c18.arg_objects_compared": 1500, "c18.isolation_pairs": 200, "c18.idempotence_checks": 200, "c18.default_arg_histories": 10}
ASSUMPTIONS = ["isolation runs use fresh deep copies in the same process; process-global state is watched through the __defaults__ snapshots",
               "one HiGHS thread setting per worker process (threads=1 group / default-options group)"]
EXHAUSTIVE = {"quick": False, "thorough": False}

DAG_FAM = ["kFlowDecomp", "MinFlowDecomp", "kLeastAbsErrors", "kMinPathError", "kPathCover", "MinPathCover"]
CYC_FAM = ["kFlowDecompCycles", "MinFlowDecompCycles", "kLeastAbsErrorsCycles", "kMinPathErrorCycles", "kPathCoverCycles", "MinPathCoverCycles"]
ALLCLS = DAG_FAM + CYC_FAM + ["MinErrorFlow", "MinGenSet", "MinSetCover", "NumPathsOptimization"]
OO_POOL = [{"optimize_with_greedy": False}, {"optimize_with_safe_zero_edges": True}, {"optimize_with_safe_sequences": False}, {"optimize_with_greedy": True},
           {"optimize_with_safe_sequences_fix_zero_edges": True}, {"optimize_with_flow_safe_paths": True}, {"allow_empty_paths": False}, {"allow_empty_walks": False},
           {"use_subgraph_scanning_lowerbound": True}, {"use_min_gen_set_lowerbound": True}, {"optimize_with_guessed_weights": True},
           {"use_subgraph_scanning_lowerbound": True, "optimize_with_greedy": False}, {"optimize_with_safe_sequences_fix_via_bounds": True},
           {"optimize_with_safe_sequences_fix_via_bounds": True, "optimize_with_safe_sequences_fix_zero_edges": True}, {"optimize_with_safety_as_subpath_constraints": True, "optimize_with_safe_paths": True},
           {"external_safe_paths": [], "optimize_with_safety_as_subpath_constraints": True, "optimize_with_safe_sequences": True},
           {"external_safe_paths": [], "optimize_with_safety_as_subpath_constraints": True}]


def gen_cases(tier, seed):
    cases = []
    n = 130 if tier == "quick" else 2200
    for i in range(n):
        rng = gen.rng_for("C18", seed, i)
        cyc = rng.random() < 0.5
        node = rng.random() < 0.3
        ex = rng.random() < 0.65          # noisy weights in the other cases (MinErrorFlow then has something to correct; flow decompositions reject them)
        oo_ = dict(rng.choice(OO_POOL))
        mfd_only = any(k_ in oo_ for k_ in ("use_subgraph_scanning_lowerbound", "use_min_gen_set_lowerbound", "optimize_with_guessed_weights", "optimize_with_flow_safe_paths"))
        if mfd_only:
            cyc = False; ex = True          # options that only MinFlowDecomp reads: make sure it is among the steps, on a flow it accepts
        if "external_safe_paths" in oo_:
            cyc = False                     # (read by the DAG models; constraints are forced below so that there is something to append)
        fam = CYC_FAM if cyc else DAG_FAM
        if node:
            base = I.cyc_node_base(rng, wt="int", max_edges=7, exact=ex) if cyc else I.dag_node_base(rng, wt="int", max_edges=8, exact=ex)
        else:
            base = I.cyc_edge_base(rng, wt="int", max_edges=8, exact=ex) if cyc else I.dag_edge_base(rng, wt="int", max_edges=9, exact=ex)
        steps = [rng.choice(fam + ["MinErrorFlow"]) for _ in range(rng.randint(2, 4))]
        if mfd_only:
            steps[rng.randrange(len(steps) - 1)] = "MinFlowDecomp"; steps[-1] = rng.choice(["MinFlowDecomp", "MinFlowDecomp", steps[-1]])
        dflt = (i % 8 == 0)
        queued = cyc and not dflt and i % 3 == 1
        if queued:
            # a walk model that queues variable-bound updates at construction (fix_via_bounds) stays unsolved while the others are solved
            steps[0] = rng.choice(["kFlowDecompCycles", "kMinPathErrorCycles", "kLeastAbsErrorsCycles", "kPathCoverCycles"])
            steps[1] = rng.choice([c_ for c_ in fam + ["MinErrorFlow", "MinErrorFlow"] if c_ != steps[0]])
        c = {"cyc": cyc, "spec": I.spec_of(base), "steps": steps, "planted": len(base["planted"]), "oo": oo_, "dflt": dflt,
             "group": "dflt" if dflt else "t1", "ignore": [], "cons": [], "scale": [], "superset": None, "share_ignore": rng.random() < 0.5, "node": node,
             "probe_dict": (not node) and cyc and rng.random() < 0.4, "pending": rng.random() < 0.35, "eps": rng.choice([None, None, 0.1, 0.25, 1.0])}
        if queued:
            c["pending"] = True; c["oo"] = {"optimize_with_safe_sequences_fix_via_bounds": True}
        r_np = gen.rng_for("C18np", seed, i)
        if r_np.random() < 0.15 and max([x for x in base["flow"].values() if x is not None] or [0]) <= 200:
            # the caller's graph carries numpy scalars (built from an array): they are the caller's objects too - same values AND same types afterwards
            c["spec"]["np_type"] = r_np.choice(["int64", "uint8", "int32", "uint16", "array0d", "array0d"])
        if (rng.random() < 0.4 or "external_safe_paths" in oo_) and base["planted"]:
            c["cons"] = gen.jl(I.constraints_from_planted(rng, base, n=1))
        elems = base["nodes"] if node else base["edges"]
        if rng.random() < 0.4 and len(elems) >= 3:
            c["ignore"] = gen.jl(I.pick_ignore(rng, base, 0.2))
        if rng.random() < 0.5:
            c["scale"] = [[gen.jl(e) if isinstance(e, tuple) else e, rng.choice([0.5, 1, 0.25, 0, 0])] for e in rng.sample(elems, rng.randint(1, max(1, len(elems) // 3)))]
        if not node and rng.random() < 0.4 and base["edges"]:
            c["trusted"] = [rng.choice(["set", "list"]), gen.jl(rng.sample(base["edges"], rng.randint(1, max(1, len(base["edges"]) // 2))))]
        if not cyc and rng.random() < 0.3:
            c["superset"] = [w for _, w in base["planted"]][:3] + [1]
        cases.append(c)
    for i in range(8 if tier == "quick" else 60):
        # two-phase MinErrorFlow (few_flow_values_epsilon) on noisy weights, solved repeatedly inside a history
        rng = gen.rng_for("C18mef", seed, i)
        cyc_ = rng.random() < 0.4
        base = I.cyc_edge_base(rng, wt="int", max_edges=8, exact=False) if cyc_ else I.dag_edge_base(rng, wt="int", max_edges=9, exact=False)
        cases.append({"cyc": cyc_, "spec": I.spec_of(base), "steps": ["MinErrorFlow", rng.choice(["MinErrorFlow", "kMinPathErrorCycles" if cyc_ else "kMinPathError"]), "MinErrorFlow"], "planted": len(base["planted"]),
                      "oo": {}, "dflt": False, "group": "t1", "ignore": [], "cons": [], "scale": [], "superset": None, "share_ignore": False, "node": False, "probe_dict": False,
                      "pending": False, "eps": rng.choice([0.1, 0.25, 1.0])})
    for i in range(4 if tier == "quick" else 40):
        # flow values given as 0-dimensional numpy arrays (mutable scalars in disguise) to the classes that run the greedy decomposition
        rng = gen.rng_for("C18a0", seed, i)
        base = I.dag_edge_base(rng, wt="int", max_edges=8, exact=True)
        sp_ = I.spec_of(base); sp_["np_type"] = "array0d"
        cases.append({"cyc": False, "spec": sp_, "steps": [rng.choice(["kFlowDecomp", "MinFlowDecomp"]), rng.choice(["MinFlowDecomp", "kFlowDecomp", "kLeastAbsErrors"])], "planted": len(base["planted"]),
                      "oo": {}, "dflt": False, "group": "t1", "ignore": [], "cons": [], "scale": [], "superset": None, "share_ignore": False, "node": False, "probe_dict": False,
                      "pending": False, "eps": None})
    for i in range(30 if tier == "quick" else 300):
        # the SAME graph object (same id label, same size) with other flow values for the second model, or an equal-sized copy of it
        cases.append({"kind": "reflow", "rs": f"C18rf:{seed}:{i}"})
    for i in range(16 if tier == "quick" else 160):
        # the caller goes on using (and editing) its own argument objects after it has constructed the model
        cases.append({"kind": "postedit", "rs": f"C18pe:{seed}:{i}", "force_plr": i % 3 == 2})
    for i in range(12 if tier == "quick" else 150):
        cases.append({"kind": "reflowcyc", "rs": f"C18rfc:{seed}:{i}"})
    for i in range(16 if tier == "quick" else 120):
        # the same search object solved again (or solved for the first time after get_lowerbound_k()) later than its time limit
        cases.append({"kind": "lateresolve", "cls": ["MinFlowDecompCycles", "MinFlowDecomp", "MinPathCover", "MinPathCoverCycles"][i % 4], "rs": f"C18late:{seed}:{i}", "lb_first": (i // 4) % 2 == 1})
    for i in range(6 if tier == "quick" else 60):
        # models of one process that ask for different numbers of solver threads (own worker group: the HiGHS task scheduler is process-wide)
        cases.append({"kind": "threads", "rs": f"C18thr:{seed}:{i}", "group": "mix"})
    return cases


def defaults_snapshot():
    out = {}
    for name in ALLCLS + ["stDAG", "stDiGraph", "NodeExpandedDiGraph", "AbstractPathModelDAG", "AbstractWalkModelDiGraph"]:
        cls = getattr(fp, name)
        out[name] = M.struct([(k, v.default) for k, v in inspect.signature(cls.__init__).parameters.items() if isinstance(v.default, (list, dict, set))])
    return out


def build_args(cls, case, shared, k):
    """kwargs for one step, referencing the SHARED caller objects"""
    cyc = case["cyc"]
    kw = {}
    if cls == "MinErrorFlow":
        kw = {"flow_attr": "flow", "weight_type": int}
        if case.get("node"):
            kw["flow_attr_origin"] = "node"
        if not case["dflt"]:
            kw["solver_options"] = shared["so"]
        if case["ignore"] and case["share_ignore"]:
            kw["elements_to_ignore"] = shared["ign"]
        if case["scale"]:
            kw["error_scaling"] = shared["scale"]
        if case.get("eps") is not None:
            kw["few_flow_values_epsilon"] = case["eps"]          # two-phase solve (the repeated solve() must go through both phases again)
        return kw
    if "Cover" not in cls:
        kw["flow_attr"] = "flow"; kw["weight_type"] = int
        if case.get("node"):
            kw["flow_attr_origin"] = "node"
    elif case.get("node"):
        kw["cover_type"] = "node"
    if cls.startswith("k"):
        kw["k"] = k
    if not case["dflt"]:
        kw["optimization_options"] = shared["oo"]; kw["solver_options"] = shared["so"]
    if case["cons"]:
        kw["subset_constraints" if cyc else "subpath_constraints"] = shared["cons"]
    if case["ignore"] and case["share_ignore"]:
        kw["elements_to_ignore"] = shared["ign"]
    if case["scale"] and cls in ("kLeastAbsErrors", "kMinPathError", "kLeastAbsErrorsCycles", "kMinPathErrorCycles"):
        kw["error_scaling"] = shared["scale"]
    if cls in ("kLeastAbsErrors", "kLeastAbsErrorsCycles") and not case.get("node") and shared.get("trusted") is not None:
        kw["trusted_edges_for_safety"] = shared["trusted"]
    if case["superset"] is not None and cls in ("kLeastAbsErrors", "kMinPathError", "kFlowDecomp") and "elements_to_ignore" not in kw:
        kw["solution_weights_superset"] = shared["superset"]
    if cls in ("kLeastAbsErrors", "kMinPathError", "kPathCover", "MinPathCover", "kLeastAbsErrorsCycles", "kMinPathErrorCycles", "kPathCoverCycles", "MinPathCoverCycles", "kFlowDecompCycles") \
            or (case.get("node") and cls in ("MinFlowDecomp", "MinFlowDecompCycles") and False):
        kw["additional_starts"] = shared["starts"]; kw["additional_ends"] = shared["ends"]
    return kw


def fresh_shared(case):
    return {"G": gen.build(case["spec"]), "oo": dict(case["oo"]), "so": {"threads": 1, "time_limit": 20},
            "cons": [[models._elem(e) for e in c] for c in case["cons"]], "ign": [models._elem(e) for e in case["ignore"]],
            "scale": {models._elem(e): f for e, f in case["scale"]}, "superset": list(case["superset"]) if case["superset"] is not None else None,
            "starts": [], "ends": [],
            "trusted": (None if not case.get("trusted") else (set(map(tuple, case["trusted"][1])) if case["trusted"][0] == "set" else [tuple(e) for e in case["trusted"][1]]))}


def _time_limited(m, kw, dt):
    lim = (kw.get("solver_options") or {}).get("time_limit")
    st = None
    try:
        st = m.solver.get_model_status() if getattr(m, "solver", None) is not None else None
    except BaseException:
        pass
    return st == "kTimeLimit" or bool(lim and dt >= 0.5 * lim)


def outcome(cls, G, kw, idem, viol, obs, tag):
    """construct + solve + getters (+ repeated calls). returns comparable summary"""
    r = M.safe_call(getattr(fp, cls), G, **kw)
    if r[0] != "ok":
        return ("ctor-" + r[1],)
    m = r[1]
    import time as _t0
    t00_ = _t0.perf_counter(); s = M.safe_call(m.solve); dt0_ = _t0.perf_counter() - t00_
    if s[0] != "ok":
        return ("solve-" + s[1],)
    solved = M.safe_call(m.is_solved)
    solved = bool(solved[1]) if solved[0] == "ok" else False
    if not solved:
        if _time_limited(m, kw, dt0_):
            # the run used up the solver's time limit (heavy-tailed MILP, loaded machine): 'not solved' is the correct report for THAT run and
            # says nothing about what another run of the same construction reports
            obs["c18.history_step_time_limited"] += 1
            return ("time-limited",)
        return ("unsolved",)
    g1 = M.safe_call(m.get_solution); o1 = M.safe_call(m.get_objective_value)
    nroutes = None
    if g1[0] == "ok" and isinstance(g1[1], dict) and models.routes_of(g1[1]) is not None:
        nroutes = len(models.routes_of(g1[1]))
    summ = ("solved", round(o1[1], 6) if o1[0] == "ok" and isinstance(o1[1], (int, float)) else str(o1[1:]), nroutes)
    if idem:
        obs["c18.idempotence_checks"] += 1
        # (a call with the other value of the remove_empty_* switch in between must not change what the plain call returns)
        try:
            par_ = [p_ for p_ in inspect.signature(m.get_solution).parameters if p_.startswith("remove_empty")]
        except (TypeError, ValueError):
            par_ = []
        if par_:
            M.safe_call(m.get_solution, **{par_[0]: True}); M.safe_call(m.get_solution, **{par_[0]: False})
            obs["c18.get_solution_variants_interleaved"] += 1
        g2 = M.safe_call(m.get_solution); o2 = M.safe_call(m.get_objective_value)
        if M.struct(g1[1:]) != M.struct(g2[1:]) or o1 != o2:
            viol.append({"sig": f"C18/getters-not-repeatable/{cls}", "msg": f"get_solution()/get_objective_value() differ between two calls; {tag}"})
        import time as _t
        t0_ = _t.perf_counter(); s2 = M.safe_call(m.solve); dt_ = _t.perf_counter() - t0_
        g3 = M.safe_call(m.get_solution); o3 = M.safe_call(m.get_objective_value)
        so3 = M.safe_call(m.is_solved)
        st2 = None
        try:
            st2 = m.solver.get_model_status() if getattr(m, "solver", None) is not None else None
        except BaseException:
            pass
        lim = (kw.get("solver_options") or {}).get("time_limit")
        if so3[1:] != (True,) and (st2 == "kTimeLimit" or (lim and dt_ >= 0.9 * lim)):
            # heavy-tailed MILP: the repeated solve() ran into the solver's time limit (the first one stayed just below it): 'not solved' is the
            # correct report for that run; no verdict on repeatability from this model
            obs["c18.second_solve_time_limited"] += 1
        elif s2 != s or so3[1:] != (True,):
            viol.append({"sig": f"C18/second-solve-differs/{cls}", "msg": f"solve() {s} then {s2}, is_solved {so3}; {tag}"})
        elif o3 != o1 or (cls != "MinErrorFlow" and g3[0] == "ok" and g1[0] == "ok" and g3[1] and g1[1] and len(models.routes_of(g3[1])) != len(models.routes_of(g1[1]))):
            viol.append({"sig": f"C18/second-solve-changes-result/{cls}", "msg": f"objective {o1} -> {o3}; {tag}"})
    return summ


def run_threads(case):
    """the same instance solved by several models whose solver_options differ only in `threads` (1, 2, default, 3 ... in random order):
    every one of them must be solved, with the same objective"""
    viol = []; obs = collections.Counter()
    rng = gen.rng_for(case["rs"])
    cyc = rng.random() < 0.4
    base = I.cyc_edge_base(rng, wt="int", max_edges=7, exact=True) if cyc else I.dag_edge_base(rng, wt="int", max_edges=8, exact=True)
    G = gen.build(I.spec_of(base)); p = max(1, len(base["planted"]))
    cls = rng.choice(["kMinPathErrorCycles", "kLeastAbsErrorsCycles", "MinPathCoverCycles", "MinFlowDecompCycles"] if cyc else ["kMinPathError", "kLeastAbsErrors", "MinPathCover", "MinFlowDecomp", "kFlowDecomp"])
    seq = rng.choice([[1, 2, 1], [2, 1], [None, 1, None], [1, None], [3, 1, 2], [1, 1, 4]])
    outs = []
    for t in seq:
        kw = {} if "Cover" in cls else {"flow_attr": "flow", "weight_type": int}
        if cls.startswith("k"):
            kw["k"] = p
        if cls in ("kFlowDecomp", "MinFlowDecomp"):
            kw["optimization_options"] = {"optimize_with_greedy": False}
        if t is not None:
            kw["solver_options"] = {"threads": t, "time_limit": 20}
        r = M.safe_call(getattr(fp, cls), G, **kw)
        if r[0] != "ok":
            outs.append(("ctor-" + r[1],)); continue
        M.safe_call(r[1].solve)
        solved = bool(r[1].is_solved())
        st = None
        try:
            st = r[1].solver.get_model_status() if getattr(r[1], "solver", None) is not None else None
        except BaseException:
            pass
        outs.append((solved, (round(r[1].get_objective_value(), 6) if solved else None), st))
        obs["c18.thread_history_steps"] += 1
    desc = f"{cls} threads sequence {seq} on edges={[(u, v, d.get('flow')) for u, v, d in G.edges(data=True)]}: {outs}"
    if any(o[-1] == "kTimeLimit" for o in outs):
        return {"viol": [], "obs": {"c18.thread_history_time_limited": 1}, "nontrivial": False}
    if len({o[:2] for o in outs}) > 1:
        viol.append({"sig": f"C18/result-depends-on-history/threads-of-an-earlier-model/{cls}", "msg": desc})
    return {"viol": viol, "obs": dict(obs), "nontrivial": True, "keys": [hashlib.sha1(desc.encode()).hexdigest()[:14]], "sample": {"threads": seq, "cls": cls}}


def run_reflow(case):
    """model A on graph G with flow f1; then the caller overwrites the flow values of the same graph object (or of an equal-sized copy carrying
    the same 'id' label) with f2 and builds model B: B's result must be the one of B on a fresh, unrelated graph object with f2"""
    viol = []; obs = collections.Counter()
    rng = gen.rng_for(case["rs"])
    nodes, edges = gen.dag_any(rng, 10)
    f1, p1 = gen.plant_paths(rng, nodes, edges, npaths=rng.randint(2, 4), maxw=9)
    f2, p2 = gen.plant_paths(rng, nodes, edges, npaths=rng.randint(1, 4), maxw=9)
    if any(v == 0 for v in f1.values()) or any(v == 0 for v in f2.values()) or f1 == f2:
        return {"viol": [], "obs": {"c18.reflow_skipped": 1}, "nontrivial": False}
    cls = rng.choice(["kFlowDecomp", "MinFlowDecomp", "kFlowDecomp", "kLeastAbsErrors", "kMinPathError"])
    oo = rng.choice([None, None, {"optimize_with_greedy": False}, {"optimize_with_safety_as_subpath_constraints": True, "optimize_with_greedy": False}])
    def mk(flow, gid=None):
        G_ = nx.DiGraph()
        if gid is not None:
            G_.graph["id"] = gid
        for e in edges:
            G_.add_edge(*e, flow=flow[e])
        return G_
    def solve(G_, k_):
        kw = {"flow_attr": "flow", "weight_type": int, "solver_options": {"threads": 1, "time_limit": 20}}
        if cls.startswith("k"):
            kw["k"] = k_
        if oo is not None:
            kw["optimization_options"] = dict(oo)
        r = M.safe_call(getattr(fp, cls), G_, **kw)
        if r[0] != "ok":
            return ("ctor-" + r[1],)
        s_ = M.safe_call(r[1].solve)
        if s_[0] != "ok":
            return ("solve-" + s_[1],)
        if not r[1].is_solved():
            return ("unsolved",)
        sol = r[1].get_solution()
        # the decomposition must explain THIS graph's flow (flow models), and the objective / number of paths is compared
        if cls in ("kFlowDecomp", "MinFlowDecomp"):
            got = collections.Counter()
            for p_, w_ in zip(sol["paths"], sol["weights"]):
                for e in zip(p_, p_[1:]):
                    got[e] += w_
            if any(got.get(e, 0) != G_.edges[e]["flow"] for e in G_.edges):
                return ("solved-but-explains-another-flow", len(sol["paths"]))
            return ("solved", len([p_ for p_ in sol["paths"] if p_]) if cls == "MinFlowDecomp" else None)
        return ("solved", round(r[1].get_objective_value(), 6))
    mode = rng.choice(["same-object", "same-id-copy"])
    G = mk(f1, gid="sample-1"); kA = len(p1); kB = len(p2)
    if cls == "MinFlowDecomp" and rng.random() < 0.5:
        if rng.random() < 0.7:
            # a chain of diamonds: first all branch pairs differ (many distinct values, a larger minimum), then all pairs are equal (minimum 2)
            d_ = rng.randint(2, 3); T_ = rng.choice([7, 9, 11]); cuts_ = rng.sample(range(1, (T_ + 1) // 2), d_) if (T_ + 1) // 2 - 1 >= d_ else [1, 2, 3][:d_]
            edges = []; f1 = {}; f2 = {}; x2 = rng.choice(cuts_)
            for j_ in range(d_):
                u_, w_ = f"m{j_}", f"m{j_ + 1}"
                for br_, val1, val2 in (("a", cuts_[j_], x2), ("b", T_ - cuts_[j_], T_ - x2)):
                    for e in ((u_, f"{br_}{j_}"), (f"{br_}{j_}", w_)):
                        edges.append(e); f1[e] = val1; f2[e] = val2
            G = mk(f1, gid="sample-1")
        # the same MODEL object solved again after the caller has overwritten the flow values of its graph: the search runs again on the
        # graph as it is now (its k-models are rebuilt), so the answer must be the one of a fresh model
        kw_ = {"flow_attr": "flow", "weight_type": int, "solver_options": {"threads": 1, "time_limit": 20}}
        if oo is not None:
            kw_["optimization_options"] = dict(oo)
        r_ = M.safe_call(fp.MinFlowDecomp, G, **kw_)
        if r_[0] == "ok":
            M.safe_call(r_[1].solve)
            for e in edges:
                G.edges[e]["flow"] = f2[e]
            M.safe_call(r_[1].solve)
            again = ("solved", len([p_ for p_ in r_[1].get_solution()["paths"] if p_])) if r_[1].is_solved() else ("unsolved",)
            fresh = solve(mk(f2, gid="unrelated"), kB)
            obs["c18.reflow_same_model_resolves"] += 1
            if again != fresh and "time" not in str(fresh):
                viol.append({"sig": "C18/result-depends-on-history/re-solve-after-the-graph-was-updated/MinFlowDecomp", "msg": f"re-solve of the same model: {again}; fresh model on the updated graph: {fresh}; oo={oo} edges={edges} first flow {sorted(f1.items())} second flow {sorted(f2.items())}"[:1200]})
            return {"viol": viol, "obs": dict(obs), "nontrivial": True, "keys": [hashlib.sha1(repr((edges, sorted(f1.items()), sorted(f2.items()))).encode()).hexdigest()[:14]], "sample": {"reflow": "same-model", "cls": cls}}
    a = solve(G, kA)
    if mode == "same-object":
        for e in edges:
            G.edges[e]["flow"] = f2[e]
        GB = G
    else:
        GB = mk(f2, gid="sample-1")
    b = solve(GB, kB)
    iso = solve(mk(f2, gid="unrelated"), kB)
    obs["c18.reflow_histories"] += 1
    desc = f"{cls} oo={oo} {mode}: edges={edges} first flow {sorted(f1.items())} second flow {sorted(f2.items())}; first model {a}"
    if "time" in str(b) or "time" in str(iso):
        return {"viol": [], "obs": dict(obs), "nontrivial": False}
    if b != iso:
        viol.append({"sig": f"C18/result-depends-on-history/same-graph-new-flow/{cls}", "msg": f"second model after the first: {b}; the same model on a fresh graph object: {iso}; {desc}"[:1200]})
    return {"viol": viol, "obs": dict(obs), "nontrivial": True, "keys": [hashlib.sha1(desc.encode()).hexdigest()[:14]], "sample": {"reflow": mode, "cls": cls}}


def run_postedit(case):
    """model constructed with an error_scaling dict / a solution_weights_superset list; the caller then edits ITS objects (they are the caller's data)
    and only afterwards calls solve() and the getters: everything the model reports must be what the same model reports when the caller's
    objects are left alone (isolation run on deep copies)"""
    viol = []; obs = collections.Counter()
    rng = gen.rng_for(case["rs"])
    cyc = rng.random() < 0.35
    base = I.cyc_edge_base(rng, wt="int", max_edges=7, exact=False) if cyc else I.dag_edge_base(rng, wt="int", max_edges=8, exact=False)
    G = gen.build(I.spec_of(base)); edges = list(G.edges)
    cls = rng.choice(["kLeastAbsErrorsCycles", "kMinPathErrorCycles"] if cyc else ["kLeastAbsErrors", "kMinPathError", "kLeastAbsErrors"])
    es = {e: rng.choice([0.5, 0.25, 1]) for e in rng.sample(edges, rng.randint(1, max(1, len(edges) // 2)))}
    sup = None
    if not cyc and rng.random() < 0.5:
        sup = [w for _, w in base["planted"]][:3] + [rng.choice([1, 2])]
    k = max(1, len(base["planted"]))
    plr = None
    if case.get("force_plr") and not cyc:
        cls = "kMinPathError"; sup = None
    if cls == "kMinPathError" and (case.get("force_plr") or gen.rng_for("C18plr", case["rs"]).random() < 0.6):
        plr = ([[0, 3], [4, 60]], [1.0, 0.5])
    def make(es_, sup_, plr_=None):
        kw = {"flow_attr": "flow", "weight_type": int, "k": k, "error_scaling": es_, "solver_options": {"threads": 1, "time_limit": 20}}
        if sup_ is not None:
            kw["solution_weights_superset"] = sup_
        if plr_ is not None:
            kw["path_length_ranges"] = plr_[0]; kw["path_length_factors"] = plr_[1]
        return M.safe_call(getattr(fp, cls), G, **kw)
    def report(m):
        M.safe_call(m.solve)
        if not m.is_solved():
            st_ = None
            try:
                st_ = m.solver.get_model_status()
            except BaseException:
                pass
            return ("unsolved", st_)
        sol = m.get_solution(); v = M.safe_call(m.is_valid_solution)
        return ("solved", (round(m.get_objective_value(), 6), tuple(sorted(sol.keys()))), [list(p_) for p_ in models.routes_of(sol)], list(sol["weights"]), v[1:] if v[0] == "ok" else v[:2])
    es_live = dict(es); sup_live = list(sup) if sup is not None else None
    plr_live = copy.deepcopy(plr)
    a = make(es_live, sup_live, plr_live)
    b = make(copy.deepcopy(es), copy.deepcopy(sup), copy.deepcopy(plr))
    if a[0] != "ok" or b[0] != "ok":
        return {"viol": [], "obs": {"c18.postedit_ctor_failed": 1}, "nontrivial": False}
    # the caller's edits (between construction and solve)
    for e in list(es_live):
        es_live[e] = rng.choice([1, 0.25, 0.5])
    es_live[rng.choice(edges)] = 0.25
    if sup_live is not None:
        for i_ in range(len(sup_live)):
            sup_live[i_] = 1
    if plr_live is not None:
        # (the caller re-uses its range / factor lists for something else)
        plr_live[0][0][1] = 1; plr_live[1][1] = 0.25
        if rng.random() < 0.5:
            plr_live[0].pop(); plr_live[1].pop()
        obs["c18.postedit_path_length_lists_edited"] += 1
    ra = report(a[1]); rb = report(b[1])
    obs["c18.postedit_histories"] += 1
    if "kTimeLimit" in (ra[-1], rb[-1]):
        return {"viol": [], "obs": dict(obs), "nontrivial": False}
    desc = f"{cls} k={k} error_scaling={es} superset={sup} path_length={plr} edges={[(u, v, d.get('flow')) for u, v, d in G.edges(data=True)]}"
    if ra[:2] != rb[:2] or (ra[0] == "solved" and (ra[4] != rb[4] or sorted(map(str, zip(ra[2], ra[3]))) != sorted(map(str, zip(rb[2], rb[3]))) and ra[1] != rb[1])):
        viol.append({"sig": f"C18/result-depends-on-history/caller-edits-its-arguments-after-construction/{cls}", "msg": f"with the caller's later edits: {ra}; untouched arguments: {rb}; {desc}"[:1200]})
    return {"viol": viol, "obs": dict(obs), "nontrivial": True, "keys": [hashlib.sha1(desc.encode()).hexdigest()[:14]], "sample": {"postedit": cls}}


def run_lateresolve(case):
    """a search model with a (short) time limit is solved, the caller does something else for longer than that limit, and solves the SAME object
    again (or asks for the lower bound first and calls solve() later): every solve() has the full limit for itself, so the tiny instance is solved
    both times with the same answer. No verdict if a run really used up its limit."""
    import time as _t
    viol = []; obs = collections.Counter()
    rng = gen.rng_for(case["rs"]); cls = case["cls"]; cyc = cls.endswith("Cycles")
    base = I.cyc_edge_base(rng, wt="int", max_edges=6) if cyc else I.dag_edge_base(rng, wt="int", max_edges=7)
    G = gen.build(I.spec_of(base)); lim = 1.5
    kw = {"solver_options": {"threads": 1, "time_limit": lim}}
    if "FlowDecomp" in cls:
        kw.update(flow_attr="flow", weight_type=int)
        if rng.random() < 0.5:
            kw["optimization_options"] = rng.choice([{"use_min_gen_set_lowerbound": True}, {"optimize_with_guessed_weights": True}, {"optimize_with_greedy": False} if not cyc else {"optimize_with_safe_sequences": False}])
    desc = f"{cls} edges={[(u, v, d.get('flow')) for u, v, d in G.edges(data=True)]} kw={ {k_: v_ for k_, v_ in kw.items() if k_ != 'solver_options'} } time_limit={lim}"
    r = M.safe_call(getattr(fp, cls), G, **kw)
    if r[0] != "ok":
        return {"viol": [], "obs": {"c18.lateresolve_ctor_failed": 1}, "nontrivial": False}
    m = r[1]
    first_lb = case.get("lb_first")
    def one(tagname):
        t0 = _t.perf_counter(); s_ = M.safe_call(m.solve); dt = _t.perf_counter() - t0
        ok = s_[0] == "ok" and M.safe_call(m.is_solved) == ("ok", True)
        return ok, dt, (len(models.routes_of(m.get_solution()) or []) if ok else None), s_
    if first_lb:
        M.safe_call(m.get_lowerbound_k); obs["c18.lateresolve_lowerbound_first"] += 1
    else:
        ok1, dt1, n1, s1 = one("first")
        if not ok1:
            return {"viol": [], "obs": {"c18.lateresolve_first_unsolved": 1}, "nontrivial": False}
    _t.sleep(lim + 0.4)
    ok2, dt2, n2, s2 = one("late")
    obs["c18.lateresolve_pairs"] += 1
    if not ok2:
        if dt2 >= 0.5 * lim:
            obs["c18.lateresolve_time_limited"] += 1
        else:
            viol.append({"sig": f"C18/solve-long-after-" + ("get_lowerbound_k" if first_lb else "an-earlier-solve") + f"-is-unsolved/{cls}",
                         "msg": f"solve() {lim + 0.4:.1f} s after " + ("get_lowerbound_k()" if first_lb else f"a first solve() (solved, {n1} routes)") + f" returned {s2[1:]} after {dt2:.3f} s, is_solved False; {desc}"})
    elif not first_lb and n2 != n1:
        viol.append({"sig": f"C18/second-solve-changes-result/{cls}/late", "msg": f"{n1} routes, later {n2}; {desc}"})
    return {"viol": viol, "obs": dict(obs), "nontrivial": True, "keys": [hashlib.sha1(desc.encode()).hexdigest()[:14]], "sample": {"lateresolve": desc[:300]}}


def run_reflowcyc(case):
    """MinFlowDecompCycles solved, the caller overwrites the flow values of its graph (a walk of weight 1 now goes round a cycle several times),
    the SAME object is solved again: the answer must be the one of a fresh model on the graph as it is now."""
    viol = []; obs = collections.Counter()
    rng = gen.rng_for(case["rs"])
    E = [("s", "a"), ("a", "b"), ("b", "a"), ("b", "t"), ("s", "c"), ("c", "t")]
    if rng.random() < 0.5:
        E += [("b", "d"), ("d", "b")]
    r1 = rng.randint(0, 1); r2 = rng.randint(2, 4); w2 = rng.randint(2, 5)
    def flows(rounds, wside, rounds_d=0):
        f = {("s", "a"): 1, ("a", "b"): 1 + rounds, ("b", "a"): rounds, ("b", "t"): 1, ("s", "c"): wside, ("c", "t"): wside}
        if ("b", "d") in E:
            f[("b", "d")] = rounds_d; f[("d", "b")] = rounds_d
        return f
    f1 = flows(r1, 1, 0); f2 = flows(r2, w2, rng.randint(0, 3))
    oo = rng.choice([{"use_min_gen_set_lowerbound": True}, {"use_min_gen_set_lowerbound": True}, {"use_min_gen_set_lowerbound": True, "optimize_with_guessed_weights": True}, {}])
    def mk(f):
        G = nx.DiGraph()
        for e in E:
            G.add_edge(*e, flow=f[e])
        return G
    kw = {"flow_attr": "flow", "weight_type": int, "optimization_options": dict(oo), "solver_options": {"threads": 1, "time_limit": 20}}
    G = mk(f1)
    r = M.safe_call(fp.MinFlowDecompCycles, G, **kw)
    if r[0] != "ok":
        return {"viol": [], "obs": {"c18.reflowcyc_ctor_failed": 1}, "nontrivial": False}
    m = r[1]; M.safe_call(m.solve)
    for e in E:
        G.edges[e]["flow"] = f2[e]
    def rep(mm):
        import time as _t
        t0 = _t.perf_counter(); s_ = M.safe_call(mm.solve); dt = _t.perf_counter() - t0
        if s_[0] != "ok":
            return ("solve-" + s_[1],)
        if not mm.is_solved():
            return ("time-limited",) if dt >= 10 else ("unsolved",)
        return ("solved", len([w_ for w_ in mm.get_solution()["walks"] if w_]))
    again = rep(m)
    f_ = M.safe_call(fp.MinFlowDecompCycles, mk(f2), **dict(kw, optimization_options=dict(oo)))
    fresh = rep(f_[1]) if f_[0] == "ok" else ("ctor-" + f_[1],)
    obs["c18.reflow_same_model_resolves"] += 1; obs["c18.reflowcyc_pairs"] += 1
    if "time-limited" not in (again[0], fresh[0]) and again != fresh:
        viol.append({"sig": "C18/result-depends-on-history/re-solve-after-the-graph-was-updated/MinFlowDecompCycles",
                     "msg": f"re-solve of the same model: {again}; fresh model on the updated graph: {fresh}; oo={oo} first flow {sorted(f1.items())} second flow {sorted(f2.items())}"[:1200]})
    return {"viol": viol, "obs": dict(obs), "nontrivial": True, "keys": [hashlib.sha1(repr((sorted(f1.items()), sorted(f2.items()), sorted(oo))).encode()).hexdigest()[:14]], "sample": {"reflowcyc": str(oo)}}


def run_case(case):
    if case.get("kind") == "reflowcyc":
        return run_reflowcyc(case)
    if case.get("kind") == "lateresolve":
        return run_lateresolve(case)
    if case.get("kind") == "postedit":
        return run_postedit(case)
    if case.get("kind") == "threads":
        return run_threads(case)
    if case.get("kind") == "reflow":
        return run_reflow(case)
    old = (fp.MinFlowDecomp.subgraph_lowerbound_size, fp.MinFlowDecomp.subgraph_lowerbound_shift)
    fp.MinFlowDecomp.subgraph_lowerbound_size, fp.MinFlowDecomp.subgraph_lowerbound_shift = 3, 2      # the scanning option then acts on small graphs
    try:
        return _run_case(case)
    finally:
        fp.MinFlowDecomp.subgraph_lowerbound_size, fp.MinFlowDecomp.subgraph_lowerbound_shift = old


def _run_case(case):
    viol = []; obs = collections.Counter()
    rng = gen.rng_for("C18run", case["steps"], case["planted"])
    shared = fresh_shared(case)
    snap = {k: M.struct(v) for k, v in shared.items()}
    dsnap = defaults_snapshot()
    p = max(1, case["planted"])
    ks = [p + (i % 2) for i in range(len(case["steps"]))]
    desc = f"{'cyclic' if case['cyc'] else 'DAG'} steps={case['steps']} ks={ks} oo={case['oo']} dflt={case['dflt']} cons={case['cons']} ignore={case['ignore'] if case['share_ignore'] else []} scale={case['scale']} superset={case['superset']} edges={[(u, v, d.get('flow')) for u, v, d in shared['G'].edges(data=True)]}"
    obs["c18.histories"] += 1
    if case["dflt"]:
        obs["c18.default_arg_histories"] += 1
    hist = []
    # a model that is constructed BEFORE the history and solved only AFTER it (other models are built and solved in between):
    # its result, and theirs, must be the same as in isolation
    pending = None
    if case.get("pending"):
        pcls = case["steps"][0]
        pkw = build_args(pcls, case, shared, ks[0])
        r = M.safe_call(getattr(fp, pcls), shared["G"], **pkw)
        if r[0] == "ok":
            pending = (pcls, r[1]); obs["c18.pending_models"] += 1
    for i, cls in enumerate(case["steps"]):
        if pending is not None and i == 0:
            hist.append(None); continue      # step 0 IS the pending model: built above, solved after the other steps
        kw = build_args(cls, case, shared, ks[i])
        obs["c18.steps"] += 1
        res = outcome(cls, shared["G"], kw, True, viol, obs, f"step {i} {cls}; {desc}")
        hist.append(res)
        for name, obj in shared.items():
            obs["c18.arg_objects_compared"] += 1
            if M.struct(obj) != snap[name]:
                what = {"trusted": "trusted_edges_for_safety", "G": "graph", "oo": "optimization_options", "so": "solver_options", "cons": "constraints", "ign": "elements_to_ignore", "scale": "error_scaling",
                        "superset": "solution_weights_superset", "starts": "additional_starts", "ends": "additional_ends"}[name]
                before = snap[name]; after = M.struct(obj)
                viol.append({"sig": f"C18/caller-object-mutated/{what}/{cls}", "msg": f"{what} changed by step {i} ({cls}): before {str(before)[:200]} after {str(after)[:300]}; {desc}"})
                snap[name] = after      # report each mutation once, keep going
        d2 = defaults_snapshot()
        obs["c18.arg_objects_compared"] += len(d2)
        for cname in d2:
            if d2[cname] != dsnap[cname]:
                viol.append({"sig": f"C18/mutable-default-argument-changed/{cname}", "msg": f"{cname}.__init__ defaults changed during step {i} ({cls}): {str(dsnap[cname])[:150]} -> {str(d2[cname])[:200]}; {desc}"})
                dsnap[cname] = d2[cname]
    if case.get("probe_dict"):
        import flowpaths.abstractwalkmodeldigraph as awm
        class Probe(awm.AbstractWalkModelDiGraph):
            def get_solution(self): return None
            def get_lowerbound_k(self): return 1
            def is_valid_solution(self): return True
            def get_objective_value(self): return None
        st = fp.stDiGraph(shared["G"])
        d = {e: 3 for e in st.edges}; before = dict(d)
        r = M.safe_call(Probe, st, 2, max_edge_repetition_dict=d, optimization_options={"optimize_with_safe_sequences": False}, solver_options={"threads": 1})
        obs["c18.arg_objects_compared"] += 1; obs["c18.probe_dict_checks"] += 1
        if d != before:
            viol.append({"sig": "C18/caller-object-mutated/max_edge_repetition_dict/AbstractWalkModelDiGraph", "msg": f"caller-owned max_edge_repetition_dict changed: {[(e, before[e], d[e]) for e in d if d[e] != before[e]][:4]}; {desc}"})
    # the documented extension point: a minimal user subclass of the abstract base class that relies on the default arguments
    # (docs/abstract-path-model.md); building and solving it must not change the base class's default argument objects
    try:
        if case["cyc"]:
            import flowpaths.abstractwalkmodeldigraph as awm
            class _UserWalkModel(awm.AbstractWalkModelDiGraph):
                def __init__(self, G):
                    super().__init__(G=G, k=1, max_edge_repetition=2)
                    self.create_solver_and_walks()
                def get_solution(self): return None
                def get_lowerbound_k(self): return 1
                def is_valid_solution(self): return True
                def get_objective_value(self): return None
            um = M.safe_call(_UserWalkModel, fp.stDiGraph(shared["G"]))
        else:
            import flowpaths.abstractpathmodeldag as apm
            class _UserPathModel(apm.AbstractPathModelDAG):
                def __init__(self, G):
                    super().__init__(G=G, k=1)
                    self.create_solver_and_paths()
                def get_solution(self): return None
                def get_lowerbound_k(self): return 1
                def is_valid_solution(self): return True
                def get_objective_value(self): return None
            um = M.safe_call(_UserPathModel, fp.stDAG(shared["G"]))
        if um[0] == "ok":
            M.safe_call(um[1].solve)
            obs["c18.user_subclass_probes"] += 1
        d3 = defaults_snapshot()
        for cname in d3:
            if d3[cname] != dsnap[cname]:
                viol.append({"sig": f"C18/mutable-default-argument-changed/{cname}/user-subclass", "msg": f"{cname}.__init__ defaults changed by a minimal user subclass built with default arguments: {str(dsnap[cname])[:150]} -> {str(d3[cname])[:250]}"})
                dsnap[cname] = d3[cname]
    except Exception:
        obs["c18.user_subclass_probe_failed"] += 1
    if pending is not None:
        pcls, pm = pending
        import time as _t1
        t01_ = _t1.perf_counter(); s_ = M.safe_call(pm.solve); dt1_ = _t1.perf_counter() - t01_
        if s_[0] != "ok":
            pres = ("solve-" + s_[1],)
        elif not pm.is_solved():
            pres = ("time-limited",) if _time_limited(pm, {"solver_options": shared["so"]}, dt1_) else ("unsolved",)
        else:
            g1 = M.safe_call(pm.get_solution); o1 = M.safe_call(pm.get_objective_value)
            nroutes = len(models.routes_of(g1[1])) if g1[0] == "ok" and isinstance(g1[1], dict) and models.routes_of(g1[1]) is not None else None
            pres = ("solved", round(o1[1], 6) if o1[0] == "ok" and isinstance(o1[1], (int, float)) else str(o1[1:]), nroutes)
        hist[0] = pres
    # isolation: the same constructions with fresh copies and no history
    for i, cls in enumerate(case["steps"]):
        fs = fresh_shared(case)
        kw = build_args(cls, case, fs, ks[i])
        iso = outcome(cls, fs["G"], kw, False, viol, obs, "")
        obs["c18.isolation_pairs"] += 1
        if "time-limited" in (iso[0], (hist[i] or ("",))[0]):
            obs["c18.isolation_pairs_without_verdict_time_limit"] += 1
        elif iso != hist[i]:
            viol.append({"sig": f"C18/result-depends-on-history/{cls}" + ("/default-args" if case["dflt"] else "") + ("/constructed-first-solved-last" if (pending is not None and i == 0) else ("/while-another-model-is-pending" if pending is not None else "")),
                         "msg": f"step {i} ({cls}, k={ks[i]}) in the history gives {hist[i]} but {iso} in isolation; steps {case['steps']}" + (" (step 0 constructed first, solved last)" if pending is not None else "") + f"; {desc}"})
    seen = set(); out = []
    for v in viol:
        if v["sig"] not in seen:
            seen.add(v["sig"]); out.append(v)
    nontriv = sum(1 for h in hist if h and h[0] == "solved") >= 2
    return {"viol": out[:8], "obs": dict(obs), "nontrivial": nontriv, "keys": [hashlib.sha1(desc.encode()).hexdigest()[:14]] if nontriv else [],
            "sample": {"desc": desc[:600], "history_results": [str(h) for h in hist]}}
