"""C08 - k-Minimum-Path-Error is feasible for k >= width and minimises total slack.
Monitors: solve(), get_solution() (paths/walks, weights, slacks, scaled_slacks), get_objective_value(), model.k for k=None.
Oracles: reference covering number (z3 set cover), per-edge slack inequality recomputed from the returned routes, exact z3
optimum over all source-to-sink paths (DAG, exhaustive), bounded witness + DAG/cyclic differential (cyclic)."""
import collections, hashlib, fractions
from fpverif import gen, ref, monitors as M, models, instances as I
import flowpaths as fp

LEVEL = "exploration"
RULE = ("case = DAG (kMinPathError, also run through kMinPathErrorCycles as differential) or cyclic digraph with non-negative, not all zero weights "
        "(int / dyadic float incl. values < 1), k = reference covering number + {0,1} or None, optional ignore list, error scaling, additional "
        "starts/ends, solution_weights_superset, path-length factors (int weights), node-weighted variants. Judged: solved for k >= width, "
        "model.k = width for k=None, per-edge slack inequality, objective = sum of slacks = z3 optimum (DAG) / not worse than the bounded "
        "witness (cyclic). non-trivial = optimum > 0 or >= 2 routes; distinct = full input")
CASE_TIMEOUT = {"quick": 150, "thorough": 600}
REQUIRED_OBS = {"c08.solved_judged": 120, "c08.dag_optimum_compared": 60, "c08.cyc_witness_compared": 30, "c08.k_none_cases": 10, "c08.differential_pairs": 30}
ASSUMPTIONS = ["k-MPE MILPs are heavy-tailed: graphs <= 8 edges, k <= 4; a solve that hits the 10 s solver limit yields no verdict",
               "cyclic optimality is a witness comparison (multiplicities <= 3)"]
EXHAUSTIVE = {"quick": False, "thorough": False}
SO = {"threads": 1, "time_limit": 10}


def gen_cases(tier, seed):
    cases = []
    # corpus: long paths whose slack is scaled DOWN by a path-length factor < 1 (the slack itself must be allowed to exceed the largest weight)
    for fl in ([1, 1, 0, 0], [2, 2, 2, 0, 0], [3, 0, 0, 0]):
        nodes = [str(i) for i in range(len(fl) + 1)]; edges = list(zip(nodes, nodes[1:]))
        base = {"nodes": nodes, "edges": edges, "flow": dict(zip(edges, fl)), "planted": [], "wt": "int", "mode": "edge"}
        cases.append({"cyc": False, "mode": "edge", "wt": "int", "kdelta": 0, "knone": False, "ignore": [], "scale": [], "starts": [], "ends": [], "superset": None,
                      "plr": [[[0, 3], [4, 60]], [1.0, 0.5]], "spec": I.spec_of(base)})
    # ... by factors below 1/2 (the integer slack then needs more bits than its scaled value)
    for fl in ([1, 9], [2, 2, 7], [5, 0, 0], [4, 10]):
        nodes = [str(i) for i in range(len(fl) + 1)]; edges = list(zip(nodes, nodes[1:]))
        base = {"nodes": nodes, "edges": edges, "flow": dict(zip(edges, fl)), "planted": [], "wt": "int", "mode": "edge"}
        for plr_ in ([[[0, 10]], [0.25]], [[[0, 3], [4, 60]], [1.0, 0.25]], [[[0, 60]], [0.1]], [[[0, 1], [2, 100]], [0, 0.25]]):
            cases.append({"cyc": False, "mode": "edge", "wt": "int", "kdelta": 0, "knone": False, "ignore": [], "scale": [], "starts": [], "ends": [], "superset": None,
                          "plr": plr_, "spec": I.spec_of(base)})
    # ... and scaled UP by a factor > 1 (the ranges and factors of the class docstring's own example)
    for fl in ([3, 0], [1, 0], [1, 0, 1], [5, 2, 0, 4]):
        nodes = [str(i) for i in range(len(fl) + 1)]; edges = list(zip(nodes, nodes[1:]))
        base = {"nodes": nodes, "edges": edges, "flow": dict(zip(edges, fl)), "planted": [], "wt": "int", "mode": "edge"}
        cases.append({"cyc": False, "mode": "edge", "wt": "int", "kdelta": 0, "knone": False, "ignore": [], "scale": [], "starts": [], "ends": [], "superset": None,
                      "plr": [[[0, 15], [16, 18], [19, 20], [21, 30], [31, 100000]], [1.6, 1.0, 1.3, 1.7, 1.0]], "spec": I.spec_of(base)})
    # ... with an explicit length attribute (incl. zero-length edges and edges without a length): a path through EVERY edge is as long as the
    # whole graph plus the two connecting edges, and a zero-length shortcut leaves the long way round just as long
    for fl, ln, extra_ in (([3, 3, 3], [1, 2, 1], []), ([2, 2], [1, None], []), ([4, 4, 4, 4], [2, 0, 3, 1], []), ([5, 5, 5], [1, 1, 1], [("0", "2", 0)]), ([2, 2, 2, 2], [1, 1, 1, 1], [("1", "3", 0), ("0", "2", 0)])):
        nodes = [str(i) for i in range(len(fl) + 1)]; edges = list(zip(nodes, nodes[1:]))
        flow_ = dict(zip(edges, fl)); la_ = {e: {"len": l} for e, l in zip(edges, ln) if l is not None}
        for u_, v_, l_ in extra_:
            edges.append((u_, v_)); flow_[(u_, v_)] = 0; la_[(u_, v_)] = {"len": l_}
        base = {"nodes": nodes, "edges": edges, "flow": flow_, "planted": [], "wt": "int", "mode": "edge"}
        for plr_ in ([[[0, 3], [4, 60]], [1.0, 0.5]], [[[0, 60]], [1.0]], None):
            for kd_ in (0, 1):
                cases.append({"cyc": False, "mode": "edge", "wt": "int", "kdelta": kd_, "knone": False, "ignore": [], "scale": [], "starts": [], "ends": [], "superset": None,
                              "plr": plr_, "lenattr": True, "spec": I.spec_of(base, extra_eattr=la_)})
    # corpus 'hourglass': every allowed weight exceeds every flow value and all paths share a zero-flow waist edge, so the error / slack on
    # the waist reaches the SUM of the allowed weights
    for f_, wst in ((9, 0), (4, 1), (7, 0)):
        hn = ["a1", "a2", "m", "n", "b1", "b2"]; he = [("a1", "m"), ("a2", "m"), ("m", "n"), ("n", "b1"), ("n", "b2")]
        hf = {("a1", "m"): f_, ("a2", "m"): f_, ("m", "n"): wst, ("n", "b1"): f_, ("n", "b2"): f_}
        for wt_ in ("int", "float"):
            hb = {"nodes": hn, "edges": he, "flow": {e: (float(v) if wt_ == "float" else v) for e, v in hf.items()}, "planted": [], "wt": wt_, "mode": "edge"}
            sup_ = [f_ + 1, f_ + 1] if wt_ == "int" else [f_ + 1.0, f_ + 1.0]
            cases.append({"cyc": False, "mode": "edge", "wt": wt_, "kdelta": 0, "knone": False, "ignore": [], "scale": [], "starts": [], "ends": [], "superset": sup_, "plr": None,
                          "spec": I.spec_of(hb), "exact_superset": True})
    # corpus: integer weights asked for fractional data (weights are only required to be non-negative)
    for fl in ([0.5, 0.75], [7.9, 7.9], [2.5, 0.25, 2.5]):
        nodes = [str(i) for i in range(len(fl) + 1)]; edges = list(zip(nodes, nodes[1:]))
        base = {"nodes": nodes, "edges": edges, "flow": dict(zip(edges, fl)), "planted": [], "wt": "int", "mode": "edge"}
        for cyc_ in (False, True):
            cases.append({"cyc": cyc_, "mode": "edge", "wt": "int", "kdelta": 0, "knone": False, "ignore": [], "scale": [], "starts": [], "ends": [], "superset": None,
                          "plr": None, "spec": I.spec_of(base)})
    # family 'dip': a chain (plus a by-pass) on which some edges carry less than their neighbours and are scaled down: at the optimum they are
    # OVER-explained (sum of weights > flow), the side of the absolute value that plain under-explained instances never exercise
    for i in range(14 if tier == "quick" else 160):
        rng = gen.rng_for("C08dip", seed, i)
        L = rng.randint(3, 5); nodes = [f"c{j}" for j in range(L + 1)]; edges = list(zip(nodes, nodes[1:]))
        hi = rng.randint(6, 12); flow = {e: hi for e in edges}
        dips = rng.sample(edges, rng.randint(1, 2))
        for e in dips:
            flow[e] = rng.randint(0, hi - 3)
        if rng.random() < 0.4:
            nodes.append("y"); a, b = sorted(rng.sample(range(L + 1), 2)); edges += [(nodes[a], "y"), ("y", nodes[b])]; flow[(nodes[a], "y")] = flow[("y", nodes[b])] = rng.randint(1, 4)
        wt_ = rng.choice(["int", "float"])
        base = {"nodes": nodes, "edges": edges, "flow": {e: (float(f) if wt_ == "float" else f) for e, f in flow.items()}, "planted": [], "wt": wt_, "mode": "edge"}
        cases.append({"cyc": rng.random() < 0.25, "mode": "edge", "wt": wt_, "kdelta": rng.choice([0, 0, 1]), "knone": False, "ignore": [],
                      "scale": [[gen.jl(e), rng.choice([0.25, 0.5, 0.5, 0.75])] for e in dips], "starts": [], "ends": [], "superset": None, "plr": None, "spec": I.spec_of(base)})
    n = 260 if tier == "quick" else 3000
    for i in range(n):
        rng = gen.rng_for("C08", seed, i)
        cyc = rng.random() < 0.4
        node = rng.random() < 0.2
        wt = rng.choice(["int", "int", "float"])
        exact = rng.random() < 0.25
        if cyc:
            base = I.cyc_node_base(rng, wt=wt, exact=exact, max_edges=6) if node else I.cyc_edge_base(rng, wt=wt, exact=exact, max_edges=7, maxw=2, maxlen=6)
        else:
            base = I.dag_node_base(rng, wt=wt, exact=exact, max_edges=7) if node else I.dag_edge_base(rng, wt=wt, exact=exact, max_edges=8)
        bundle = None
        if cyc and not node and rng.random() < 0.12:
            # a bundle of parallel inter-SCC edges, one of them ignored, k chosen by the model (width with ignored edges)
            base = I.cyc_edge_base(rng, wt=wt, exact=exact, max_edges=11, maxw=2, maxlen=8, shape=gen.cyc_bundle)
            comp = ref.scc_map(gen.build(I.spec_of(base)))
            bundle = [e for e in base["edges"] if comp[e[0]] != comp[e[1]] and sum(1 for f in base["edges"] if (comp[f[0]], comp[f[1]]) == (comp[e[0]], comp[e[1]])) >= 3]
        if wt == "float" and rng.random() < 0.3:
            base["flow"] = {e: f / 4 for e, f in base["flow"].items()}      # values < 1
        if rng.random() < 0.2:
            I.add_zero_elements(rng, base, n=rng.randint(1, 2))      # weights are only required to be non-negative
        if wt == "int" and rng.random() < 0.06:
            # integer weights and slacks asked for fractional data
            for e in list(base["flow"]):
                if rng.random() < 0.6:
                    base["flow"][e] = base["flow"][e] + rng.choice([0.5, 0.25, 0.75, 0.9])
        elems = base["nodes"] if node else base["edges"]
        c = {"cyc": cyc, "mode": base["mode"], "wt": wt, "kdelta": rng.choice([0, 0, 1]), "knone": rng.random() < 0.12, "ignore": [], "scale": [], "starts": [], "ends": [],
             "superset": None, "plr": None}
        if rng.random() < 0.25 and len(elems) >= 2:
            c["ignore"] = gen.jl(I.pick_ignore(rng, base, 0.3))
        if bundle:
            c["ignore"] = gen.jl(rng.sample(bundle, rng.randint(1, 2))); c["knone"] = rng.random() < 0.8
        if rng.random() < 0.25 and not bundle:
            c["scale"] = [[gen.jl(e) if isinstance(e, tuple) else e, rng.choice([0, 0.25, 0.5, 1])] for e in rng.sample(elems, rng.randint(1, max(1, len(elems) // 2)))]
        if rng.random() < 0.2 and len(base["nodes"]) >= 3:
            inner = I.inner_nodes(base) or base["nodes"]
            if rng.random() < 0.7:
                c["starts"] = [rng.choice(inner)]
            if rng.random() < 0.7:
                c["ends"] = [rng.choice(inner)]
        if not cyc and rng.random() < 0.12 and not c["knone"]:
            ws = [w for _, w in base["planted"]][:3] or [1]
            c["superset"] = ws + [rng.choice([1, 2]) if wt == "int" else 0.5]
            if rng.random() < 0.35:
                # every allowed weight exceeds every flow value: the errors (slacks) pile up beyond the largest flow
                mx = max(base["flow"].values()) or 1
                c["superset"] = [(int(-(-mx // 1)) + rng.choice([1, 2])) if wt == "int" else float(mx + 0.5)] * rng.randint(1, 3)      # (given weights of the requested type: whole numbers for int)
        if not cyc and wt == "int" and rng.random() < 0.15 and c["superset"] is None and not node:
            c["plr"] = rng.choice([[[[0, 3], [4, 60]], [1.0, 0.5]], [[[0, 3], [4, 60]], [1.6, 1.0]], [[[0, 2], [3, 4], [5, 60]], [1.0, 1.7, 0.5]],
                                   [[[0, 60]], [0.25]], [[[0, 3], [4, 60]], [0.4, 0.3]], [[[0, 3], [4, 60]], [0.2, 1.0]]])
        drop = [e for e in [models._elem(x) for x in c["ignore"]] if rng.random() < 0.3]
        la_ = None
        if not cyc and not node and (c.get("plr") or gen.rng_for("C08len", seed, len(cases)).random() < 0.08):
            r3 = gen.rng_for("C08len2", seed, len(cases))
            if r3.random() < 0.6:
                # lengths named by length_attr (whole numbers incl. 0; an edge without one has length 1)
                la_ = {e: {"len": r3.choice([0, 1, 1, 2, 3])} for e in base["edges"] if r3.random() < 0.8}; c["lenattr"] = True
        c["spec"] = I.spec_of(base, drop_attr=drop, extra_eattr=la_)
        cases.append(c)
    # given weights TOGETHER with path-length factors (the given-weights encoding has its own slack bound, w_max / smallest positive factor): allowed
    # weights far below the flow, so that a route in the small-factor length range needs a slack of (flow - weight) / factor, well above w_max / largest
    # factor (seed C08-l). Appended after the random cases so that those keep their numbering; own random stream.
    def _blank(spec, sup, plr, exact=True):
        return {"cyc": False, "mode": "edge", "wt": "int", "kdelta": 0, "knone": False, "ignore": [], "scale": [], "starts": [], "ends": [], "superset": sup,
                "plr": plr, "spec": spec, "exact_superset": exact}
    for f_ in (10, 7):
        pb = {"nodes": ["s", "a", "t"], "edges": [("s", "a"), ("a", "t")], "flow": {("s", "a"): f_, ("a", "t"): f_}, "planted": [], "wt": "int", "mode": "edge"}
        for plr_ in ([[[0, 5], [6, 100]], [0.1, 0.9]], [[[0, 5], [6, 100]], [0.9, 0.1]], [[[0, 1], [2, 100]], [1.5, 0.2]]):
            cases.append(_blank(I.spec_of(pb), [1], plr_))
        lb_ = {"nodes": ["s", "a", "b", "c", "t"], "edges": [("s", "t"), ("s", "a"), ("a", "b"), ("b", "c"), ("c", "t")],
               "flow": {("s", "t"): f_, ("s", "a"): f_, ("a", "b"): f_, ("b", "c"): f_, ("c", "t"): f_}, "planted": [], "wt": "int", "mode": "edge"}
        for plr_ in ([[[0, 2], [3, 100]], [0.9, 0.1]], [[[0, 2], [3, 100]], [0.1, 0.9]], [[[0, 2], [3, 100]], [0.25, 2.0]]):
            cases.append(_blank(I.spec_of(lb_), [1, 2], plr_))
    r4 = gen.rng_for("C08supplr", seed)
    for i in range(12 if tier == "quick" else 60):
        base = I.dag_edge_base(r4, wt="int", max_edges=8, exact=r4.random() < 0.5)
        if not any(base["flow"].values()):
            continue
        fa, fb = r4.choice([(0.1, 0.9), (0.9, 0.1), (0.2, 1.0), (1.5, 0.25), (0.5, 0.3)])
        hi_ = r4.choice([1, 2, 3])          # (contiguous ranges: a length without a factor is not a documented input)
        cases.append(_blank(I.spec_of(base), [r4.choice([1, 1, 2])], [[[0, hi_], [hi_ + 1, 60]], [fa, fb]], exact=False))
    return cases


def build_kw(case, k):
    kw = {"flow_attr": "flow", "weight_type": case["wt"], "k": k}
    if case["mode"] == "node":
        kw["flow_attr_origin"] = "node"
    if case["ignore"]:
        kw["elements_to_ignore"] = case["ignore"]
    if case["scale"]:
        kw["error_scaling"] = case["scale"]
        h_ = int(hashlib.sha1(repr(case["scale"]).encode()).hexdigest(), 16)
        if h_ % 5 == 0:
            # the same factors (0, 1/4, 1/2, 3/4, 1: exact in every float type) as numpy scalars or fractions
            kw["error_scaling_number_type"] = ["float32", "Fraction", "float16", "float64"][(h_ // 5) % 4]
    if case["starts"]:
        kw["additional_starts"] = case["starts"]
    if case["ends"]:
        kw["additional_ends"] = case["ends"]
    if case["superset"] is not None:
        kw["solution_weights_superset"] = case["superset"]
    if case.get("plr"):
        kw["path_length_ranges"] = case["plr"][0]; kw["path_length_factors"] = case["plr"][1]
    if case.get("lenattr"):
        kw["length_attr"] = "len"
    if case.get("tpct") is not None and case["cyc"]:
        kw["trusted_edges_for_safety_percentile"] = case["tpct"]
    return kw


def st_sets(G, starts, ends):
    return list(dict.fromkeys(ref.sources(G) + list(starts))), list(dict.fromkeys(ref.sinks(G) + list(ends)))


def columns(G, mode, cyc, starts, ends, B=3):
    S, T = st_sets(G, starts, ends)
    if not cyc:
        P = ref.st_paths(G, S, T)
        # length of a path = lengths of its edges (attribute 'len' where the case names it as length_attr, default 1) + the two connecting edges of length 1
        return ([collections.Counter(p) if mode == "node" else collections.Counter(ref.path_edges(p)) for p in P],
                [(len(p) + 1) if mode == "node" else sum(G.edges[e].get("len", 1) for e in ref.path_edges(p)) + 2 for p in P])
    comp = ref.scc_map(G)
    cap = {e: (1 if comp[e[0]] != comp[e[1]] else B) for e in G.edges}
    edges, vecs = ref.walk_vectors(G, S, T, cap, limit=3000)
    cols = []
    for v in vecs:
        if mode == "node":
            cnt = collections.Counter(); cnt[v["start"]] += 1
            for (a, b), m in v["x"].items():
                cnt[b] += m
            cols.append(dict(cnt))
        elif v["x"]:
            cols.append(dict(v["x"]))
    return cols, None


def classify_mechanism(solve, cols, m, mode, lib_value, cols_fn=None):
    """Is the library optimal under (a) its per-edge multiplicity caps (largest reachable weight), (b) its bound w_max on every
    product multiplicity*weight, (c) both? Returns a mechanism suffix or None. Used only to key known findings by mechanism.
    The restricted problems are solved over columns with multiplicities up to the library's own largest cap (cols_fn(B)),
    because the library's restricted optimum may use larger multiplicities than the witness search did."""
    caps = getattr(m, "edge_upper_bounds", None) or {}
    wmax = getattr(m, "w_max", None)
    def cap_of(el):
        key = (el + ".0", el + ".1") if mode == "node" else el
        c = caps.get(key)
        return None if c is None else int(c + 1e-9)
    if cols_fn is not None:
        try:
            big = int(max([c for c in caps.values() if isinstance(c, (int, float))] + [3]) + 1e-9)
            cols = cols_fn(max(3, min(big, 7)))
        except ref.RefTimeout:
            pass
    capped_cols = [c for c in cols if all(cap_of(el) is None or mult <= cap_of(el) for el, mult in c.items())]
    for name, cc, pc in (("/edge-cap-max-reachable-weight", capped_cols, None), ("/product-bound-w_max", cols, wmax), ("/edge-cap+product-bound", capped_cols, wmax)):
        if pc is None and len(cc) == len(cols):
            continue
        try:
            v = solve(cc, pc)
        except ref.RefTimeout:
            continue
        if v is not None and models.num_close(float(v), lib_value):
            return name
    return None


def run_one(cls, case, k, viol, obs, desc, tagstr, expect_solved=True, classify=None):
    M.TRACE.reset()
    kw_ = build_kw(case, k)
    if cls.endswith("Cycles"):
        kw_.pop("length_attr", None)       # (the walk model has no path lengths; without length factors the lengths play no part in the DAG model either)
    res = models.run({"cls": cls, "spec": case["spec"], "kw": kw_}, solver_options=SO)
    if any(t.get("status") == "kTimeLimit" for t in M.TRACE.trace):
        obs["c08.time_limited"] += 1
        return None
    if "exc" in res:
        viol.append({"sig": f"C08/{cls}/{res['stage']}-raises/{res['exc'][0]}{tagstr}", "msg": f"{res['exc']}; k={k}; {desc}"})
        return None
    if not res["solved"]:
        if expect_solved:
            mech = tagstr
            if classify is not None:
                mech = classify(res.get("model")) or tagstr
            viol.append({"sig": f"C08/{cls}/unsolved-for-k>=width{mech}", "msg": f"k={k} (model k={getattr(res.get('model'), 'k', None)}) status={res.get('status')}; {desc}"})
        return None
    return res


def slack_ok(sol, mode, demand, sc, col_fac_of_route):
    """per-element inequality; returns list of violating elements"""
    routes = models.routes_of(sol); W = sol["weights"]; R = sol["slacks"]
    bad = []
    wsum = collections.defaultdict(float); rsum = collections.defaultdict(float)
    for r, w, s in zip(routes, W, R):
        fac = col_fac_of_route(r)
        for el, c in models.traversal_counts(r, mode).items():
            wsum[el] += w * c; rsum[el] += s * c * fac
    for el, f in demand.items():
        lhs = abs(f - wsum.get(el, 0)) * sc.get(el, 1); rhs = rsum.get(el, 0)
        if lhs > rhs + 1e-6 * max(1, abs(lhs), abs(rhs)):
            bad.append((el, lhs, rhs))
    return bad


def run_case(case):
    viol = []; obs = collections.Counter()
    G = gen.build(case["spec"]); mode = case["mode"]; wt = case["wt"]; cyc = case["cyc"]
    ign = set(models._elem(e) for e in case["ignore"]); sc = {models._elem(e): f for e, f in case["scale"]}
    ignored = ign | {e for e, f in sc.items() if f == 0}
    if mode == "node":
        demand = {v: d["flow"] for v, d in G.nodes(data=True) if "flow" in d and v not in ignored}
        required = [v for v in G.nodes if v not in ignored]
        dshow = f"nodes={[(v, d.get('flow')) for v, d in G.nodes(data=True)]} edges={list(G.edges)}"
    else:
        demand = {(u, v): d["flow"] for u, v, d in G.edges(data=True) if "flow" in d and (u, v) not in ignored}
        required = [e for e in G.edges if e not in ignored]
        dshow = f"edges={[(u, v, d.get('flow')) for u, v, d in G.edges(data=True)]}"
    if not demand or all(v == 0 for v in demand.values()) or any(e not in demand for e in required):
        return {"viol": [], "obs": {"c08.out_of_domain_skipped": 1}, "nontrivial": False}
    try:
        cols, lens = columns(G, mode, cyc, case["starts"], case["ends"])
        width = ref.cover_min([{k: 1 for k in c} for c in cols], required)
        if cyc:
            # the covering number itself is computed exactly on the SCC multigraph (inside an SCC one walk can cover everything, with
            # however many repetitions it takes); the bounded walk columns only serve the witness comparison below
            S_, T_ = st_sets(G, case["starts"], case["ends"])
            width = ref.walk_cover_width(G, S_, T_, ignore=ignored) if mode == "edge" else ref.walk_cover_width(G, S_, T_, required_nodes=required)
    except ref.RefTimeout:
        return {"viol": [], "obs": {"c08.ref_timeout": 1}, "nontrivial": False}
    if width is None or width > 4:
        return {"viol": [], "obs": {"c08.not_coverable_or_too_wide": 1}, "nontrivial": False}
    k = None if case["knone"] else width + case["kdelta"]
    if case["superset"] is not None and not case.get("exact_superset"):
        sup = list(case["superset"])
        while len(sup) < width + 3:
            sup = sup + list(case["superset"])          # (the model takes k = len(superset): keep it at or above the covering number)
        case = dict(case); case["superset"] = sup[:max(len(case["superset"]), width + 3)]
    desc = f"{'cyclic' if cyc else 'DAG'} mode={mode} wt={wt} k={k} width={width} {dshow} ignore={sorted(map(str, ign))} scale={sc} starts={case['starts']} ends={case['ends']} superset={case['superset']} plr={case.get('plr')}"
    tags = [t for t, c in (("node", mode == "node"), ("ignore", ign), ("scale", sc), ("starts/ends", case["starts"] or case["ends"]), ("superset", case["superset"] is not None), ("plr", case.get("plr")), ("float", wt == "float"), ("k=None", k is None)) if c]
    tagstr = ("/" + "/".join(tags)) if tags else ""
    M.ROUTES.install(); M.ROUTES.drain(); M.TRACE.install()
    cls = "kMinPathErrorCycles" if cyc else "kMinPathError"
    def classify_unsolved(m):
        """mechanism of an infeasible k >= width model: infeasible under the library's own multiplicity caps / product bound?"""
        if m is None or not cyc:
            return None
        keff_ = k if k is not None else width
        caps = getattr(m, "edge_upper_bounds", None) or {}
        def cap_of(el):
            c = caps.get((el + ".0", el + ".1") if mode == "node" else el)
            return None if c is None else int(c + 1e-9)
        capped = [c for c in cols if all(cap_of(el) is None or mult <= cap_of(el) for el, mult in c.items())]
        try:
            if ref.mpe_min(cols, demand, keff_, models.WT[wt], sc) is None:
                return None
            if len(capped) < len(cols) and ref.mpe_min(capped, demand, keff_, models.WT[wt], sc) is None:
                return "/edge-cap-max-reachable-weight"
            if ref.mpe_min(cols, demand, keff_, models.WT[wt], sc, prod_cap=getattr(m, "w_max", None)) is None:
                return "/product-bound-w_max"
            if ref.mpe_min(capped, demand, keff_, models.WT[wt], sc, prod_cap=getattr(m, "w_max", None)) is None:
                return "/edge-cap+product-bound"
        except ref.RefTimeout:
            return None
        return None
    res = run_one(cls, case, k, viol, obs, desc, tagstr, classify=classify_unsolved)
    side = [s for s, _ in M.ROUTES.drain()]
    sample = {"desc": desc}; nontriv = False
    if res is not None:
        sol = res["sol"]; m = res["model"]
        obs["c08.solved_judged"] += 1
        keff = k if k is not None else width
        if k is None:
            obs["c08.k_none_cases"] += 1
            if getattr(m, "k", None) != width and case["superset"] is None:
                viol.append({"sig": f"C08/{cls}/k=None-picks-{'more' if m.k > width else 'fewer'}-than-covering-number{tagstr}", "msg": f"model.k = {m.k}, reference covering number {width}; {desc}"})
        routes = models.routes_of(sol)
        if len([r for r in routes if r]) > keff:
            viol.append({"sig": f"C08/{cls}/more-than-k-routes{tagstr}", "msg": f"{len([r for r in routes if r])} non-empty routes for k={keff}; {routes}; {desc}"})
        for key in ("weights", "slacks"):
            if key not in sol or len(sol[key]) != len(routes):
                viol.append({"sig": f"C08/{cls}/missing-{key}{tagstr}", "msg": f"{sol.get(key)!r}; {desc}"})
        if not viol:
            plr = case.get("plr")
            def fac(route):
                if not plr:
                    return 1
                L = (len(route) + 1) if mode == "node" else sum(G.edges[e].get("len", 1) for e in zip(route, route[1:]) if G.has_edge(*e)) + 2
                for (lo, hi), f in zip(plr[0], plr[1]):
                    if lo <= L <= hi:
                        return f
                return 1
            bad = slack_ok(sol, mode, demand, sc, fac)
            if bad:
                viol.append({"sig": f"C08/{cls}/slack-inequality-violated{tagstr}", "msg": f"(element, scaled error, slack sum) {bad[:3]}; routes {routes} weights {sol['weights']} slacks {sol['slacks']}; {desc}"})
            tot = sum(sol["slacks"])
            if res.get("obj") is None or not models.num_close(res["obj"], tot):
                viol.append({"sig": f"C08/{cls}/objective!=sum-of-slacks{tagstr}", "msg": f"{res.get('obj')} vs {tot}; {desc}"})
            sample.update({"routes": routes[:3], "weights": sol["weights"][:3], "slacks": sol["slacks"][:3]})
            nontriv = tot > 0 or len(routes) >= 2
            try:
                if not cyc:
                    cf = None
                    if plr:
                        # (decimal factors such as 0.3 are meant as 3/10: taken at their exact binary value 10 * 0.3 would fall short of 3 by 1e-16)
                        cf = {i: fractions.Fraction(str(next((f for (lo, hi), f in zip(plr[0], plr[1]) if lo <= L <= hi), 1))) for i, L in enumerate(lens)}
                    best = ref.mpe_min(cols, demand, keff, models.WT[wt], sc, col_factor=cf, superset=case["superset"])
                    if best is not None:
                        obs["c08.dag_optimum_compared"] += 1
                        sample["reference"] = float(best)
                        if not models.num_close(tot, float(best)):
                            mech_ = tagstr
                            if tot > float(best):
                                r2 = models.run({"cls": cls, "spec": case["spec"], "kw": build_kw(case, k)}, solver_options=dict(SO, presolve="off"))
                                if r2.get("solved") and models.num_close(sum(r2["sol"]["slacks"]), float(best)):
                                    mech_ = "/solver-presolve-loses-the-optimum"
                            viol.append({"sig": f"C08/{cls}/" + ("not-optimal" if tot > float(best) else "below-exhaustive-reference") + mech_, "msg": f"sum of slacks {tot}, exact optimum {best} over {len(cols)} paths; {desc}"})
                    if case["superset"] is None and not plr:
                        r2 = run_one("kMinPathErrorCycles", case, k, viol, obs, desc, tagstr + "/differential")
                        if r2 is not None:
                            obs["c08.differential_pairs"] += 1
                            t2 = sum(r2["sol"]["slacks"])
                            if not models.num_close(t2, tot):
                                viol.append({"sig": f"C08/DAG-vs-cyclic-model-disagree{tagstr}", "msg": f"kMinPathError {tot} vs kMinPathErrorCycles {t2} on the same acyclic input; {desc}"})
                else:
                    wit = ref.mpe_min(cols, demand, keff, models.WT[wt], sc)
                    if wit is not None:
                        obs["c08.cyc_witness_compared"] += 1
                        sample["witness"] = float(wit)
                        if tot > float(wit) + 1e-6 * max(1, abs(float(wit))):
                            mech = classify_mechanism(lambda cc, pc: ref.mpe_min(cc, demand, keff, models.WT[wt], sc, prod_cap=pc), cols, m, mode, tot,
                                                      cols_fn=lambda B: columns(G, mode, cyc, case["starts"], case["ends"], B)[0])
                            if mech is None:
                                # neither of the library's own caps explains it: does HiGHS find the witness value once its presolve is off?
                                r2 = models.run({"cls": cls, "spec": case["spec"], "kw": build_kw(case, k)}, solver_options=dict(SO, presolve="off"))
                                if r2.get("solved") and sum(r2["sol"]["slacks"]) <= float(wit) + 1e-6 * max(1, abs(float(wit))):
                                    mech = "/solver-presolve-loses-the-optimum"
                            mech = mech or tagstr
                            viol.append({"sig": f"C08/{cls}/worse-than-witness{mech}", "msg": f"sum of slacks {tot} but a solution with multiplicities <= 3 achieves {wit}; {desc}"})
            except ref.RefTimeout:
                obs["c08.ref_timeout"] += 1
    side += [s for s, _ in M.ROUTES.drain()]
    if wt == "int" and any(float(v) != int(v) for v in demand.values()):
        obs["c08.int_type_fractional_data"] += 1      # integer weights and slacks on fractional data: same statement, same oracle
    seen = set(); out = []
    for v in viol:
        if v["sig"] not in seen:
            seen.add(v["sig"]); out.append(v)
    return {"viol": out[:6], "obs": dict(obs), "side": side, "nontrivial": nontriv, "keys": [hashlib.sha1(desc.encode()).hexdigest()[:14]] if nontriv else [], "sample": sample}
