"""C17 - substrate queries (reachability, antichain, bottleneck peeling) match the graph.
Monitors: return values of the real public methods, judged at the time they are returned (and earlier answers re-judged
at the end of the history); oracles: own BFS / SCC / brute force."""
import collections, itertools, hashlib, copy
import networkx as nx
from fpverif import gen, ref, monitors as M
import flowpaths as fp
from flowpaths.utils import graphutils as gu

LEVEL = "exploration"
RULE = ("case kinds: (hist) random interleaved query history on one stDiGraph (nodes_reachable/nodes_reaching/is_scc_edge/"
        "compute_edge_max_reachable_value/get_width, repeated, cold+warm cache) and stDAG reachability properties; (anti) max-weight edge "
        "antichain vs brute force with weights in {0,1,2,5,2^20}; (peel) max-bottleneck peeling of planted conserving flows; "
        "thorough adds ALL digraphs on 3 inner nodes (512, self-loops allowed) and on 4 inner nodes without self-loops (4096). "
        "non-trivial = graph with >=1 cycle or >=2 sources/sinks or antichain >=2; distinct = (edges, weights, query sequence)")
CASE_TIMEOUT = {"quick": 120, "thorough": 600}
REQUIRED_OBS = {"c17.reach_answers": 500, "c17.antichains": 100, "c17.peelings": 100, "c17.maxreach_edges": 500}
ASSUMPTIONS = ["antichain weights are non-negative integers whose total stays below the library's flow capacity constant 2^32 (a separate 'huge' class is reported under its own signature)",
               "bottleneck peeling is judged on conserving positive flows (its documented use)"]
EXHAUSTIVE = {"quick": False, "thorough": False}


def small_scope_graphs(n_inner, self_loops):
    inner = [f"n{i}" for i in range(n_inner)]
    pairs = [(a, b) for a in inner for b in inner if self_loops or a != b]
    for mask in range(1 << len(pairs)):
        edges = [("s", inner[0])] + [pairs[i] for i in range(len(pairs)) if mask >> i & 1] + [(inner[-1], "t")]
        yield ["s"] + inner + ["t"], edges


def gen_cases(tier, seed):
    cases = []
    n = 300 if tier == "quick" else 25000
    for i in range(n):
        rng = gen.rng_for("C17h", seed, i)
        nodes, edges = gen.cyc_any(rng, 14) if rng.random() < 0.75 else gen.dag_any(rng, 14)
        if rng.random() < 0.25:
            # parts lying on no source-to-sink walk: a cycle that cannot reach a sink and/or one that no source reaches
            nodes = list(nodes); edges = list(edges); x = rng.choice(nodes); r = rng.random()
            if r < 0.6:
                nodes += ["dead1", "dead1b"]; edges += [(x, "dead1"), ("dead1", "dead1b"), ("dead1b", "dead1")]
            if r >= 0.3:
                nodes += ["dead2"]; edges += [("dead2", "dead2"), ("dead2", rng.choice(nodes[:-1]))]
        w = {e: rng.choice([0, 1, 2, 3, 5, 9, 0.5, 7.25, 100]) for e in edges}
        missing = [e for e in edges if rng.random() < 0.1]
        cases.append({"kind": "hist", "spec": gen.spec(nodes, edges, eattr={e: ({} if e in missing else {"flow": w[e]}) for e in edges}),
                      "rs": f"C17h:{seed}:{i}", "nq": rng.randint(10, 40)})
    for i in range(n):
        rng = gen.rng_for("C17a", seed, i)
        nodes, edges = gen.dag_any(rng, 12)
        wf = {e: rng.choice([0, 1, 1, 2, 5, 1 << 20]) for e in edges}
        if rng.random() < 0.2:
            wf = {e: rng.choice([0, 0.5, 0.25, 1.5, 2, 0.75]) for e in edges}        # weights need not be integers (dyadic, so sums are exact)
        nondyadic = rng.random() < 0.06
        if nondyadic:
            wf = {e: rng.choice([0.1, 0.2, 0.3, 0.7, 1.1, 0.25]) for e in edges}      # decimal fractions: sums are NOT exact in binary
        if rng.random() < 0.3:
            for e in list(wf):
                if rng.random() < 0.3:
                    del wf[e]
        cases.append({"kind": "anti", "spec": gen.spec(nodes, edges), "wf": [[u, v, w] for (u, v), w in wf.items()], "nondyadic": nondyadic, "default": (not nondyadic) and rng.random() < 0.15,
                      "st_weights": (rng.choice([None, None, [rng.choice([0, 1, 3, 5]) for _ in range(8)]])),
                      "starts": ([rng.choice(nodes)] if rng.random() < 0.15 else []), "ends": ([rng.choice(nodes)] if rng.random() < 0.15 else [])})
    for i in range(n):
        rng = gen.rng_for("C17p", seed, i)
        nodes, edges = gen.dag_any(rng, 14)
        wv = rng.choice([None, [0.5, 1.5, 2.25, 4.0], [1, 1, 1], [1 << 20, 3, 7]])
        flow, planted = gen.plant_paths(rng, nodes, edges, npaths=rng.randint(1, 5), maxw=9, wvals=wv)
        if any(f == 0 for f in flow.values()):
            continue
        cases.append({"kind": "peel", "spec": gen.spec(nodes, edges, eattr={e: {"flow": f} for e, f in flow.items()}), "planted": len(planted)})
        if i % 4 == 0:
            # the same planted paths with weights that are not exactly representable (0.1, 0.3, 1/3 ...): the flow is their float sum, conserved
            # only up to round-off; paths must still be source-to-sink paths and add up to the flow within 1e-9
            unit = rng.choice([0.1, 0.1, 1 / 3, 0.7])
            fl2 = {e: 0.0 for e in flow}
            for p_, w_ in planted:
                for e in zip(p_, p_[1:]):
                    fl2[e] += w_ * unit if not isinstance(w_, float) else w_ * unit
            cases.append({"kind": "peel", "spec": gen.spec(nodes, edges, eattr={e: {"flow": f} for e, f in fl2.items()}), "planted": len(planted), "approx": True})
    if tier == "thorough":
        for nodes, edges in small_scope_graphs(3, True):
            cases.append({"kind": "hist", "spec": gen.spec(nodes, edges, eattr={e: {"flow": (hash(e) % 7)} for e in edges}), "rs": "x", "nq": 0, "full": True})
        for nodes, edges in small_scope_graphs(4, False):
            cases.append({"kind": "hist", "spec": gen.spec(nodes, edges, eattr={e: {"flow": (hash(e) % 5)} for e in edges}), "rs": "x", "nq": 0, "full": True})
    cases.append({"kind": "peel", "spec": gen.spec(["p", "q"], []), "planted": 0})        # a DAG without edges: the empty flow peels into nothing
    # corpus
    for nodes, edges in [(["a", "b"], [("a", "b")]), (["a", "b", "c", "d", "e"], [("a", "b"), ("c", "d"), ("d", "e")]),
                         (["s", "a", "t"], [("s", "a"), ("a", "a"), ("a", "t")])]:
        cases.append({"kind": "hist", "spec": gen.spec(nodes, edges, eattr={e: {"flow": 3} for e in edges}), "rs": "corpus", "nq": 20, "full": True})
    return cases


def brute_max_reach(st, attr):
    w = {(u, v): float(d.get(attr, 0.0)) for u, v, d in st.edges(data=True)}
    fr = {v: ref.reach_from(st, v) for v in st.nodes}
    to = {v: ref.reach_to(st, v) for v in st.nodes}
    out = {}
    for (u, v) in st.edges:
        best = w[(u, v)]
        for (a, b), x in w.items():
            if a in fr[v] or b in to[u]:
                best = max(best, x)
        out[(u, v)] = best
    return out


def run_hist(case, viol, obs):
    G = gen.build(case["spec"])
    r = M.safe_call(fp.stDiGraph, G)
    if r[0] != "ok":
        return  # no source/sink: outside the domain of stDiGraph (C19 covers rejection)
    st = r[1]
    rng = gen.rng_for(case["rs"])
    comp = ref.scc_map(st)
    nodes = list(st.nodes); edges = list(st.edges)
    answers = []  # (kind, arg, returned object, expected frozen)
    ops = []
    if case.get("full"):
        for v in nodes:
            ops += [("reach", v), ("reaching", v)]
        for e in edges:
            ops.append(("scc", e))
        ops.append(("maxreach", None))
        ops += [("reach", v) for v in nodes] + [("reaching", v) for v in nodes]
    if case["nq"]:
        ops += [("reach", st.source), ("reaching", st.sink)]
    for _ in range(case["nq"]):
        k = rng.choice(["reach", "reaching", "reach", "reaching", "scc", "maxreach", "width"])
        ops.append((k, rng.choice(nodes) if k in ("reach", "reaching") else (rng.choice(edges) if k == "scc" else None)))
    seq = []
    for k, arg in ops:
        seq.append((k, str(arg)))
        if k == "reach":
            got = st.nodes_reachable(arg); exp = ref.reach_from(st, arg)
            obs["c17.reach_answers"] += 1
            if set(got) != exp:
                viol.append({"sig": "C17/nodes_reachable", "msg": f"nodes_reachable({arg}) = {sorted(got)} but BFS gives {sorted(exp)}; edges {list(G.edges)} after queries {seq[-6:]}"})
            answers.append(("reach", arg, got, frozenset(exp)))
        elif k == "reaching":
            got = st.nodes_reaching(arg); exp = ref.reach_to(st, arg)
            obs["c17.reach_answers"] += 1
            if set(got) != exp:
                viol.append({"sig": "C17/nodes_reaching", "msg": f"nodes_reaching({arg}) = {sorted(got)} but BFS gives {sorted(exp)}; edges {list(G.edges)} after queries {seq[-6:]}"})
            answers.append(("reaching", arg, got, frozenset(exp)))
        elif k == "scc":
            got = st.is_scc_edge(*arg); exp = comp[arg[0]] == comp[arg[1]]
            obs["c17.scc_answers"] += 1
            if bool(got) != exp:
                viol.append({"sig": "C17/is_scc_edge", "msg": f"is_scc_edge{arg} = {got}, own SCC computation says {exp}; edges {list(G.edges)}"})
        elif k == "maxreach":
            got = st.compute_edge_max_reachable_value("flow"); exp = brute_max_reach(st, "flow")
            for e in edges:
                obs["c17.maxreach_edges"] += 1
                if e not in got or abs(got[e] - exp[e]) > 1e-12:
                    viol.append({"sig": "C17/compute_edge_max_reachable_value", "msg": f"edge {e}: {got.get(e)} vs brute force {exp[e]}; weights {[(u, v, d.get('flow')) for u, v, d in G.edges(data=True)]}"})
                    break
        elif k == "width":
            w1 = st.get_width(); w2 = st.get_width()
            obs["c17.width_repeat"] += 1
            if w1 != w2:
                viol.append({"sig": "C17/width-unstable", "msg": f"get_width() {w1} then {w2}"})
        if len(viol) > 4:
            break
    # earlier answers re-judged (a later query must not have changed an object handed out earlier)
    for kind, arg, obj, exp in answers:
        if set(obj) != exp:
            viol.append({"sig": f"C17/earlier-answer-mutated/{kind}", "msg": f"answer for {kind}({arg}) changed after later queries"}); break
    if not nx.is_directed_acyclic_graph(G):
        obs["c17.cyclic_graphs"] += 1
    else:
        # stDAG reachability properties, asked twice and in random order
        sd = fp.stDAG(G)
        props = ["reachable_nodes_from", "nodes_reaching", "reachable_edges_from", "reachable_edges_rev_from"]
        rng.shuffle(props)
        for name in props + props[:2]:
            got = getattr(sd, name)
            obs["c17.dag_reach_props"] += 1
            for v in sd.nodes:
                if name == "reachable_nodes_from":
                    exp = ref.reach_from(sd, v)
                elif name == "nodes_reaching":
                    exp = ref.reach_to(sd, v)
                elif name == "reachable_edges_from":
                    rf = ref.reach_from(sd, v); exp = {(a, b) for (a, b) in sd.edges if a in rf}
                else:
                    rt = ref.reach_to(sd, v); exp = {(a, b) for (a, b) in sd.edges if b in rt}
                if set(got[v]) != exp:
                    viol.append({"sig": f"C17/stDAG.{name}", "msg": f"{name}[{v}] = {sorted(got[v])[:8]} expected {sorted(exp)[:8]}; edges {list(G.edges)}"}); break
    return hashlib.sha1(repr((list(G.edges), seq)).encode()).hexdigest()[:14], (not nx.is_directed_acyclic_graph(G)) or len(ref.sources(G)) > 1


def comparable(rf, a, b):
    return b[0] in rf[a[1]] or a[0] in rf[b[1]]


def brute_antichain(st, w):
    E = [e for e in st.edges if w.get(e, 0) > 0]
    rf = {v: ref.reach_from(st, v) for v in st.nodes}
    E.sort(key=lambda e: -w[e])
    compat = {e: {f for f in E if f != e and not comparable(rf, e, f)} for e in E}
    best = [0]

    def rec(i, chosen, cur, cand):
        if cur > best[0]:
            best[0] = cur
        rest = sum(w[e] for e in cand)
        if cur + rest <= best[0]:
            return
        cand = list(cand)
        while cand:
            e = cand.pop(0)
            rec(i + 1, chosen + [e], cur + w[e], [f for f in cand if f in compat[e]])

    rec(0, [], 0, E)
    return best[0], rf


def run_anti(case, viol, obs):
    G = gen.build(case["spec"]); st = fp.stDAG(G, additional_starts=case.get("starts") or None, additional_ends=case.get("ends") or None)
    wf = {(u, v): w for u, v, w in case["wf"]}
    if case.get("st_weights") and not case.get("default"):
        # the docstring allows weights on any edge of the s-t graph, also on the edges from the global source / to the global sink
        for i, e in enumerate(sorted(st.source_sink_edges, key=str)):
            wf[e] = case["st_weights"][i % len(case["st_weights"])]
    if case.get("default"):
        r = M.safe_call(st.compute_max_edge_antichain, get_antichain=True)
        w = {e: (0 if e in st.source_sink_edges else 1) for e in st.edges}
    else:
        r = M.safe_call(st.compute_max_edge_antichain, get_antichain=True, weight_function=wf)
        w = {e: wf.get(e, 0) for e in st.edges}
    obs["c17.antichains"] += 1
    desc = f"edges {list(G.edges)} weights {sorted((str(e), x) for e, x in w.items() if x)}"
    if case.get("nondyadic"):
        # decimal-fraction weights: judged within 1e-9, and every disagreement is keyed by this input class (known finding: the routine hands
        # float demands to networkx' network simplex, which is exact for integer data only)
        obs["c17.antichains_nondyadic"] += 1
        best, rf = brute_antichain(st, w)
        bad = None
        if r[0] != "ok":
            bad = f"raises {r[1]}: {r[2]}"
        elif r[1] is None or r[1][0] is None:
            bad = f"returns {r[1]!r}"
        else:
            val, anti = r[1]
            if any(comparable(rf, a, b) for a, b in itertools.combinations(anti, 2)):
                bad = f"antichain {anti} not pairwise unreachable"
            elif abs(sum(w.get(e, 0) for e in anti) - val) > 1e-9 or abs(val - best) > 1e-9:
                bad = f"reported {val}, antichain sum {sum(w.get(e, 0) for e in anti)}, brute-force maximum {best}"
        if bad:
            viol.append({"sig": "C17/antichain/non-dyadic-float-weights/" + ("raises" if r[0] != "ok" else ("none" if "returns" in bad else "wrong")), "msg": f"{bad}; {desc}"})
        return hashlib.sha1(desc.encode()).hexdigest()[:14], True
    if r[0] != "ok":
        viol.append({"sig": f"C17/antichain-raises/{r[1]}", "msg": f"compute_max_edge_antichain raised {r[1]}: {r[2]}; {desc}"}); return None, False
    val, anti = r[1]
    best, rf = brute_antichain(st, w)
    for a, b in itertools.combinations(anti, 2):
        if comparable(rf, a, b):
            viol.append({"sig": "C17/antichain-not-pairwise-unreachable", "msg": f"{a} and {b} lie on one path; {desc}"}); break
    if len(set(anti)) != len(anti):
        viol.append({"sig": "C17/antichain-duplicate-edge", "msg": f"{anti}"})
    s = sum(w.get(e, 0) for e in anti)
    if s != val:
        viol.append({"sig": "C17/antichain-weight!=reported", "msg": f"sum of returned antichain {s} but reported {val}; {desc}"})
    if val != best:
        viol.append({"sig": "C17/antichain-not-maximum", "msg": f"reported {val}, brute-force maximum {best}; {desc}"})
    if not case.get("default") and len(wf) == 0 and viol:
        # one mechanism: `if weight_function:` treats an explicitly given empty dict like None (default unit weights)
        del viol[:]
        viol.append({"sig": "C17/antichain/empty-weight-dict-treated-as-default", "msg": f"weight_function={{}} must give weight 0 to every edge (docstring) but reported {val}, antichain {anti}; {desc}"})
    v2 = M.safe_call(st.compute_max_edge_antichain, get_antichain=False, **({} if case.get("default") else {"weight_function": wf}))
    if v2[0] != "ok" or v2[1] != val:
        viol.append({"sig": "C17/antichain-value-differs-without-antichain", "msg": f"{v2} vs {val}"})
    return hashlib.sha1(desc.encode()).hexdigest()[:14], len(anti) >= 2


def run_peel(case, viol, obs):
    G = gen.build(case["spec"]); st = fp.stDAG(G)
    flow = {(u, v): d["flow"] for u, v, d in G.edges(data=True)}
    r = M.safe_call(st.decompose_using_max_bottleneck, "flow")
    obs["c17.peelings"] += 1
    if case.get("approx"):
        obs["c17.peelings_inexact_floats"] += 1
    desc = f"flows {sorted((str(e), f) for e, f in flow.items())}"
    if r[0] != "ok":
        viol.append({"sig": f"C17/peel-raises/{r[1]}", "msg": f"{r[2]}; {desc}"}); return None, False
    paths, weights = r[1]
    if len(paths) != len(weights):
        viol.append({"sig": "C17/peel-len", "msg": f"{len(paths)} paths, {len(weights)} weights"}); return None, False
    resid = dict(flow)
    for p, w in zip(paths, weights):
        pe = list(zip(p, p[1:]))
        if not p or G.in_degree(p[0]) != 0 or G.out_degree(p[-1]) != 0 or any(not G.has_edge(*e) for e in pe):
            viol.append({"sig": "C17/peel-not-source-to-sink-path", "msg": f"{p}; {desc}"}); break
        if not w > 0:
            viol.append({"sig": "C17/peel-nonpositive-weight", "msg": f"weight {w} for {p}; {desc}"}); break
        # true max bottleneck of the residual (brute force over all source-to-sink paths)
        H = nx.DiGraph([e for e in G.edges])
        best = max(min(resid[e] for e in zip(q, q[1:])) for q in ref.st_paths(G))
        bn = min(resid[e] for e in pe)
        tol = 1e-9 if case.get("approx") else 0
        if abs(bn - w) > tol or w < best - tol:
            viol.append({"sig": "C17/peel-not-max-bottleneck", "msg": f"path {p} weight {w}, its residual bottleneck {bn}, best possible {best}; {desc}"}); break
        for e in pe:
            resid[e] -= w
    else:
        bad = {e: x for e, x in resid.items() if abs(x) > (1e-9 if case.get("approx") else 0)}
        if bad:
            viol.append({"sig": "C17/peel-sums-differ-from-flow", "msg": f"residual after peeling {bad}; {desc}"})
    # the caller's graph must still carry the original flow
    if {(u, v): d["flow"] for u, v, d in G.edges(data=True)} != flow:
        viol.append({"sig": "C17/peel-mutated-input", "msg": "decompose_using_max_bottleneck changed the caller's flow values"})
    return hashlib.sha1(desc.encode()).hexdigest()[:14], len(paths) >= 2


def run_case(case):
    viol = []; obs = collections.Counter()
    out = {"hist": run_hist, "anti": run_anti, "peel": run_peel}[case["kind"]](case, viol, obs)
    key, nontriv = out if out else (None, False)
    for v in viol:
        v.setdefault("replay", {k: x for k, x in case.items() if k != "id"})
    return {"viol": viol[:5], "obs": dict(obs), "nontrivial": bool(nontriv), "keys": [key] if key and nontriv else [],
            "sample": {"kind": case["kind"], "edges": gen.edges_of(case["spec"])[:12], "extra": {k: case[k] for k in ("nq", "wf", "planted") if k in case}}}
