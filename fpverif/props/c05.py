"""C05 - optimisation options never change solvability or the optimal objective.
Monitor: (raised?, is_solved, objective) of the real models across option settings on one input, plus solve_statistics /
solver trace showing whether an option changed the MILP at all. Oracle: agreement with the all-off baseline."""
import collections, hashlib, itertools, copy
import networkx as nx
from fpverif import gen, ref, monitors as M, models, instances as I, workload as W
import flowpaths as fp

LEVEL = "exploration"
RULE = ("case = one model class x one in-domain input x a list of option settings (quick: all-off baseline, each documented flag alone, all-on, "
        "8 random combinations; thorough: the full cross product, capped at 96 settings) with documented-illegal combinations removed; every "
        "setting's (exception, solved, objective) must equal the baseline's (objective = number of routes for Min*, total error / slack for "
        "LAE / MPE, solved status for k-FD / k-cover). A setting whose solve hits the 8 s solver limit is not compared. "
        "non-trivial = baseline solved and >= 1 setting changed the model (solve statistics / number of columns differ); distinct = (class, input)")
CASE_TIMEOUT = {"quick": 300, "thorough": 1500}
REQUIRED_OBS = {"c05.settings_compared": 1200, "c05.cases": 100, "c05.settings_that_changed_the_model": 200}
ASSUMPTIONS = ["trusted edges for safety are the ones the models supply themselves; user-supplied trusted edges are not used",
               "combinations the classes document as illegal (safe paths + safe sequences; flow-safe paths + safe paths/sequences; given weights + safety) are excluded"]
EXHAUSTIVE = {"quick": False, "thorough": False}
SO = {"threads": 1, "time_limit": 8}

DAG_FLAGS = ["optimize_with_safe_paths", "optimize_with_safe_sequences", "optimize_with_safe_zero_edges", "optimize_with_subpath_constraints_as_safe_sequences",
             "optimize_with_safety_as_subpath_constraints", "optimize_with_safety_from_largest_antichain"]
KFD_FLAGS = ["optimize_with_greedy", "optimize_with_flow_safe_paths"]
MFD_FLAGS = ["use_min_gen_set_lowerbound", "use_min_gen_set_lowerbound_partition_constraints", "use_subgraph_scanning_lowerbound", "optimize_with_guessed_weights"]
CYC_FLAGS = ["optimize_with_safe_sequences", "optimize_with_safe_sequences_allow_geq_constraints", "optimize_with_safe_sequences_fix_via_bounds",
             "optimize_with_safe_sequences_fix_zero_edges", "optimize_with_safety_as_subset_constraints", "optimize_with_max_safe_antichain_as_subset_constraints"]
MFDC_FLAGS = ["optimize_with_guessed_weights", "use_min_gen_set_lowerbound"]


def flags_of(cls):
    if cls.endswith("Cycles"):
        return CYC_FLAGS + (MFDC_FLAGS if cls == "MinFlowDecompCycles" else [])
    f = list(DAG_FLAGS)
    if cls in ("kFlowDecomp", "MinFlowDecomp"):
        f += KFD_FLAGS
    if cls == "MinFlowDecomp":
        f += MFD_FLAGS
    return f


def legal(cls, s):
    if s.get("optimize_with_safe_paths") and s.get("optimize_with_safe_sequences") and not cls.endswith("Cycles"):
        return False
    if s.get("optimize_with_flow_safe_paths") and (s.get("optimize_with_safe_paths") or s.get("optimize_with_safe_sequences")):
        return False
    if cls == "MinFlowDecompCycles" and s.get("optimize_with_guessed_weights"):
        pass
    return True


def settings_for(cls, rng, tier):
    flags = flags_of(cls)
    base = {f: False for f in flags}
    out = [dict(base)]
    for f in flags:
        s = dict(base); s[f] = True
        if f == "use_min_gen_set_lowerbound_partition_constraints":
            s["use_min_gen_set_lowerbound"] = True
        out.append(s)
    if cls.endswith("Cycles"):
        # the three sub-switches of the safe-sequence optimisation act only while it is on: every combination of them with it
        for bits in itertools.product([False, True], repeat=3):
            s = dict(base); s["optimize_with_safe_sequences"] = True
            s.update(zip(["optimize_with_safe_sequences_allow_geq_constraints", "optimize_with_safe_sequences_fix_via_bounds", "optimize_with_safe_sequences_fix_zero_edges"], bits))
            out.append(s)
    allon = {f: True for f in flags}
    if not cls.endswith("Cycles"):
        allon["optimize_with_safe_sequences"] = False; allon["optimize_with_flow_safe_paths"] = False if "optimize_with_flow_safe_paths" in allon else None
        allon = {k: v for k, v in allon.items() if v is not None}
    out.append(allon)
    if tier == "thorough" and len(flags) <= 7:
        for bits in itertools.product([False, True], repeat=len(flags)):
            out.append(dict(zip(flags, bits)))
    else:
        for _ in range(8 if tier == "quick" else 40):
            out.append({f: rng.random() < 0.5 for f in flags})
    out.append({})     # library defaults
    uniq = []; seen = set()
    for s in out:
        key = tuple(sorted(s.items()))
        if key not in seen and legal(cls, s):
            seen.add(key); uniq.append(s)
    return uniq[:96]


def corpus():
    """cyclic inputs whose single safe walk uses an SCC edge twice (lower bound 2 on one variable), with several edge insertion
    orders so that the order in which bound updates are queued differs from the column order"""
    out = []
    E = [("s", "a", 1), ("a", "b", 2), ("b", "c", 1), ("c", "a", 1), ("b", "t", 1)]
    E2 = [("s", "a", 1), ("a", "b", 3), ("b", "c", 2), ("c", "d", 2), ("d", "a", 2), ("b", "t", 1)]
    for base in (E, E2):
        for order in (list(base), list(reversed(base)), base[1:] + base[:1], base[2:] + base[:2]):
            nodes = list(dict.fromkeys(x for u, v, _ in order for x in (u, v)))
            sp = gen.spec(nodes, [(u, v) for u, v, _ in order], eattr={(u, v): {"flow": f} for u, v, f in order})
            for cls, kw in (("MinFlowDecompCycles", {}), ("kFlowDecompCycles", {"k": 1}), ("kMinPathErrorCycles", {"k": 1}), ("kLeastAbsErrorsCycles", {"k": 1}), ("kPathCoverCycles", {"k": 1})):
                k2 = dict(kw)
                if cls != "kPathCoverCycles":
                    k2.update({"flow_attr": "flow", "weight_type": "int"})
                out.append({"cls": cls, "inst": {"cls": cls, "spec": sp, "kw": k2}})
    # acyclic inputs to the walk models (a legal special case: no safe walk enters a cycle, so only 'fix to 1' updates are queued): two disjoint
    # routes of the same flow (k=1 has no solution), and a junction whose in-flows 3+2 leave as 4+1 next to a separate edge (4 walks needed, slack 2 with 3)
    D1 = [("s", "a", 2), ("a", "t", 2), ("s", "b", 2), ("b", "t", 2)]
    D2 = [("s", "a", 3), ("a", "m", 3), ("s", "m", 2), ("m", "x", 4), ("m", "y", 1), ("s", "z", 1)]
    for base, ks in ((D1, (1, 2)), (D2, (3, 4))):
        nodes = list(dict.fromkeys(x for u, v, _ in base for x in (u, v)))
        sp = gen.spec(nodes, [(u, v) for u, v, _ in base], eattr={(u, v): {"flow": f} for u, v, f in base})
        for cls, kws in (("MinFlowDecompCycles", [{}]), ("kFlowDecompCycles", [{"k": k_} for k_ in ks]), ("kMinPathErrorCycles", [{"k": k_} for k_ in ks]), ("kLeastAbsErrorsCycles", [{"k": ks[0]}])):
            for kw in kws:
                k2 = dict(kw); k2.update({"flow_attr": "flow", "weight_type": "int"})
                out.append({"cls": cls, "inst": {"cls": cls, "spec": sp, "kw": k2}})
    # covers with constraints whose coverage is measured by LENGTH (the count fraction stays at its default 1): a diamond that needs two paths, and
    # two bubbles in a row whose constraints force two paths through p so that a third one is needed for q
    spd = gen.spec(["a", "b", "c", "d"], [("a", "b"), ("a", "c"), ("b", "d"), ("c", "d")], eattr={e: {"len": 1} for e in [("a", "b"), ("a", "c"), ("b", "d"), ("c", "d")]})
    E5 = [("s", "p", 1), ("p", "m", 1), ("s", "q", 0.25), ("q", "m", 0.25), ("m", "u", 1), ("u", "t", 1), ("m", "v", 1), ("v", "t", 1)]
    spb = gen.spec(["s", "p", "q", "m", "u", "v", "t"], [(u, v) for u, v, _ in E5], eattr={(u, v): {"len": l} for u, v, l in E5})
    for sp, cons, frac, ks in ((spd, [[["b", "d"]]], 0.5, (1, 2)), (spb, [[["s", "p"], ["m", "u"]], [["s", "p"], ["m", "v"]]], 0.6, (2, 3))):
        for cls, kws in (("MinPathCover", [{}]), ("kPathCover", [{"k": k_} for k_ in ks])):
            for kw in kws:
                k2 = dict(kw); k2.update({"subpath_constraints": cons, "subpath_constraints_coverage_length": frac, "length_attr": "len"})
                out.append({"cls": cls, "inst": {"cls": cls, "spec": sp, "kw": k2}})
    # node-weighted rings (no natural source or sink) entered/left through additional start/end nodes
    for n_ in (2, 3, 4):
        rn = [f"r{i}" for i in range(n_)]; re_ = [(rn[i], rn[(i + 1) % n_]) for i in range(n_)]
        sp = gen.spec(rn, re_, nattr={v: {"flow": 3} for v in rn})
        for cls, kw in (("MinFlowDecompCycles", {}), ("kFlowDecompCycles", {"k": 1}), ("kMinPathErrorCycles", {"k": 1}), ("kLeastAbsErrorsCycles", {"k": 1})):
            k2 = dict(kw); k2.update({"flow_attr": "flow", "weight_type": "int", "flow_attr_origin": "node", "additional_starts": [rn[0]], "additional_ends": [rn[-1]]})
            out.append({"cls": cls, "inst": {"cls": cls, "spec": sp, "kw": k2}})
    # float flows below 1 (and numpy-typed integer flows) given to the cyclic minimum decomposition: its lower-bound / guessed-weights
    # options must not change whether the input is accepted
    E3 = [("s", "a", 0.75), ("a", "b", 0.25), ("a", "c", 0.5), ("b", "t", 0.25), ("c", "t", 0.5)]
    sp3 = gen.spec(["s", "a", "b", "c", "t"], [(u, v) for u, v, _ in E3], eattr={(u, v): {"flow": f} for u, v, f in E3})
    out.append({"cls": "MinFlowDecompCycles", "inst": {"cls": "MinFlowDecompCycles", "spec": sp3, "kw": {"flow_attr": "flow", "weight_type": "float"}}})
    for npt in ("int64", "float32", "uint8"):
        sp4 = gen.spec(["s", "a", "b", "c", "t"], [(u, v) for u, v, _ in E3], eattr={(u, v): {"flow": int(f * 4)} for u, v, f in E3}); sp4["np_type"] = npt
        out.append({"cls": "MinFlowDecompCycles", "inst": {"cls": "MinFlowDecompCycles", "spec": sp4, "kw": {"flow_attr": "flow", "weight_type": "float" if npt == "float32" else "int"}}})
    return out


def gen_cases(tier, seed):
    cases = [dict(c, rs=f"C05corpus:{i}", tier=tier) for i, c in enumerate(corpus())]
    per = 10 if tier == "quick" else 60
    for cls in W.ALL:
        for i in range(per):
            cases.append({"cls": cls, "rs": f"C05:{seed}:{cls}:{i}", "tier": tier})
    # constraints with length-based coverage < 1 (the safety options add their own constraints on top of the caller's)
    for cls in ("kPathCover", "kPathCover", "MinPathCover", "kLeastAbsErrors", "kMinPathError", "MinFlowDecomp"):
        for i in range(per if cls.endswith("PathCover") else per // 2):
            cases.append({"cls": cls, "rs": f"C05len:{seed}:{cls}:{i}:{len(cases)}", "tier": tier, "want": "covlen"})
    # many small dense conserving flows, few settings each: flow-safe paths used as constraints must never change the minimum
    for i in range(100 if tier == "quick" else 2000):
        cases.append({"cls": "MinFlowDecomp", "rs": f"C05fs:{seed}:{i}", "tier": tier, "want": "flowsafe"})
    # decimal float flows (0.1 .. 0.9 multiples, summed as a pipeline would) with the min-generating-set lower bound and its companions
    for i in range(100 if tier == "quick" else 1500):
        cases.append({"cls": "MinFlowDecomp", "rs": f"C05mgs:{seed}:{i}", "tier": tier, "want": "mgsfloat"})
    return cases


def objective_of(cls, res):
    if not res.get("solved"):
        return None
    if cls.startswith("Min"):
        return len(models.routes_of(res["sol"]))
    if cls in W.ERR:
        o = res.get("obj")
        return round(o, 6) if isinstance(o, (int, float)) else o
    return "solved"


def presolve_off_agrees(inst, setting, cls, base):
    i2 = copy.deepcopy(inst); i2["kw"]["optimization_options"] = dict(setting)
    old = (fp.MinFlowDecomp.subgraph_lowerbound_size, fp.MinFlowDecomp.subgraph_lowerbound_shift)
    fp.MinFlowDecomp.subgraph_lowerbound_size, fp.MinFlowDecomp.subgraph_lowerbound_shift = 3, 2
    try:
        res = models.run(i2, solver_options=dict(SO, presolve="off"))
    finally:
        fp.MinFlowDecomp.subgraph_lowerbound_size, fp.MinFlowDecomp.subgraph_lowerbound_shift = old
    o = objective_of(cls, res)
    return bool(res.get("solved")) == base["solved"] and (o == base["obj"] or (isinstance(o, (int, float)) and isinstance(base["obj"], (int, float)) and models.num_close(o, base["obj"])))


def run_case(case):
    viol = []; obs = collections.Counter()
    rng = gen.rng_for(case["rs"]); cls = case["cls"]
    fs_settings = None
    if case.get("inst"):
        inst = copy.deepcopy(case["inst"])
    elif case.get("want") == "flowsafe":
        r_fam = rng.random()
        if r_fam < 0.25:
            # 'decimal hub': several sources feed one node that feeds several sinks, all values decimal fractions (0.1 .. 0.9) whose
            # float sums and differences are not exact: excess flows that are 0 in the reals come out as +-1e-17
            ni, no = rng.randint(2, 4), rng.randint(2, 3)
            ins = [rng.randint(1, 4) for _ in range(ni)]; tot = sum(ins)
            cuts = sorted(rng.sample(range(1, tot), min(no - 1, tot - 1))); outs = [b - a for a, b in zip([0] + cuts, cuts + [tot])]
            if rng.random() < 0.6:
                outs = [tot - ins[-1], ins[-1]]        # one out-edge carries exactly what one in-edge brings: path (that in-edge, the OTHER out-edge) has excess 0
            nodes = [f"s{i}" for i in range(ni)] + ["m"] + [f"t{j}" for j in range(len(outs))]
            edges = [(f"s{i}", "m") for i in range(ni)] + [("m", f"t{j}") for j in range(len(outs))]
            flow = {(f"s{i}", "m"): ins[i] / 10 for i in range(ni)}; flow.update({("m", f"t{j}"): outs[j] / 10 for j in range(len(outs))})
            if rng.random() < 0.5:
                nodes.append("z"); edges.append(("z", "s0")); flow[("z", "s0")] = ins[0] / 10
            planted = []; wt_forced = "float"
        elif r_fam < 0.7:
            # 'spine' family: a path v0..vk whose inner nodes each have one side entrance and one side exit; the exits leak exactly the
            # flow of the first spine edge after j steps, so the window v0..v(j+1) has excess flow exactly 0 (the boundary of flow-safety)
            kk = rng.randint(2, 4); f0 = rng.randint(2, 4)
            cuts = sorted(rng.sample(range(1, f0), min(f0 - 1, rng.randint(1, kk - 1)))) if f0 > 1 else []
            leaks = [b - a for a, b in zip([0] + cuts, cuts + [f0])]
            leaks = (leaks + [rng.randint(1, 2) for _ in range(kk)])[:kk]
            nodes = [f"v{i}" for i in range(kk + 2)]; edges = []; flow = {}
            cur = f0; edges.append(("v0", "v1")); flow[("v0", "v1")] = cur
            for i in range(1, kk + 1):
                a_in = rng.randint(1, 3)
                nodes += [f"s{i}", f"t{i}"]
                edges += [(f"s{i}", f"v{i}"), (f"v{i}", f"t{i}")]; flow[(f"s{i}", f"v{i}")] = a_in; flow[(f"v{i}", f"t{i}")] = leaks[i - 1]
                cur = cur + a_in - leaks[i - 1]
                if cur <= 0:
                    flow[(f"s{i}", f"v{i}")] += 1 - cur; cur = 1
                edges.append((f"v{i}", f"v{i + 1}")); flow[(f"v{i}", f"v{i + 1}")] = cur
            if rng.random() < 0.5:
                rng.shuffle(edges)
            planted = []
        else:
          for _ in range(12):
            nodes, edges = gen.dag_random(rng, n=rng.randint(5, 7), p=rng.choice([0.45, 0.6]))
            if not (6 <= len(edges) <= 11):
                continue
            # small weights: windows whose excess flow is exactly 0 (the boundary case of flow-safety) are then frequent
            flow, planted = gen.plant_paths(rng, nodes, edges, npaths=rng.randint(3, 5), maxw=rng.choice([2, 3, 5]))
            if all(f > 0 for f in flow.values()):
                break
          else:
            return {"viol": [], "obs": {"c05.shape_skipped": 1}, "nontrivial": False}
        wt = rng.choice(["int", "float", "float"])
        if r_fam < 0.25:
            wt = "float"
        dec = wt == "float" and rng.random() < 0.6 and r_fam >= 0.25        # decimal fractions (0.1, 0.2, 0.3 ...): sums are not exact in binary
        fv = lambda f: (round(f * 0.1, 10) if dec else float(f)) if wt == "float" else f
        if r_fam < 0.25:
            fv = lambda f: f
        if dec and planted:
            # recompute the flow as a float sum of the planted decimal weights (what a user's pipeline would produce)
            flow = {e: 0.0 for e in flow}
            for p_, w_ in planted:
                for e in zip(p_, p_[1:]):
                    flow[e] += w_ * 0.1
            fv = lambda f: f
        inst = {"cls": cls, "spec": gen.spec(nodes, edges, eattr={e: {"flow": fv(f)} for e, f in flow.items()}), "kw": {"flow_attr": "flow", "weight_type": wt}}
        fs_settings = [{"optimize_with_greedy": False, "optimize_with_flow_safe_paths": False, "optimize_with_safe_paths": False},
                       {"optimize_with_flow_safe_paths": True, "optimize_with_safe_paths": False, "optimize_with_safety_as_subpath_constraints": True},
                       {"optimize_with_greedy": False, "optimize_with_flow_safe_paths": True, "optimize_with_safe_paths": False, "optimize_with_safety_as_subpath_constraints": True},
                       {"optimize_with_greedy": False, "optimize_with_flow_safe_paths": True, "optimize_with_safe_paths": False}]
    elif case.get("want") == "mgsfloat":
        for _ in range(12):
            nodes, edges = gen.dag_random(rng, n=rng.randint(4, 6), p=rng.choice([0.45, 0.6]))
            if not (4 <= len(edges) <= 9):
                continue
            flow0, planted = gen.plant_paths(rng, nodes, edges, npaths=rng.randint(2, 4), maxw=9)
            if planted:
                break
        else:
            return {"viol": [], "obs": {"c05.shape_skipped": 1}, "nontrivial": False}
        flow = {e: 0.0 for e in flow0}
        for p_, w_ in planted:
            for e in zip(p_, p_[1:]):
                flow[e] += w_ / 10
        if rng.random() < 0.3:
            e0 = rng.choice(list(flow)); flow[e0] = flow[e0]      # (keep)
        inst = {"cls": cls, "spec": gen.spec(nodes, edges, eattr={e: {"flow": f} for e, f in flow.items()}), "kw": {"flow_attr": "flow", "weight_type": "float"}}
        fs_settings = [{"optimize_with_greedy": False}, {"use_min_gen_set_lowerbound": True}, {"use_min_gen_set_lowerbound": True, "optimize_with_guessed_weights": True},
                       {"use_min_gen_set_lowerbound": True, "use_min_gen_set_lowerbound_partition_constraints": True}, {"optimize_with_guessed_weights": True}]
    elif case.get("want") == "covlen":
        for _ in range(60):
            inst, meta = W.random_instance(rng, cls, small=True)
            if inst["kw"].get("subpath_constraints_coverage_length", 1.0) < 1:
                if cls == "kPathCover" and rng.random() < 0.7:
                    inst["kw"]["k"] = max(1, rng.choice([1, inst["kw"]["k"] - 1, inst["kw"]["k"] - 2]))     # possibly below the cover number: 'unsolved' must stay 'unsolved'
                break
        else:
            return {"viol": [], "obs": {"c05.shape_skipped": 1}, "nontrivial": False}
    else:
        inst, meta = W.random_instance(rng, cls, small=True)
    kw = inst["kw"]
    kw.pop("solution_weights_superset", None)
    kw.pop("trusted_edges_for_safety_percentile", None)     # a user assumption ("these edges appear in an optimal solution"), not an optimisation switch: a wrong assumption may change the optimum
    if cls in W.ERR and kw.get("k") is None:
        kw["k"] = 2
    user_oo = {}
    settings = fs_settings or settings_for(cls, rng, case["tier"])
    old = (fp.MinFlowDecomp.subgraph_lowerbound_size, fp.MinFlowDecomp.subgraph_lowerbound_shift)
    fp.MinFlowDecomp.subgraph_lowerbound_size, fp.MinFlowDecomp.subgraph_lowerbound_shift = 3, 2
    M.TRACE.install()
    results = []
    try:
        for s in settings:
            i2 = copy.deepcopy(inst); i2["kw"]["optimization_options"] = dict(s)
            M.TRACE.reset()
            res = models.run(i2, solver_options=SO)
            tl = any(t.get("status") == "kTimeLimit" for t in M.TRACE.trace)
            stats = getattr(res.get("model"), "solve_statistics", {}) or {}
            fingerprint = (tuple(t.get("ncols") for t in M.TRACE.trace), stats.get("edge_variables=0"), stats.get("edge_variables=1"), stats.get("edge_variables>=1"),
                           "greedy_solve_time" in stats, len(M.TRACE.trace))
            results.append({"s": s, "exc": res.get("exc"), "solved": bool(res.get("solved")), "obj": objective_of(cls, res), "tl": tl, "fp": fingerprint})
            oo_obj = (res.get("kw") or {}).get("optimization_options")
            if cls == "MinFlowDecomp" and s and isinstance(oo_obj, dict) and res.get("exc") is None and not tl:
                # history: the caller keeps ONE options dict and uses it for a later, smaller instance (a single path: optimum 1 whatever the options)
                P = nx.DiGraph(); f1 = 3 if inst["kw"].get("weight_type") == "int" else 3.0
                P.add_edge("p0", "p1", flow=f1); P.add_edge("p1", "p2", flow=f1)
                r2 = M.safe_call(fp.MinFlowDecomp, P, flow_attr="flow", weight_type=models.WT[inst["kw"].get("weight_type", "float")], optimization_options=oo_obj, solver_options=dict(SO))
                s2 = M.safe_call(r2[1].solve) if r2[0] == "ok" else r2
                obs["c05.same_options_object_reused"] += 1
                on2 = "+".join(sorted(k for k, v in s.items() if v))[:120]
                if s2[0] != "ok" or not r2[1].is_solved() or len(r2[1].get_solution()["paths"]) != 1:
                    viol.append({"sig": f"C05/objective-depends-on-options/MinFlowDecomp/same-options-object-reused/{on2}",
                                 "msg": f"single path p0->p1->p2 (optimum 1 path): {s2 if s2[0] != 'ok' else (r2[1].is_solved(), r2[1].get_solution() if r2[1].is_solved() else None)} with the options object of the previous model, now {oo_obj}; previous: {models.brief(inst)}"[:900]})
            if (tl and len(results) == 1) or sum(1 for r in results if r["tl"]) >= 2:
                break      # heavy-tailed instance: no point in burning the budget on it
    finally:
        fp.MinFlowDecomp.subgraph_lowerbound_size, fp.MinFlowDecomp.subgraph_lowerbound_shift = old
    base = results[0]
    obs["c05.cases"] += 1
    desc = f"{models.brief(inst)}"[:700]
    if base["tl"]:
        return {"viol": [], "obs": {"c05.baseline_time_limited": 1}, "nontrivial": False}
    changed = 0
    for r in results[1:]:
        if r["tl"]:
            obs["c05.time_limited_settings"] += 1; continue
        obs["c05.settings_compared"] += 1
        if r["fp"] != base["fp"]:
            changed += 1; obs["c05.settings_that_changed_the_model"] += 1
        on = sorted(k for k, v in r["s"].items() if v) or ["<library defaults>" if not r["s"] else "<all off>"]
        if (r["exc"] is None) != (base["exc"] is None):
            who = r if r["exc"] else base
            viol.append({"sig": f"C05/exception-depends-on-options/{cls}/{(who['exc'] or ('', ''))[0]}/" + "+".join(on)[:120], "msg": f"baseline exc={base['exc']} vs {on}: exc={r['exc']}; {desc}"})
        elif (r["solved"] != base["solved"] or (r["obj"] != base["obj"] and not (isinstance(r["obj"], (int, float)) and isinstance(base["obj"], (int, float)) and models.num_close(r["obj"], base["obj"])))) \
                and presolve_off_agrees(inst, r["s"], cls, base):
            # classified: with HiGHS' presolve switched off this setting agrees with the baseline => solver (trusted base) defect, keyed as such
            viol.append({"sig": f"C05/options-change-result/solver-presolve-defect/{cls}", "msg": f"all-off: solved={base['solved']} obj={base['obj']}; with {on}: solved={r['solved']} obj={r['obj']}, but the same setting with presolve='off' agrees with the baseline; {desc}"})
        elif (r["solved"] != base["solved"] or (r["obj"] != base["obj"] and not (isinstance(r["obj"], (int, float)) and isinstance(base["obj"], (int, float)) and models.num_close(r["obj"], base["obj"])))) \
                and presolve_off_agrees(inst, base["s"], cls, r) and presolve_off_agrees(inst, r["s"], cls, r):
            # the same mechanism on the other side: it is the ALL-OFF baseline whose status HiGHS' presolve got wrong (e.g. an integer edge-count variable
            # with the fractional upper bound 1.5 of known finding (a), declared kInfeasible by presolve only): with presolve='off' the baseline agrees with
            # this setting, and this setting agrees with itself => under the trusted solver behaviour the options change nothing
            obs["c05.baseline_side_presolve_classified"] += 1
            viol.append({"sig": f"C05/options-change-result/solver-presolve-defect/{cls}", "msg": f"all-off: solved={base['solved']} obj={base['obj']}; with {on}: solved={r['solved']} obj={r['obj']}, but the all-off baseline with presolve='off' agrees with this setting (and so does the setting itself); {desc}"})
        elif r["solved"] != base["solved"]:
            viol.append({"sig": f"C05/solvability-depends-on-options/{cls}/" + "+".join(on)[:150], "msg": f"all-off: solved={base['solved']} obj={base['obj']}; with {on}: solved={r['solved']} obj={r['obj']}; {desc}"})
        elif r["obj"] != base["obj"] and not (isinstance(r["obj"], (int, float)) and isinstance(base["obj"], (int, float)) and models.num_close(r["obj"], base["obj"])):
            viol.append({"sig": f"C05/objective-depends-on-options/{cls}/" + "+".join(on)[:150], "msg": f"all-off objective {base['obj']}; with {on}: {r['obj']}; {desc}"})
    seen = set(); out = []
    for v in viol:
        if v["sig"] not in seen:
            seen.add(v["sig"]); out.append(v)
    nontriv = base["solved"] and changed > 0
    return {"viol": out[:6], "obs": dict(obs), "nontrivial": nontriv, "keys": [hashlib.sha1(desc.encode()).hexdigest()[:14]] if nontriv else [],
            "sample": {"inst": models.brief(inst), "settings": len(settings), "baseline": {"solved": base["solved"], "objective": base["obj"]}, "settings_that_changed_the_model": changed}}
