"""C11 - node-weighted solving equals solving the explicitly node-expanded instance.
Monitors: (solved, objective, routes) of every node-capable class in node mode vs in edge mode on the HARNESS'S OWN expansion
(different node naming, all original edges ignored, constraints / starts / ends / ignore / scaling translated by harness code);
round trips of NodeExpandedDiGraph (expand -> condense) for paths, constraints, elements and graphs."""
import collections, hashlib, copy
import networkx as nx
from fpverif import gen, ref, monitors as M, models, instances as I, workload as W
import flowpaths as fp

LEVEL = "exploration"
RULE = ("case kinds: (diff) one node-weighted instance (DAG or cyclic; nodes without the attribute; single-node graphs; nodes named like expanded "
        "nodes 'a.0'/'a.1'; node-level constraints, ignore lists, error scaling, additional starts/ends) solved in node mode and, as an edge-weighted "
        "instance, on the harness's own expansion v -> (v|i, v|o): solved status and objective must agree, node-mode routes must use original node "
        "names and equal a condensation of valid expanded routes; a node without the attribute must behave like the same node with a value but "
        "ignored; (rt) NodeExpandedDiGraph round trips. non-trivial = both sides solved; distinct = (class, instance)")
CASE_TIMEOUT = {"quick": 200, "thorough": 900}
REQUIRED_OBS = {"c11.pairs_compared": 200, "c11.round_trips": 300, "c11.missing_attr_equivalences": 20}
ASSUMPTIONS = ["a solve that hits the 8 s solver limit on either side yields no verdict", "MinFlowDecomp with additional starts/ends (node mode only) is compared with an explicit instance built by the harness: the expansion plus a helper source S* / helper sink T* joined to the declared nodes by ignored edges"]
EXHAUSTIVE = {"quick": False, "thorough": False}
SO = {"threads": 1, "time_limit": 8}
CLASSES = W.ALL + ["MinErrorFlow"]


def gen_cases(tier, seed):
    cases = []
    n = 22 if tier == "quick" else 220
    for cls in CLASSES:
        for i in range(n):
            cases.append({"kind": "diff", "cls": cls, "rs": f"C11:{seed}:{cls}:{i}"})
    for i in range(n):
        # node-weighted minimum decompositions that start / end at declared inner nodes (explicit instance built by hand)
        cases.append({"kind": "diff", "cls": "MinFlowDecomp", "rs": f"C11se:{seed}:{i}", "force_se": True})
    for i in range(n * 6):
        cases.append({"kind": "rt", "rs": f"C11r:{seed}:{i}"})
    cases.append({"kind": "pctcorpus"})
    for i in range(3):
        for cls in ("kPathCover", "MinPathCover", "kLeastAbsErrors"):
            cases.append({"kind": "covcorpus", "cls": cls, "i": i})
    return cases


def own_expand(base, drop):
    """returns (nodes, edges, eattr) of the harness expansion; node v -> edge (v|i, v|o)"""
    nodes = []; edges = []; ea = {}
    for v in base["nodes"]:
        nodes += [v + "|i", v + "|o"]
        edges.append((v + "|i", v + "|o"))
        ea[(v + "|i", v + "|o")] = {} if v in drop else {"flow": base["flow"][v]}
    for (u, v) in base["edges"]:
        edges.append((u + "|o", v + "|i")); ea[(u + "|o", v + "|i")] = {}
    return nodes, edges, ea


def summary(cls, res):
    if res.get("tl"):
        return ("time-limit",)
    if "exc" in res:
        return ("exc", res["exc"][0])
    if not res["solved"]:
        return ("unsolved",)
    if cls == "MinErrorFlow":
        # all three reported numbers: the solution's objective_value and error, and get_objective_value()
        r6 = lambda x: round(x, 6) if isinstance(x, (int, float)) else str(x)
        return ("solved", r6(res["sol"].get("objective_value")), r6(res["sol"].get("error")), r6(res.get("obj")))
    if cls.startswith("Min"):
        return ("solved", len(models.routes_of(res["sol"])))
    if cls in W.ERR:
        return ("solved", round(res["obj"], 6) if isinstance(res.get("obj"), (int, float)) else res.get("obj"))
    return ("solved",)


def run(inst):
    M.TRACE.reset()
    res = models.run(inst, solver_options=SO)
    res["tl"] = any(t.get("status") == "kTimeLimit" for t in M.TRACE.trace)
    return res


def run_diff(case, viol, obs):
    rng = gen.rng_for(case["rs"]); cls = case["cls"]; cyc = cls.endswith("Cycles")
    wt = rng.choice(["int", "int", "float"])
    if cls == "MinErrorFlow":
        cyc = rng.random() < 0.4
    exact = cls in W.FD
    base = I.cyc_node_base(rng, wt=wt, exact=exact or rng.random() < 0.3, max_edges=7) if cyc else I.dag_node_base(rng, wt=wt, exact=exact or rng.random() < 0.3, max_edges=8)
    nodes = base["nodes"]
    kwn = {}; kwe = {}
    cover = cls in W.COV
    if cover:
        kwn["cover_type"] = "node"
    else:
        kwn.update({"flow_attr": "flow", "weight_type": wt, "flow_attr_origin": "node"}); kwe.update({"flow_attr": "flow", "weight_type": wt})
    if cls.startswith("k"):
        k = max(1, len(base["planted"])) + rng.choice([0, 1]); kwn["k"] = k; kwe["k"] = k
    if cls in ("kFlowDecomp", "MinFlowDecomp"):
        kwn["optimization_options"] = {"optimize_with_greedy": False}; kwe["optimization_options"] = {"optimize_with_greedy": False}
    helper_edges = []; hand_se = {}
    r_se = gen.rng_for("C11se", case["rs"])
    if cls == "MinFlowDecomp" and (r_se.random() < 0.35 or case.get("force_se")) and any(len(p_) >= 2 for p_, _ in base["planted"]):
        # additional start / end nodes of the node-weighted minimum decomposition (its edge mode has no such arguments: the explicit instance
        # gets a helper source S* / helper sink T* joined by ignored edges). One planted path is cut so that it really starts / ends inside.
        var_ = r_se.choice(["s", "e", "e", "se"])
        base = dict(base); base["flow"] = dict(base["flow"]); planted_ = [(list(p_), w_) for p_, w_ in base["planted"]]
        idx_ = [i_ for i_, (p_, _) in enumerate(planted_) if len(p_) >= 2]
        if "e" in var_:
            i_ = r_se.choice(idx_); p_, w_ = planted_[i_]; j_ = r_se.randint(1, len(p_) - 1)
            for v_ in p_[j_:]:
                base["flow"][v_] -= w_
            planted_[i_] = (p_[:j_], w_); hand_se["additional_ends"] = [p_[j_ - 1]]; helper_edges.append((p_[j_ - 1] + "|o", "T*"))
        if "s" in var_:
            idx_ = [i_ for i_, (p_, _) in enumerate(planted_) if len(p_) >= 2]
            if idx_:
                i_ = r_se.choice(idx_); p_, w_ = planted_[i_]; j_ = r_se.randint(1, len(p_) - 1)
                for v_ in p_[:j_]:
                    base["flow"][v_] -= w_
                planted_[i_] = (p_[j_:], w_); hand_se["additional_starts"] = [p_[j_]]; helper_edges.append(("S*", p_[j_] + "|i"))
        base["planted"] = planted_
    drop = []
    ign_nodes = []
    if not cover and rng.random() < 0.3 and len(nodes) >= 2:
        drop = [rng.choice(nodes)]          # node without the attribute
    if rng.random() < 0.3 and len(nodes) >= 3:
        ign_nodes = rng.sample([v for v in nodes if v not in drop], 1)
    feats = []; node_len = None
    H_nodes, H_edges, H_ea = own_expand(base, drop)
    ign_e = [(u + "|o", v + "|i") for (u, v) in base["edges"]] + [(v + "|i", v + "|o") for v in drop + ign_nodes]
    if helper_edges:
        H_nodes = H_nodes + [x for x in ("S*", "T*") if any(x in e for e in helper_edges)]; H_edges = H_edges + helper_edges
        for e in helper_edges:
            H_ea[e] = {}
        ign_e += helper_edges; kwn.update(hand_se); feats.append("starts/ends-by-hand"); obs["c11.mfd_start_end_cases"] += 1
    if ign_nodes:
        kwn["elements_to_ignore"] = list(ign_nodes); feats.append("ignore")
    kwe["elements_to_ignore"] = [list(e) for e in ign_e]
    if cls == "kMinPathErrorCycles" and not ign_nodes and rng.random() < 0.4:
        import numpy as np
        pct = rng.choice([10, 30, 50])
        vals = [base["flow"][v] for v in nodes if v not in drop]
        thr = float(np.percentile(vals, pct)) if vals else 0
        low = [v for v in nodes if v not in drop and base["flow"][v] < thr]
        kwn["elements_to_ignore_percentile"] = pct; feats.append("percentile")
        kwe["elements_to_ignore"] = kwe["elements_to_ignore"] + [[v + "|i", v + "|o"] for v in low]
    if cls in W.ERR + ["MinErrorFlow"] and rng.random() < 0.3:
        sc = {v: rng.choice([0, 0.5, 0.25]) for v in rng.sample(nodes, rng.randint(1, max(1, len(nodes) // 2)))}
        kwn["error_scaling"] = [[v, f] for v, f in sc.items()]; kwe["error_scaling"] = [[[v + "|i", v + "|o"], f] for v, f in sc.items()]; feats.append("scale")
    if cls != "MinErrorFlow" and rng.random() < 0.3 and base["planted"]:
        cons = I.constraints_from_planted(rng, base, n=rng.randint(1, 2), as_nodes=rng.random() < 0.7)
        if cons:
            ckey = "subset_constraints" if cyc else "subpath_constraints"
            kwn[ckey] = gen.jl(cons)
            ce = []
            for c in cons:
                if isinstance(c[0], str):
                    ce.append([[v + "|i", v + "|o"] for v in c])
                else:
                    x = []
                    for i, e in enumerate(c):
                        x += [[e[0] + "|i", e[0] + "|o"], [e[0] + "|o", e[1] + "|i"]]
                        if i == len(c) - 1:
                            x.append([e[1] + "|i", e[1] + "|o"])
                    ce.append(x)
            kwe[ckey] = ce; feats.append("cons")
            r_ = rng.random()
            if r_ < 0.3:
                kwn[ckey + "_coverage"] = 0.5; kwe[ckey + "_coverage"] = 0.5
            elif r_ < 0.65 and not cyc:
                # coverage measured in NODE lengths: in the expansion a node's length sits on its own edge, the connecting edges have length 0
                covlen = rng.choice([0.4, 0.65, 0.96]); node_len = {v: rng.choice([1, 2, 10]) for v in nodes}
                for kw_ in (kwn, kwe):
                    kw_["subpath_constraints_coverage_length"] = covlen; kw_["length_attr"] = "len"
                feats.append("length-coverage")
    se_ok = cls not in ("kFlowDecomp", "MinFlowDecomp") and not (cls == "MinErrorFlow" and cyc)
    if se_ok and rng.random() < 0.25 and len(nodes) >= 3:
        inner = I.inner_nodes(base) or nodes
        a = rng.choice(inner); b = rng.choice(inner)
        kwn["additional_starts"] = [a]; kwe["additional_starts"] = [a + "|i"]
        kwn["additional_ends"] = [b]; kwe["additional_ends"] = [b + "|o"]; feats.append("starts/ends")
    if cls == "MinFlowDecompCycles" and "additional_starts" in kwn:
        # edge mode of MinFlowDecompCycles does not accept additional starts/ends: compare through the k-model instead
        kwn.pop("additional_starts"); kwn.pop("additional_ends"); kwe.pop("additional_starts"); kwe.pop("additional_ends"); feats.remove("starts/ends")
    nl_ = {v: {"len": node_len[v]} for v in nodes} if node_len else None
    # (some node-weighted graphs also carry an attribute of the same name on their EDGES: those values must not matter)
    edge_noise = {e: {"flow": rng.choice([1, 7, 1000])} for e in base["edges"]} if (not cover and rng.random() < 0.3) else None
    if edge_noise:
        feats.append("edge-attrs")
    spec_n = gen.spec(base["nodes"], base["edges"], nattr=nl_) if cover else I.spec_of(base, drop_attr=drop, extra_nattr=nl_, extra_eattr=edge_noise)
    H_ea2 = {e: dict(d) for e, d in H_ea.items()} if not cover else {e: {} for e in H_edges}
    if node_len:
        for e in H_edges:
            H_ea2.setdefault(e, {})["len"] = node_len[e[0][:-2]] if e[0][:-2] == e[1][:-2] and e[0].endswith("|i") else 0
    spec_e = gen.spec(H_nodes, H_edges, eattr=H_ea2 if (node_len or not cover) else None)
    M.TRACE.install(); M.ROUTES.install(); M.ROUTES.drain()
    rn = run({"cls": cls, "spec": spec_n, "kw": kwn})
    route_ev = M.ROUTES.drain()
    re_ = run({"cls": cls, "spec": spec_e, "kw": kwe})
    M.ROUTES.drain()
    sn, se = summary(cls, rn), summary(cls, re_)
    desc = f"{cls} {'cyclic' if cyc else 'DAG'} wt={wt} nodes={[(v, None if v in drop else base['flow'][v]) for v in nodes]} edges={base['edges']} node-mode kw={ {k: v for k, v in kwn.items() if k not in ('flow_attr', 'weight_type', 'flow_attr_origin')} }"[:900]
    tag = ("/" + "+".join(feats)) if feats else ""
    if drop:
        tag += "/missing-attr"
    if "time-limit" in (sn[0], se[0]):
        obs["c11.time_limited"] += 1
        return None, False, None
    obs["c11.pairs_compared"] += 1
    if sn != se:
        if edge_noise and cyc and sn[0] in ("solved", "unsolved") and se[0] in ("solved", "unsolved"):
            # classify by mechanism: the walk models' per-edge multiplicity caps (largest reachable weight) are computed from raw attribute
            # values, here also from the values carried by the (ignored) original edges of the node-weighted graph
            def caps_of(res, a, b):
                c = getattr(res.get("model"), "edge_upper_bounds", None) or {}
                return sorted((str(k).replace(a, "~").replace(b, "^"), float(v)) for k, v in c.items() if "source_" not in str(k) and "sink_" not in str(k))
            if caps_of(rn, ".0", ".1") != caps_of(re_, "|i", "|o"):
                tag = "/edge-cap-uses-ignored-values"
        viol.append({"sig": f"C11/node-mode-differs-from-own-expansion/{cls}{tag}", "msg": f"node mode: {sn} ({rn.get('exc')}); edge mode on the harness expansion: {se} ({re_.get('exc')}); {desc}"})
    if rn.get("solved") and cls != "MinErrorFlow":
        G = gen.build(spec_n)
        for r in models.routes_of(rn["sol"]):
            if any(v not in G for v in r) or any(not G.has_edge(a, b) for a, b in zip(r, r[1:])):
                viol.append({"sig": f"C11/node-mode-route-not-in-original-names/{cls}{tag}", "msg": f"route {r}; {desc}"}); break
    if rn.get("solved") and cls == "MinErrorFlow" and re_.get("solved"):
        Hn = rn["sol"]["graph"]
        if set(Hn.nodes) != set(nodes) or set(Hn.edges) != set(base["edges"]):
            viol.append({"sig": f"C11/MinErrorFlow-node-graph-changed{tag}", "msg": desc})
    # a node lacking the attribute == the same node with a value but explicitly ignored
    if drop and not cover and "elements_to_ignore_percentile" not in kwn:      # (an explicit ignore list cannot be combined with the percentile)
        kw3 = copy.deepcopy(kwn); kw3["elements_to_ignore"] = list(kw3.get("elements_to_ignore", [])) + drop
        b3 = dict(base); b3["flow"] = dict(base["flow"]); b3["flow"][drop[0]] = 5 if wt == "int" else 5.5
        r3 = run({"cls": cls, "spec": I.spec_of(b3), "kw": kw3})
        s3 = summary(cls, r3)
        if s3[0] != "time-limit":
            obs["c11.missing_attr_equivalences"] += 1
            if s3 != sn:
                # classify by mechanism: do the walk model's per-edge multiplicity caps (largest reachable weight) depend on the ignored node's value?
                c1 = getattr(rn.get("model"), "edge_upper_bounds", None); c3 = getattr(r3.get("model"), "edge_upper_bounds", None)
                if c1 is not None and c3 is not None and {str(k): v for k, v in c1.items() if "source_" not in str(k) and "sink_" not in str(k)} != {str(k): v for k, v in c3.items() if "source_" not in str(k) and "sink_" not in str(k)}:
                    tag = "/edge-cap-uses-ignored-values"
                viol.append({"sig": f"C11/missing-attribute-differs-from-ignored-node/{cls}{tag}", "msg": f"node {drop[0]} without attribute: {sn}; with value 5 but ignored: {s3}; {desc}"})
    return hashlib.sha1(desc.encode()).hexdigest()[:14], sn[0] == "solved" and se[0] == "solved", {"desc": desc[:600], "node_mode": str(sn), "own_expansion": str(se)}


def run_rt(case, viol, obs):
    rng = gen.rng_for(case["rs"])
    nodes, edges = gen.cyc_any(rng, 10) if rng.random() < 0.5 else gen.dag_any(rng, 10)
    if rng.random() < 0.3:
        nodes = list(nodes) + ["iso.0"]
    G = nx.DiGraph(); G.add_nodes_from(nodes); G.add_edges_from(edges)
    for v in G.nodes:
        if rng.random() < 0.8:
            G.nodes[v]["flow"] = rng.randint(0, 9)
        if rng.random() < 0.5:
            G.nodes[v]["len"] = rng.randint(1, 5)
    before = M.struct(G)
    r = M.safe_call(fp.NodeExpandedDiGraph, G, node_flow_attr="flow", node_length_attr="len")
    if r[0] != "ok":
        viol.append({"sig": f"C11/NodeExpandedDiGraph-raises/{r[1]}", "msg": f"{r[2]}; nodes {list(G.nodes)}"}); return None, False, None
    X = r[1]
    desc = f"nodes={list(G.nodes(data=True))} edges={list(G.edges)}"
    obs["c11.round_trips"] += 1
    if M.struct(G) != before:
        viol.append({"sig": "C11/expansion-mutates-input", "msg": desc})
    # structure of the expansion
    exp_edges = {(v + ".0", v + ".1") for v in G.nodes} | {(u + ".1", v + ".0") for u, v in G.edges}
    if set(X.edges) != exp_edges or set(X.nodes) != {v + s for v in G.nodes for s in (".0", ".1")}:
        viol.append({"sig": "C11/expansion-structure", "msg": f"{sorted(X.edges)[:10]}; {desc}"})
    for v in G.nodes:
        e = X.get_expanded_edge(v)
        if e != (v + ".0", v + ".1"):
            viol.append({"sig": "C11/get_expanded_edge-node", "msg": f"{v} -> {e}"})
        has = "flow" in G.nodes[v]
        if has != ("flow" in X.edges[e]) or (has and X.edges[e]["flow"] != G.nodes[v]["flow"]):
            viol.append({"sig": "C11/expansion-value-not-copied", "msg": f"node {v}: {G.nodes[v]} -> {X.edges[e]}"})
        if (not has) != (e in X.edges_to_ignore):
            viol.append({"sig": "C11/missing-attribute-not-ignored", "msg": f"node {v} has attr={has}, in edges_to_ignore={e in X.edges_to_ignore}; {desc}"})
    for (u, v) in G.edges:
        if X.get_expanded_edge((u, v)) != (u + ".1", v + ".0") or (u + ".1", v + ".0") not in X.edges_to_ignore:
            viol.append({"sig": "C11/get_expanded_edge-edge", "msg": f"{(u, v)}"})
    # paths round trip (random walks of G incl. one-node walks)
    for _ in range(6):
        v = rng.choice(list(G.nodes)); p = [v]
        for _ in range(rng.randint(0, 6)):
            s = list(G.successors(p[-1]))
            if not s:
                break
            p.append(rng.choice(s))
        ep = [x for v in p for x in (v + ".0", v + ".1")]
        c = M.safe_call(X.get_condensed_paths, [ep, []])
        obs["c11.round_trips"] += 1
        if c[0] != "ok" or c[1] != [p, []]:
            viol.append({"sig": "C11/path-round-trip", "msg": f"{p} -> {ep} -> {c[1:]}"})
        # constraints round trip: node list and edge list
        cn = M.safe_call(X.get_expanded_subpath_constraints, [list(p)])
        if cn[0] != "ok" or cn[1] != [[(v + ".0", v + ".1") for v in p]]:
            viol.append({"sig": "C11/node-constraint-expansion", "msg": f"{p} -> {cn[1:]}"})
        elif [e[0][:-2] for e in cn[1][0]] != p:
            viol.append({"sig": "C11/constraint-round-trip", "msg": f"{p}"})
        if len(p) >= 2:
            pe = list(zip(p, p[1:]))
            ce = M.safe_call(X.get_expanded_subpath_constraints, [pe])
            want = []
            for i, (a, b) in enumerate(pe):
                want += [(a + ".0", a + ".1"), (a + ".1", b + ".0")]
                if i == len(pe) - 1:
                    want.append((b + ".0", b + ".1"))
            if ce[0] != "ok" or ce[1] != [want]:
                viol.append({"sig": "C11/edge-constraint-expansion", "msg": f"{pe} -> {ce[1:]} expected {want}"})
            elif any(not X.has_edge(*e) for e in ce[1][0]):
                viol.append({"sig": "C11/expanded-constraint-has-non-edge", "msg": f"{pe}"})
    s = M.safe_call(X.get_expanded_additional_starts, list(G.nodes)[:2]); t = M.safe_call(X.get_expanded_additional_ends, list(G.nodes)[:2])
    if s[1:] != ([v + ".0" for v in list(G.nodes)[:2]],) or t[1:] != ([v + ".1" for v in list(G.nodes)[:2]],):
        viol.append({"sig": "C11/expanded-starts-ends", "msg": f"{s} {t}"})
    cg = M.safe_call(X.get_condensed_graph)
    if cg[0] != "ok" or M.struct(cg[1]) != before:
        viol.append({"sig": "C11/graph-round-trip", "msg": f"condensed graph differs from the original; {desc}"[:600]})
    return hashlib.sha1(desc.encode()).hexdigest()[:14], True, {"nodes": list(G.nodes)[:8], "edges": list(G.edges)[:8]}


COVLEN_CORPUS = [
    # (nodes, edges, node lengths, constraint as edge list, coverage_length, k): the required fraction lies between the constraint's
    # coverage counted in node lengths only and the one that would also count the connecting edges
    (["a", "b", "c", "d", "x"], [("a", "b"), ("b", "c"), ("b", "d"), ("x", "c")], 1, [["a", "b"], ["b", "c"]], 0.65, 2),
    (["a", "b", "c"], [("a", "b"), ("a", "c"), ("c", "b")], 10, [["a", "b"]], 0.96, 1),
    (["a", "b", "c", "d"], [("a", "b"), ("b", "c"), ("c", "d"), ("a", "d")], 2, [["a", "b"], ["b", "c"], ["c", "d"]], 0.7, 2),
]


def run_covcorpus(case, viol, obs):
    nodes, edges, ln, cons, covlen, k = COVLEN_CORPUS[case["i"]]; cls = case["cls"]
    kwn = {"cover_type": "node", "subpath_constraints": cons, "subpath_constraints_coverage_length": covlen, "length_attr": "len"}
    ce = []
    for i, e in enumerate(cons):
        ce += [[e[0] + "|i", e[0] + "|o"], [e[0] + "|o", e[1] + "|i"]]
        if i == len(cons) - 1:
            ce.append([e[1] + "|i", e[1] + "|o"])
    kwe = {"subpath_constraints": [ce], "subpath_constraints_coverage_length": covlen, "length_attr": "len",
           "elements_to_ignore": [[u + "|o", v + "|i"] for u, v in edges]}
    kwn["subpath_constraints"] = [cons]
    if cls.startswith("k"):
        kwn["k"] = k; kwe["k"] = k
    Hn = [x for v in nodes for x in (v + "|i", v + "|o")]; He = [(v + "|i", v + "|o") for v in nodes] + [(u + "|o", v + "|i") for u, v in edges]
    spec_n = gen.spec(nodes, edges, nattr={v: {"len": ln} for v in nodes})
    spec_e = gen.spec(Hn, He, eattr={e: {"len": (ln if e[0][:-2] == e[1][:-2] else 0)} for e in He})
    M.TRACE.install()
    rn = run({"cls": cls, "spec": spec_n, "kw": kwn}); re_ = run({"cls": cls, "spec": spec_e, "kw": kwe})
    sn, se = summary(cls, rn), summary(cls, re_)
    obs["c11.pairs_compared"] += 1
    desc = f"{cls} nodes={nodes} (length {ln} each) edges={edges} constraint={cons} coverage_length={covlen} k={k}"
    if "time-limit" not in (sn[0], se[0]) and sn != se:
        viol.append({"sig": f"C11/node-mode-differs-from-own-expansion/{cls}/cons+length-coverage", "msg": f"node mode: {sn} ({rn.get('exc')}); edge mode on the harness expansion: {se} ({re_.get('exc')}); {desc}"})
    return hashlib.sha1(desc.encode()).hexdigest()[:14], True, {"desc": desc, "node_mode": str(sn), "own_expansion": str(se)}


def run_pctcorpus(case, viol, obs):
    """elements_to_ignore_percentile on a node-weighted graph whose EDGES also carry an attribute of the same name: the percentile is
    about the node weights only, so the result must equal the explicit ignore list on the harness expansion."""
    import numpy as np
    nodes = {"a": 10, "b": 4, "c": 10}; edges = [("a", "b"), ("b", "c")]; p_ = 30
    out = {}
    for ev in (None, 1, 1000):
        sp = gen.spec(list(nodes), edges, nattr={v: {"flow": f} for v, f in nodes.items()}, eattr=({e: {"flow": ev} for e in edges} if ev is not None else None))
        r = run({"cls": "kMinPathErrorCycles", "spec": sp, "kw": {"flow_attr": "flow", "flow_attr_origin": "node", "weight_type": "int", "k": 1, "elements_to_ignore_percentile": p_}})
        out[ev] = summary("kMinPathErrorCycles", r)
    thr = float(np.percentile(list(nodes.values()), p_)); low = [v for v, f in nodes.items() if f < thr]
    Hn = [x for v in nodes for x in (v + "|i", v + "|o")]; He = [(v + "|i", v + "|o") for v in nodes] + [(u + "|o", v + "|i") for u, v in edges]
    spe = gen.spec(Hn, He, eattr={(v + "|i", v + "|o"): {"flow": f} for v, f in nodes.items()})
    re_ = run({"cls": "kMinPathErrorCycles", "spec": spe, "kw": {"flow_attr": "flow", "weight_type": "int", "k": 1,
                                                               "elements_to_ignore": [[u + "|o", v + "|i"] for u, v in edges] + [[v + "|i", v + "|o"] for v in low]}})
    exp = summary("kMinPathErrorCycles", re_)
    obs["c11.pairs_compared"] += 3
    for ev, sn in out.items():
        if "time-limit" not in (sn[0], exp[0]) and sn != exp:
            viol.append({"sig": "C11/node-mode-differs-from-own-expansion/kMinPathErrorCycles/percentile+edge-attrs", "msg": f"nodes {nodes} edges {edges} carrying flow={ev}, percentile {p_}: node mode {sn}, explicit expansion ignoring {low}: {exp}"})
    return "pctcorpus", True, {"node_mode": {str(k): str(v) for k, v in out.items()}, "expansion": str(exp)}


def run_case(case):
    viol = []; obs = collections.Counter()
    key, nontriv, sample = {"diff": run_diff, "rt": run_rt, "covcorpus": run_covcorpus, "pctcorpus": run_pctcorpus}[case["kind"]](case, viol, obs)
    seen = set(); out = []
    for v in viol:
        if v["sig"] not in seen:
            seen.add(v["sig"]); out.append(v)
    return {"viol": out[:5], "obs": dict(obs), "nontrivial": bool(nontriv), "keys": [key] if key and nontriv else [], "sample": sample or {"case": case["kind"]}}
