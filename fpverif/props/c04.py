"""C04 - MinFlowDecompCycles finds a decomposition into the fewest walks (+ scale invariance for float weights).
Monitors: MinFlowDecompCycles.solve()/get_solution(). Oracle: exact z3 minimum over ALL walk multiplicity vectors with
x_e <= f_e (<= 1 on inter-SCC edges) - for positive integer weights this cap is implied by the flow equations, so the
reference is exhaustive and the comparison is an equality. Scale clause: metamorphic comparison of float runs."""
import collections, hashlib
from fpverif import gen, ref, monitors as M, models, instances as I
import flowpaths as fp

LEVEL = "exploration"
RULE = ("case = digraph (every edge on a source-to-sink walk; self-loops, nested/touching cycles, parallel SCC exits, several sources/sinks) with a "
        "planted integer walk superposition (multiplicities > 1 occur), optional subset constraints with coverage, ignored elements, node-weighted "
        "variants with additional starts/ends, one walk-model option set; judged against the z3 minimum over all Euler vectors. "
        "scale cases: float weight type on f and on c*f for c in {2,10,0.5,0.1} must agree in solved status and number of walks. "
        "non-trivial = graph has a cycle and optimum >= 1; distinct = (edges, flows, constraints, options)")
CASE_TIMEOUT = {"quick": 150, "thorough": 600}
REQUIRED_OBS = {"c04.compared_with_reference": 120, "c04.scale_pairs": 20}
ASSUMPTIONS = ["flows are positive integers obtained from planted walks; graphs <= 11 edges, flows <= 6, <= 6000 Euler vectors (larger instances are skipped and counted)"]
EXHAUSTIVE = {"quick": False, "thorough": False}
SO = {"threads": 1, "time_limit": 30}

OPTS = [None, {}, {"optimize_with_safe_sequences": False}, {"optimize_with_safety_as_subset_constraints": True},
        {"optimize_with_max_safe_antichain_as_subset_constraints": True}, {"optimize_with_safe_sequences_fix_via_bounds": True},
        {"optimize_with_safe_sequences_allow_geq_constraints": False}, {"optimize_with_safe_sequences_fix_zero_edges": False},
        {"optimize_with_guessed_weights": True}, {"use_min_gen_set_lowerbound": True},
        {"optimize_with_guessed_weights": True, "use_min_gen_set_lowerbound": True},
        {"optimize_with_guessed_weights": True, "optimize_with_given_weights_num_free_walks": 1}]

CORPUS = [
    (["s", "a", "b", "t"], [("s", "a"), ("a", "b"), ("b", "a"), ("a", "t")], {("s", "a"): 3, ("a", "b"): 2, ("b", "a"): 2, ("a", "t"): 3}),
    (["s", "t"], [("s", "t")], {("s", "t"): 4}),
    (["s", "a", "t"], [("s", "a"), ("a", "a"), ("a", "t")], {("s", "a"): 1, ("a", "a"): 3, ("a", "t"): 1}),
    (["s", "a", "b", "c", "t"], [("s", "a"), ("a", "b"), ("b", "a"), ("a", "c"), ("c", "a"), ("a", "t")],
     {("s", "a"): 2, ("a", "b"): 3, ("b", "a"): 3, ("a", "c"): 1, ("c", "a"): 1, ("a", "t"): 2}),
    (["s", "x", "y", "z"], [("s", "x"), ("s", "y"), ("s", "z")], {("s", "x"): 1, ("s", "y"): 2, ("s", "z"): 4}),
    # the flow values 1, 2, 3 explain the two cycles and the exit via d with 3 light walks; ONE walk of weight 1 going round both cycles does too (optimum 2)
    (["s", "a", "b", "c", "d", "t"], [("s", "a"), ("a", "b"), ("b", "a"), ("a", "c"), ("c", "a"), ("a", "d"), ("d", "t"), ("a", "t")],
     {("s", "a"): 6, ("a", "b"): 2, ("b", "a"): 2, ("a", "c"): 3, ("c", "a"): 3, ("a", "d"): 1, ("d", "t"): 1, ("a", "t"): 5}),
]


def gen_cases(tier, seed):
    cases = []
    # ignored edge that one walk must traverse twice (its own value says 9 / 0)
    for garbage in (9, 0, 1):
        base = {"nodes": ["a", "c", "d", "b"], "edges": [("a", "c"), ("c", "d"), ("d", "c"), ("d", "b")], "flow": {("a", "c"): 1, ("c", "d"): garbage, ("d", "c"): 1, ("d", "b"): 1},
                "planted": [], "wt": "int", "mode": "edge"}
        for oo in (None, OPTS[2]):
            cases.append({"kind": "opt", "spec": I.spec_of(base), "mode": "edge", "cons": [], "cov": 1.0, "ignore": [["c", "d"]], "oo": oo, "starts": [], "ends": []})
    # a hub whose (in-edge, out-edge) pairs are all constrained: the optimum (8) exceeds the number of edges (6)
    hub_n = ["a", "b", "c", "d", "h", "x", "y"]; hub_e = [("a", "h"), ("b", "h"), ("c", "h"), ("d", "h"), ("h", "x"), ("h", "y")]
    hub_f = {("a", "h"): 2, ("b", "h"): 2, ("c", "h"): 2, ("d", "h"): 2, ("h", "x"): 4, ("h", "y"): 4}
    hub_c = [[[u, "h"], ["h", w]] for u in ("a", "b", "c", "d") for w in ("x", "y")]
    base = {"nodes": hub_n, "edges": hub_e, "flow": dict(hub_f), "planted": [], "wt": "int", "mode": "edge"}
    for cons in (hub_c, hub_c[:7]):
        cases.append({"kind": "opt", "spec": I.spec_of(base), "mode": "edge", "cons": cons, "cov": 1.0, "ignore": [], "oo": None, "starts": [], "ends": []})
    for i, (nodes, edges, fl) in enumerate(CORPUS):
        base = {"nodes": nodes, "edges": edges, "flow": fl, "planted": [], "wt": "int", "mode": "edge"}
        for oo in (None, OPTS[2], OPTS[5], OPTS[8], OPTS[10]):
            cases.append({"kind": "opt", "spec": I.spec_of(base), "mode": "edge", "cons": [], "cov": 1.0, "ignore": [], "oo": oo, "starts": [], "ends": []})
        for c in (2, 10, 0.5, 0.1):
            cases.append({"kind": "scale", "spec": I.spec_of(base), "c": c})
    n = 160 if tier == "quick" else 2500
    for i in range(n):
        rng = gen.rng_for("C04", seed, i)
        node = rng.random() < 0.2
        base = I.cyc_node_base(rng, wt="int", max_edges=8) if node else I.cyc_edge_base(rng, wt="int", max_edges=10 if tier == "quick" else 11)
        if not node and rng.random() < 0.1:
            # a hub on ONE long cycle, entered from several sources and left to several sinks: sequences that start and end in the hub (closed
            # safe sequences) occur, and reachability FROM the hub and TO the hub are asked for the same node
            L = rng.choice([3, 5, 5, 6]); ns = rng.randint(2, 3)
            cn = ["h"] + [f"c{j}" for j in range(1, L)]; ce = list(zip(cn, cn[1:] + ["h"]))
            wts = [rng.randint(1, 3) for _ in range(ns)]; rounds = [rng.choice([0, 1, 3]) for _ in range(ns)]
            if not any(rounds):
                rounds[0] = rng.choice([1, 3])
            fl = {}; planted_ = []
            for i_ in range(ns):
                wk = [f"s{i_}", "h"] + (cn[1:] + ["h"]) * rounds[i_] + [f"t{i_}"]
                planted_.append((wk, wts[i_]))
                for e in zip(wk, wk[1:]):
                    fl[e] = fl.get(e, 0) + wts[i_]
            eds = [(f"s{i_}", "h") for i_ in range(ns)] + ce + [("h", f"t{i_}") for i_ in range(ns)]
            rng.shuffle(eds)
            base = {"nodes": [f"s{i_}" for i_ in range(ns)] + cn + [f"t{i_}" for i_ in range(ns)], "edges": eds, "flow": {e: fl[e] for e in eds}, "planted": planted_, "wt": "int", "mode": "edge", "noise": {}}
        c = {"kind": "opt", "mode": base["mode"], "cons": [], "cov": 1.0, "ignore": [], "oo": rng.choice(OPTS), "starts": [], "ends": [], "planted": len(base["planted"])}
        drop = []; garbage = {}
        if rng.random() < 0.3 and base["planted"]:
            cons = I.constraints_from_planted(rng, base, as_nodes=True)
            c["cons"] = gen.jl(cons); c["cov"] = rng.choice([1.0, 1.0, 0.5])
        if not node and rng.random() < 0.3:
            # a 'crossing' subset constraint: an edge inside a strongly connected component together with some other edge, whether or not a planted
            # walk contains both (a walk may go round the cycle many times and still miss the other edge; if no walk contains both the instance
            # has no constrained decomposition and 'unsolved' is the right answer)
            comp_ = ref.scc_map(gen.build(I.spec_of(base)))
            inner_ = [e for e in base["edges"] if comp_[e[0]] == comp_[e[1]]]
            if inner_:
                e1 = rng.choice(inner_); others = [e for e in base["edges"] if e != e1]
                if others:
                    pick = [e1, rng.choice(others)] + ([rng.choice(inner_)] if rng.random() < 0.3 else [])
                    c["cons"] = c["cons"] + gen.jl([list(dict.fromkeys(pick))]); c["crossing"] = True
        if c["cons"] and not node and rng.random() < 0.35:
            # a SUBSET constraint is a set: an edge listed more than once (e.g. the edge list of a walk that goes round a cycle twice) counts once
            c["cons"] = [cc + [rng.choice(cc) for _ in range(rng.randint(1, 2))] for cc in c["cons"]]
            c["dup"] = True
        if rng.random() < 0.2 and len(base["edges"]) >= 3:
            ign = I.pick_ignore(rng, base, 0.2)
            c["ignore"] = gen.jl(ign)
            for e in ign:
                g = rng.choice(["keep", "garbage", "zero"])
                if g == "garbage":
                    garbage[e] = 9
                elif g == "zero":
                    garbage[e] = 0
        if node and rng.random() < 0.3:
            inner = I.inner_nodes(base)
            if inner:
                c["starts"] = [rng.choice(inner)]
        c["spec"] = I.spec_of(base, drop_attr=drop, garbage=garbage)
        cases.append(c)
    for i in range(n // 4):
        rng = gen.rng_for("C04s", seed, i)
        base = I.cyc_edge_base(rng, wt="int", max_edges=9)
        cases.append({"kind": "scale", "spec": I.spec_of(base), "c": rng.choice([2, 10, 0.5, 0.1, 0.25, 1e4, 1e6, 2.5, 1.5, 3.7])})
        if i % 3 == 0:
            # a single weighted walk (the optimum is 1 walk whatever the factor), scaled to values that are not whole numbers
            b1 = I.cyc_edge_base(rng, wt="int", max_edges=8, npaths=1)
            if len(b1["planted"]) == 1:
                cases.append({"kind": "scale", "spec": I.spec_of(b1), "c": rng.choice([2.5, 1.5, 3.7, 0.75])})
    return cases


def reference(G, mode, ignore, cons, cov, starts, ends):
    S = list(dict.fromkeys(ref.sources(G) + list(starts))); T = list(dict.fromkeys(ref.sinks(G) + list(ends)))
    comp = ref.scc_map(G)
    if mode == "edge":
        fl = {(u, v): d.get("flow") for u, v, d in G.edges(data=True)}
        mx = max([f for f in fl.values() if f is not None] + [1])
        cap = {}
        for e in G.edges:
            # ignored edges have no a-priori multiplicity bound: the reference is then a bounded witness search (see below)
            c = int(fl[e]) if (fl[e] is not None and e not in ignore) else min(5, int(sum(f for ee, f in fl.items() if f is not None and ee not in ignore)) + 1)
            cap[e] = min(c, 1) if comp[e[0]] != comp[e[1]] else c
        edges, vecs = ref.walk_vectors(G, S, T, cap)
        cols = [v["x"] for v in vecs if v["x"]]
        demand = {e: f for e, f in fl.items() if e not in ignore and f is not None}
    else:
        nf = {v: d.get("flow") for v, d in G.nodes(data=True)}
        mx = max([f for f in nf.values() if f is not None] + [1])
        nc = {v: (int(nf[v]) if (nf[v] is not None and v not in ignore) else min(5, int(sum(f for vv, f in nf.items() if f is not None and vv not in ignore)) + 1)) for v in G.nodes}
        cap = {}
        for (u, v) in G.edges:
            c = min(nc[u], nc[v])
            cap[(u, v)] = min(c, 1) if comp[u] != comp[v] else c
        edges, vecs = ref.walk_vectors(G, S, T, cap)
        cols = []
        for v in vecs:
            cnt = collections.Counter()
            cnt[v["start"]] += 1
            for (a, b), m in v["x"].items():
                cnt[b] += m
            cols.append(dict(cnt))
        demand = {v: f for v, f in nf.items() if v not in ignore and f is not None}
    cons_cols = []
    for c in cons:
        cs = set(c)
        cons_cols.append([i for i, col in enumerate(cols) if sum(1 for e in cs if col.get(e, 0) > 0) >= len(cs) * cov - 1e-12])
    return ref.mfd_min(cols, demand, int, cons_cols), len(cols)


def run_opt(case, viol, obs):
    G = gen.build(case["spec"]); mode = case["mode"]
    ign = [models._elem(e) for e in case["ignore"]]
    cons = [[models._elem(e) for e in c] for c in case["cons"]]
    kw = {"flow_attr": "flow", "weight_type": "int"}
    if case["oo"] is not None:
        kw["optimization_options"] = dict(case["oo"])
    if mode == "node":
        kw["flow_attr_origin"] = "node"
    if cons:
        kw["subset_constraints"] = case["cons"]; kw["subset_constraints_coverage"] = case["cov"]
    if ign:
        kw["elements_to_ignore"] = case["ignore"]
    if case["starts"]:
        kw["additional_starts"] = case["starts"]
    if case["ends"]:
        kw["additional_ends"] = case["ends"]
    inst = {"cls": "MinFlowDecompCycles", "spec": case["spec"], "kw": kw}
    M.ROUTES.install(); M.ROUTES.drain(); M.TRACE.install(); M.TRACE.reset()
    res = models.run(inst, solver_options=SO)
    side = [s for s, _ in M.ROUTES.drain()]
    if not res.get("solved") and any(t.get("status") == "kTimeLimit" for t in M.TRACE.trace):
        obs["c04.time_limited"] += 1       # heavy-tailed MILP: no verdict from this case
        return side, None, False, None
    desc = f"mode={mode} edges={[(u, v, d.get('flow')) for u, v, d in G.edges(data=True)]}" + (f" nodes={[(v, d.get('flow')) for v, d in G.nodes(data=True)]}" if mode == "node" else "") + f" cons={cons} cov={case['cov']} ignore={ign} starts={case['starts']} oo={case['oo']}"
    try:
        kstar, ncols = reference(G, mode, set(ign), cons, case["cov"], case["starts"], case["ends"])
    except ref.RefTimeout:
        obs["c04.ref_too_big"] += 1
        return side, None, False, None
    obs["c04.compared_with_reference"] += 1
    tags = [t for t, c in (("ignore", ign), ("node", mode == "node"), ("cons", cons), ("starts", case["starts"])) if c]
    oo = case["oo"] or {}
    tags += [k for k in ("use_min_gen_set_lowerbound", "optimize_with_guessed_weights", "optimize_with_safe_sequences_fix_via_bounds") if oo.get(k)]
    tagstr = ("/" + "/".join(tags)) if tags else ""
    if "exc" in res:
        viol.append({"sig": f"C04/{res['stage']}-raises/{res['exc'][0]}{tagstr}", "msg": f"{res['exc']}; reference optimum {kstar}; {desc}"})
    elif kstar is None:
        if res["solved"]:
            if ign or case.get("crossing"):
                obs["c04.bounded_reference_beaten"] += 1     # with ignored elements the reference is a bounded witness search: no alarm
            else:
                viol.append({"sig": "C04/solved-but-reference-infeasible" + tagstr, "msg": desc})
    elif not res["solved"]:
        viol.append({"sig": "C04/unsolved" + tagstr, "msg": f"solve() returned {res.get('solve_ret')} but {kstar} walks decompose the flow ({ncols} Euler vectors); {desc}"})
    else:
        got = len(res["sol"]["walks"])
        if cons and mode == "edge":
            # the returned walks are a decomposition UNDER the constraints only if every constraint is met by a single walk
            obs["c04.constraints_checked_on_solution"] += 1
            for cc in cons:
                cs = set(cc)
                if not any(sum(1 for e in cs if e in set(zip(w_, w_[1:]))) >= len(cs) * case["cov"] - 1e-12 for w_ in res["sol"]["walks"]):
                    viol.append({"sig": "C04/returned-walks-do-not-satisfy-a-subset-constraint" + tagstr, "msg": f"constraint {cc} (coverage {case['cov']}) is met by none of {res['sol']['walks']}; {desc}"})
                    break
        if got < kstar and (ign or case.get("crossing")):
            # (with ignored elements, and with constraints that zero-weight walks of high multiplicity may serve, the reference is a bounded witness search)
            obs["c04.bounded_reference_beaten"] += 1
        elif got != kstar:
            mech = tagstr
            if got > kstar:
                # classify: does the library find the minimum as soon as HiGHS' presolve is switched off? Then the solver (trusted base)
                # wrongly declared a feasible k-model infeasible - keyed as its own mechanism
                r2 = models.run(inst, solver_options=dict(SO, presolve="off"))
                if r2.get("solved") and len(r2["sol"]["walks"]) == kstar:
                    mech = "/solver-presolve-declares-feasible-k-model-infeasible"
            viol.append({"sig": ("C04/not-minimum" if got > kstar else "C04/below-reference") + mech, "msg": f"returned {got} walks, exact minimum {kstar}; {desc}"})
        lb = getattr(res.get("model"), "_lowerbound_k", None)
        if lb is not None and lb > kstar:
            viol.append({"sig": "C04/lower-bound-overshoots" + tagstr, "msg": f"lower bound {lb} > minimum {kstar}; {desc}"})
    cyc = not ref.is_dag(G)
    return side, hashlib.sha1(desc.encode()).hexdigest()[:14], bool(cyc and kstar), {"edges": [(u, v, d.get("flow")) for u, v, d in G.edges(data=True)], "oo": case["oo"], "reference": kstar, "library": len(res["sol"]["walks"]) if res.get("sol") else None}


def run_scale(case, viol, obs):
    G = gen.build(case["spec"]); c = case["c"]
    out = []
    for fac in (1, c):
        sp = {"nodes": case["spec"]["nodes"], "edges": [[u, v, {"flow": float(d["flow"]) * fac}] for u, v, d in case["spec"]["edges"]], "graph": {}}
        res = models.run({"cls": "MinFlowDecompCycles", "spec": sp, "kw": {"flow_attr": "flow", "weight_type": "float"}}, solver_options=SO)
        out.append((res.get("solved"), len(res["sol"]["walks"]) if res.get("sol") else None, res.get("exc")))
    obs["c04.scale_pairs"] += 1
    desc = f"edges={[(u, v, d.get('flow')) for u, v, d in G.edges(data=True)]} factor={c}"
    if out[0][:2] != out[1][:2]:
        # one mechanism: per-edge multiplicity caps are taken from the (float) flow values, so shrinking the flows shrinks the caps
        sig = "C04/scale-changes-result" + ("/shrinking-factor" if c < 1 else ("/growing-factor" if c <= 100 else "/factor>=1e4-numerical-range"))
        viol.append({"sig": sig, "msg": f"float run on f: solved={out[0][0]} walks={out[0][1]} exc={out[0][2]}; on {c}*f: solved={out[1][0]} walks={out[1][1]} exc={out[1][2]}; {desc}"})
    return [], hashlib.sha1(desc.encode()).hexdigest()[:14], True, {"scale": c, "edges": [(u, v, d.get("flow")) for u, v, d in G.edges(data=True)], "results": out}


def run_case(case):
    viol = []; obs = collections.Counter()
    side, key, nontriv, sample = (run_opt if case["kind"] == "opt" else run_scale)(case, viol, obs)
    return {"viol": viol, "obs": dict(obs), "side": side, "nontrivial": nontriv, "keys": [key] if key and nontriv else [], "sample": sample}
