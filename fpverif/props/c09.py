"""C09 - minimum path/walk covers cover everything with the fewest routes; width equals it.
Monitors: MinPathCover / MinPathCoverCycles get_solution(), kPathCover / kPathCoverCycles is_solved(), stDAG.get_width(),
stDiGraph.get_width(). Oracles: z3 set cover over all source-to-sink paths (DAG) / over the paths of the SCC multigraph
(cyclic; an independent formulation of the library's expanded condensation)."""
import collections, hashlib
from fpverif import gen, ref, monitors as M, models
import flowpaths as fp

LEVEL = "exploration"
RULE = ("case = DAG or digraph (every edge on a source-to-sink walk) x cover_type edge/node x random ignore set (never everything) x optional "
        "additional starts/ends x optional constraints with coverage; the Min* model must be solved, cover every non-ignored element and use "
        "exactly the reference minimum number of routes; get_width (ignored edges passed together with the source/sink edges) must equal the "
        "reference; k-cover models for k in {w-1,w,w+1,w+2} must be solved iff k >= w. non-trivial = minimum >= 2 or a cycle; "
        "distinct = (edges, cover type, ignore, starts/ends, constraints)")
CASE_TIMEOUT = {"quick": 150, "thorough": 600}
REQUIRED_OBS = {"c09.min_cover_compared": 150, "c09.width_compared": 150, "c09.kcover_status_compared": 200}
ASSUMPTIONS = ["graphs <= 12 edges (all source-to-sink paths / SCC-multigraph paths enumerable)", "constraints only with cover_type='edge' in the reference"]
EXHAUSTIVE = {"quick": False, "thorough": False}
SO = {"threads": 1, "time_limit": 30}


WIDTH_SHAPES = [gen.cyc_figure8, gen.cyc_selfloop, gen.cyc_long_chord, gen.cyc_two_sccs_parallel, gen.cyc_nested, gen.cyc_bridge_return,
                gen.cyc_multi_source, gen.cyc_sccs_series]


def gen_cases(tier, seed):
    cases = []
    # width only (no MILP): ALL ignore subsets of size <= 3 on a corpus of cyclic shapes and on random graphs
    for i, f in enumerate(WIDTH_SHAPES):
        for j in range(2):
            nodes, edges = f(gen.rng_for("C09w", i, j))
            cases.append({"kind": "width", "spec": gen.spec(nodes, edges), "maxsub": 3})
    # parallel inter-SCC edge bundles (3 edges between the same pair of SCCs) and a self-loop whose neighbours can all be ignored
    cases.append({"kind": "width", "maxsub": 3, "spec": gen.spec(["s", "a", "b", "c", "d", "t"], [("s", "a"), ("a", "b"), ("b", "a"), ("a", "c"), ("b", "c"), ("b", "d"), ("c", "d"), ("d", "c"), ("d", "t")])})
    cases.append({"kind": "width", "maxsub": 4, "spec": gen.spec(["s", "a", "t", "u"], [("s", "a"), ("a", "a"), ("a", "t"), ("s", "u"), ("u", "t")])})
    for i in range(30 if tier == "quick" else 400):
        rng = gen.rng_for("C09wr", seed, i)
        nodes, edges = gen.cyc_any(rng, 9) if rng.random() < 0.7 else gen.dag_any(rng, 9)
        c = {"kind": "width", "spec": gen.spec(nodes, edges), "maxsub": 2 if len(edges) > 7 else 3}
        if rng.random() < 0.4 and len(nodes) >= 3:
            # additional start/end nodes (inner nodes too) and interleaved convention-free queries on the same graph object
            c["starts"] = [rng.choice(nodes)] if rng.random() < 0.7 else []
            c["ends"] = [rng.choice(nodes)] if rng.random() < 0.7 else []
        c["interleave"] = rng.choice(["none", "bare-first", "bare-between", "empty-list-between"])
        cases.append(c)
    # a hub whose (in-edge, out-edge) pairs are all constrained: the optimum (8) exceeds the number of edges (6)
    hub_n = ["a", "b", "c", "d", "h", "x", "y"]; hub_e = [("a", "h"), ("b", "h"), ("c", "h"), ("d", "h"), ("h", "x"), ("h", "y")]
    hub_f = {("a", "h"): 2, ("b", "h"): 2, ("c", "h"): 2, ("d", "h"): 2, ("h", "x"): 4, ("h", "y"): 4}
    hub_c = [[[u, "h"], ["h", w]] for u in ("a", "b", "c", "d") for w in ("x", "y")]
    for cyc_ in (False, True):
        for cons in (hub_c, hub_c[:7]):
            cases.append({"covlen": None, "lengths": [], "spec": gen.spec(hub_n, hub_e), "cyc": cyc_, "node": False, "ignore": [], "starts": [], "ends": [], "cons": cons, "cov": 1.0})
    # a hub edge (a,b) that one covering walk has to pass more often than the graph has nodes: b -> x_i, a complete bipartite block x_i -> y_j,
    # y_j -> a (p*q + 1 passes of (a,b) for one walk)
    for p_, q_, se_ in ((3, 4, True), (4, 4, False), (2, 2, True)):
        xs = [f"x{i}" for i in range(p_)]; ys = [f"y{j}" for j in range(q_)]
        dn = ["a", "b"] + xs + ys; de = [("a", "b")] + [("b", x) for x in xs] + [(x, y) for x in xs for y in ys] + [(y, "a") for y in ys]
        st_, en_ = (["a"], ["b"]) if se_ else ([], [])
        if not se_:
            dn += ["s", "t"]; de += [("s", "a"), ("b", "t")]
        cases.append({"covlen": None, "lengths": [], "spec": gen.spec(dn, de), "cyc": True, "node": False, "ignore": [], "starts": st_, "ends": en_, "cons": [], "cov": 1.0})
    # corpus (thorough tier, seed 3): HiGHS' presolve declares the k = 6 model infeasible (k = 5, 7 and presolve='off' are fine): known finding
    pe_ = [("a.0", "v.0"), ("a_expanded", "v.0"), ("a_expanded", "sink"), ("a", "sink"), ("v.0", "sink"), ("v.0", "t"), ("v.0", "10"), ("sink", "t"), ("sink", "10")]
    cases.append({"covlen": None, "lengths": [], "spec": gen.spec(["a.0", "a_expanded", "a", "v.0", "sink", "t", "10"], pe_), "cyc": True, "node": False, "ignore": [], "starts": [], "ends": [], "cons": [], "cov": 1.0})
    # a long simple path (more nodes than Python's default recursion limit): one walk covers it
    cases.append({"kind": "longpath", "n": 1100})
    n = 500 if tier == "quick" else 5000
    for i in range(n):
        rng = gen.rng_for("C09", seed, i)
        cyc = rng.random() < 0.5
        nodes, edges = gen.cyc_any(rng, 11) if cyc else gen.dag_any(rng, 12)
        node = rng.random() < 0.3
        elems = nodes if node else edges
        ign = []
        if rng.random() < 0.45 and len(elems) >= 2:
            ign = rng.sample(elems, rng.randint(1, len(elems) - 1))
        starts = []; ends = []
        if rng.random() < 0.25 and len(nodes) >= 3:
            if rng.random() < 0.7:
                starts = [rng.choice(nodes)]
            if rng.random() < 0.7:
                ends = [rng.choice(nodes)]
        cons = []; cov = 1.0
        if not node and rng.random() < 0.4:
            if cyc:
                w = gen.random_walk(rng, nodes, edges, maxlen=8)
                if w and len(w) > 2:
                    we = list(dict.fromkeys(zip(w, w[1:])))
                    cons = [rng.sample(we, rng.randint(1, len(we)))]
            else:
                P = gen.all_paths(nodes, edges)
                cons = gen.rand_subpath_constraints(rng, P, n=rng.randint(1, 2)) if P else []
            cov = rng.choice([1.0, 1.0, 0.5])
        covlen = None; lengths = []
        if cons and not cyc and rng.random() < 0.5:
            covlen = rng.choice([0.25, 0.4, 0.6, 1.0]); cov = 1.0
            lengths = [[u, v, rng.choice([1, 2, 5])] for (u, v) in edges if rng.random() < 0.7]
        cases.append({"covlen": covlen, "lengths": lengths, "spec": gen.spec(nodes, edges, eattr={(u, v): {"len": l} for u, v, l in lengths}), "cyc": cyc, "node": node, "ignore": gen.jl(ign), "starts": starts, "ends": ends, "cons": gen.jl(cons), "cov": cov})
        if covlen and rng.random() < 0.3:
            # the same lengths stored as numpy integers (what a graph built from an array carries)
            cases[-1]["spec"]["np_type"] = rng.choice(["int64", "int32", "uint8"]); cases[-1]["spec"]["np_attrs"] = ["len"]
    return cases


def reference(G, cyc, node, ign, starts, ends, cons, cov, covlen=None, lengths=None):
    S = list(dict.fromkeys(ref.sources(G) + list(starts))); T = list(dict.fromkeys(ref.sinks(G) + list(ends)))
    if not cyc:
        P = ref.st_paths(G, S, T)
        if node:
            cols = [collections.Counter(p) for p in P]; required = [v for v in G.nodes if v not in ign]
        else:
            cols = [collections.Counter(ref.path_edges(p)) for p in P]; required = [e for e in G.edges if e not in ign]
        if covlen is None:
            cc = [[i for i, c in enumerate(cols) if sum(1 for e in k if c.get(e, 0)) >= len(k) * cov - 1e-12] for k in cons]
        else:
            L = lengths or {}
            cc = [[i for i, c in enumerate(cols) if sum(L.get(e, 1) for e in k if c.get(e, 0)) >= sum(L.get(e, 1) for e in k) * covlen - 1e-12] for k in cons]
        return ref.cover_min(cols, required, cc)
    comp, paths = ref.walk_cover_paths(G, S, T)
    cols = []
    for st, p in paths:
        d = {("arc", a): 1 for a in p}; d[("scc", st)] = 1
        for a in p:
            d[("scc", comp[a[1]])] = 1
        cols.append(d)
    if node:
        required = list({("scc", comp[v]) for v in G.nodes if v not in ign})
    else:
        required = [("arc", e) for e in G.edges if comp[e[0]] != comp[e[1]] and e not in ign] + list({("scc", comp[u]) for u, v in G.edges if comp[u] == comp[v] and (u, v) not in ign})
    def el(e):
        return ("arc", e) if comp[e[0]] != comp[e[1]] else ("scc", comp[e[0]])
    cc = []
    for k in cons:
        ks = set(k)
        cc.append([i for i, c in enumerate(cols) if sum(1 for e in ks if c.get(el(e), 0)) >= len(ks) * cov - 1e-12])
    if not required and not cons:
        return 0
    return ref.cover_min(cols, required, cc)


def run_width(case):
    """get_width for every small ignore subset against the SCC-multigraph set-cover reference"""
    import itertools
    viol = []; obs = collections.Counter()
    G = gen.build(case["spec"])
    cyc = not ref.is_dag(G)
    starts = case.get("starts") or []; ends = case.get("ends") or []; inter = case.get("interleave", "none")
    r = M.safe_call(fp.stDiGraph, G, additional_starts=list(starts), additional_ends=list(ends))
    if r[0] != "ok":
        return {"viol": [], "obs": {}, "nontrivial": False}
    st = r[1]; sd = None if cyc else fp.stDAG(G, additional_starts=list(starts), additional_ends=list(ends))
    S_ = list(dict.fromkeys(ref.sources(G) + list(starts))); T_ = list(dict.fromkeys(ref.sinks(G) + list(ends)))
    E = list(G.edges)
    if inter == "bare-first":
        for obj in (st, sd):
            if obj is not None:
                M.safe_call(obj.get_width); obs["c09.convention_free_queries"] += 1
    for size in range(0, case["maxsub"] + 1):
        for ign in itertools.combinations(E, size):
            if len(ign) == len(E):
                continue
            try:
                w = ref.walk_cover_width(G, S_, T_, ignore=set(ign))
            except ref.RefTimeout:
                continue
            if w is None:
                continue       # some edge lies on no admissible walk: outside the domain of the statement
            for obj, name in ((st, "Cycles" if cyc else "stDiGraph-on-DAG"), (sd, "")):
                if obj is None:
                    continue
                if inter == "bare-between":
                    M.safe_call(obj.get_width); obs["c09.convention_free_queries"] += 1
                elif inter == "empty-list-between":
                    M.safe_call(obj.get_width, edges_to_ignore=[]); obs["c09.convention_free_queries"] += 1
                rep = list(ign)[:1] if (len(E) + size) % 3 == 0 else []          # an ignored edge may be listed more than once
                g = M.safe_call(obj.get_width, edges_to_ignore=list(obj.source_sink_edges) + list(ign) + rep)
                obs["c09.width_compared"] += 1
                if g[0] != "ok":
                    viol.append({"sig": f"C09/get_width{name}/raises/{g[1]}/ignore", "msg": f"{g[2]}; edges {E} ignore {ign}"})
                elif g[1] != w:
                    viol.append({"sig": f"C09/get_width{name}/differs-from-minimum-cover" + ("/ignore" if ign else "") + ("/starts-ends" if starts or ends else ""), "msg": f"get_width = {g[1]}, reference minimum cover {w}; edges {E} ignore {list(ign)} starts {starts} ends {ends} interleaved queries: {inter}"})
            if len(viol) > 3:
                break
    seen = set(); out = []
    for v in viol:
        if v["sig"] not in seen:
            seen.add(v["sig"]); out.append(v)
    return {"viol": out[:4], "obs": dict(obs), "nontrivial": cyc, "keys": [hashlib.sha1(repr(E).encode()).hexdigest()[:14]] if cyc else [],
            "sample": {"kind": "width", "edges": E, "ignore_subsets_up_to": case["maxsub"]}}


def run_longpath(case):
    import networkx as nx
    viol = []; obs = collections.Counter()
    n = case["n"]; G = nx.DiGraph(); G.add_edges_from((f"v{i}", f"v{i + 1}") for i in range(n - 1))
    for cls, kw in (("MinPathCoverCycles", {}), ("kPathCoverCycles", {"k": 1}), ("MinPathCover", {})):
        r = M.safe_call(getattr(fp, cls), G, solver_options={"threads": 1, "time_limit": 60}, **kw)
        out = ("ctor-" + r[1],) if r[0] != "ok" else None
        if out is None:
            s_ = M.safe_call(r[1].solve)
            out = ("solve-" + s_[1],) if s_[0] != "ok" else (("solved", len(models.routes_of(r[1].get_solution()))) if r[1].is_solved() else ("unsolved",))
        obs["c09.long_path_models"] += 1
        if out != ("solved", 1):
            viol.append({"sig": f"C09/{cls}/long-path/{out[0]}", "msg": f"simple path on {n} nodes (one walk covers it): {out}"})
    return {"viol": viol, "obs": dict(obs), "nontrivial": True, "keys": ["longpath"], "sample": {"long_path_nodes": n}}


def run_case(case):
    if case.get("kind") == "longpath":
        return run_longpath(case)
    if case.get("kind") == "width":
        return run_width(case)
    viol = []; obs = collections.Counter()
    G = gen.build(case["spec"]); cyc = case["cyc"]; node = case["node"]
    ign = [models._elem(e) for e in case["ignore"]]
    cons = [[models._elem(e) for e in c] for c in case["cons"]]
    starts, ends = case["starts"], case["ends"]
    desc = f"{'cyclic' if cyc else 'DAG'} cover={'node' if node else 'edge'} edges={list(G.edges)} ignore={ign} starts={starts} ends={ends} cons={cons} cov={case['cov']} covlen={case.get('covlen')} lengths={case.get('lengths')}"
    try:
        covlen = case.get("covlen"); lengths = {(u, v): l for u, v, l in case.get("lengths") or []}
        w = reference(G, cyc, node, set(ign), starts, ends, cons, case["cov"], covlen, lengths)
    except ref.RefTimeout:
        return {"viol": [], "obs": {"c09.ref_too_big": 1}, "nontrivial": False}
    if w is None:
        # some required element lies on no admissible route (possible with unlucky extra starts/ends): outside the domain
        return {"viol": [], "obs": {"c09.not_coverable": 1}, "nontrivial": False}
    tags = [t for t, c in (("node", node), ("ignore", ign), ("starts/ends", starts or ends), ("cons", cons)) if c]
    tagstr = ("/" + "/".join(tags)) if tags else ""
    kind = "Cycles" if cyc else ""
    kw = {}
    if node:
        kw["cover_type"] = "node"
    if ign:
        kw["elements_to_ignore"] = case["ignore"]
    if starts:
        kw["additional_starts"] = starts
    if ends:
        kw["additional_ends"] = ends
    if cons:
        kw["subset_constraints" if cyc else "subpath_constraints"] = case["cons"]
        if case.get("covlen"):
            kw["subpath_constraints_coverage_length"] = case["covlen"]; kw["length_attr"] = "len"
        else:
            kw["subset_constraints_coverage" if cyc else "subpath_constraints_coverage"] = case["cov"]
    M.ROUTES.install(); M.ROUTES.drain(); M.TRACE.install(); M.TRACE.reset()
    res = models.run({"cls": "MinPathCover" + kind, "spec": case["spec"], "kw": kw}, solver_options=SO)
    timed_out = any(t.get("status") == "kTimeLimit" for t in M.TRACE.trace)
    side = [s for s, _ in M.ROUTES.drain()]
    if timed_out:
        obs["c09.time_limited"] += 1
    elif w >= 1:
        obs["c09.min_cover_compared"] += 1
        if "exc" in res:
            viol.append({"sig": f"C09/MinPathCover{kind}/{res['stage']}-raises/{res['exc'][0]}{tagstr}", "msg": f"{res['exc']}; reference minimum {w}; {desc}"})
        elif not res["solved"]:
            viol.append({"sig": f"C09/MinPathCover{kind}/unsolved{tagstr}", "msg": f"a cover with {w} routes exists; {desc}"})
        else:
            routes = models.routes_of(res["sol"])
            covered = set()
            for r in routes:
                covered |= set(r) if node else set(zip(r, r[1:]))
            required = [v for v in G.nodes if v not in ign] if node else [e for e in G.edges if e not in ign]
            miss = [e for e in required if e not in covered]
            if miss:
                viol.append({"sig": f"C09/MinPathCover{kind}/element-not-covered{tagstr}", "msg": f"{miss[:4]} not on any returned route {routes}; {desc}"})
            if len(routes) != w:
                mech = tagstr
                if len(routes) > w:
                    r2 = models.run({"cls": "MinPathCover" + kind, "spec": case["spec"], "kw": kw}, solver_options=dict(SO, presolve="off"))
                    if r2.get("solved") and len(models.routes_of(r2["sol"])) == w:
                        mech = "/solver-presolve-declares-feasible-model-infeasible"
                if mech.startswith("/solver-presolve"):
                    viol.append({"sig": f"C09/solver-presolve-defect/MinPathCover{kind}/not-minimum", "msg": f"{len(routes)} routes with presolve on, the minimum {w} with presolve='off'; {desc}"})
                else:
                    viol.append({"sig": f"C09/MinPathCover{kind}/" + ("not-minimum" if len(routes) > w else "below-reference") + mech, "msg": f"{len(routes)} routes, reference minimum {w}; {desc}"})
            for c in cons:
                cs = set(c)
                if case.get("covlen"):
                    okc = any(sum(lengths.get(e, 1) for e in c if e in set(zip(r, r[1:]))) >= sum(lengths.get(e, 1) for e in c) * case["covlen"] - 1e-12 for r in routes)
                else:
                    okc = any(sum(1 for e in cs if e in set(zip(r, r[1:]))) >= len(cs) * case["cov"] - 1e-12 for r in routes)
                if not okc:
                    viol.append({"sig": f"C09/MinPathCover{kind}/constraint-not-covered{tagstr}", "msg": f"{c}; routes {routes}; {desc}"})
    # ---- width of the s-t graph classes (edge cover only: the classes define width over edges)
    if not node and not cons:
        r = M.safe_call((fp.stDiGraph if cyc else fp.stDAG), G, additional_starts=starts, additional_ends=ends)
        if r[0] == "ok":
            st = r[1]
            remaining = [e for e in G.edges if e not in ign]
            if remaining:
                g = M.safe_call(st.get_width, edges_to_ignore=list(st.source_sink_edges) + list(ign))
                obs["c09.width_compared"] += 1
                if g[0] != "ok":
                    viol.append({"sig": f"C09/get_width{kind}/raises/{g[1]}{tagstr}", "msg": f"{g[2]}; {desc}"})
                elif g[1] != w:
                    viol.append({"sig": f"C09/get_width{kind}/differs-from-minimum-cover{tagstr}", "msg": f"get_width = {g[1]}, reference minimum cover {w}; {desc}"})
                # asked again (and the cached no-ignore width) must not disturb it
                g0 = M.safe_call(st.get_width); g2 = M.safe_call(st.get_width, edges_to_ignore=list(st.source_sink_edges) + list(ign))
                if g2 != g:
                    viol.append({"sig": f"C09/get_width{kind}/unstable", "msg": f"{g} then {g2}; {desc}"})
    # ---- k-cover models solved iff k >= width
    if not timed_out and w >= 1:
        for k in (w - 1, w, w + 1, w + 2):
            if k < 1:
                continue
            kw2 = dict(kw); kw2["k"] = k
            M.TRACE.reset()
            r = models.run({"cls": "kPathCover" + kind, "spec": case["spec"], "kw": kw2}, solver_options=SO, want_solution=False)
            if any(t.get("status") == "kTimeLimit" for t in M.TRACE.trace):
                obs["c09.time_limited"] += 1; continue
            obs["c09.kcover_status_compared"] += 1
            if "exc" in r:
                viol.append({"sig": f"C09/kPathCover{kind}/{r['stage']}-raises/{r['exc'][0]}{tagstr}", "msg": f"k={k}: {r['exc']}; {desc}"}); break
            if bool(r["solved"]) != (k >= w):
                mech = tagstr
                if k >= w:
                    # classification (as in C04/C05/C07/C15): the same model is solved as soon as HiGHS' presolve is switched off
                    r2 = models.run({"cls": "kPathCover" + kind, "spec": case["spec"], "kw": kw2}, solver_options=dict(SO, presolve="off"), want_solution=False)
                    if r2.get("solved"):
                        mech = "/solver-presolve-declares-feasible-model-infeasible"
                if mech.startswith("/solver-presolve"):
                    viol.append({"sig": f"C09/solver-presolve-defect/kPathCover{kind}/unsolved-for-k>=width", "msg": f"k={k}, width {w}: kInfeasible with presolve on, solved with presolve='off'; {desc}"}); break
                viol.append({"sig": f"C09/kPathCover{kind}/" + ("unsolved-for-k>=width" if k >= w else "solved-for-k<width") + mech, "msg": f"k={k}, width {w}: solved={r['solved']}; {desc}"}); break
    side += [s for s, _ in M.ROUTES.drain()]
    seen = set(); out = []
    for v in viol:
        if v["sig"] not in seen:
            seen.add(v["sig"]); out.append(v)
    nontriv = w >= 2 or cyc
    return {"viol": out[:5], "obs": dict(obs), "side": side, "nontrivial": nontriv, "keys": [hashlib.sha1(desc.encode()).hexdigest()[:14]] if nontriv else [],
            "sample": {"desc": desc, "reference_minimum": w, "library_routes": (models.routes_of(res["sol"]) if res.get("sol") else None)}}
