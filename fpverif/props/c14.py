"""C14 - walk reconstruction uses every edge exactly as often as the solver decided.
Monitor: the real AbstractWalkModelDiGraph.get_solution_walks() (via a minimal harness subclass, the documented extension
point) is fed edge-multiplicity assignments; oracle = edge multiset of the returned walk + LogMonitor."""
import collections, itertools, hashlib
import networkx as nx
from fpverif import gen, ref, monitors as M
import flowpaths as fp
import flowpaths.abstractwalkmodeldigraph as awm

LEVEL = "exploration"
RULE = ("case = one digraph (random/corpus cyclic shape, or catalogue graph in thorough) + a batch of Eulerian s-t multiplicity "
        "assignments (random revisiting walks, multi-layer, values perturbed by +-1e-7; thorough: ALL walk vectors with cap 3); "
        "plus (condense) random walks of node-weighted graphs with self-loops, written on the node expansion and condensed back by the real "
        "NodeExpandedDiGraph.get_condensed_paths; non-trivial = assignment with a repeated vertex or multiplicity>1; distinct = (edge list, multiplicity vector)")
CASE_TIMEOUT = {"quick": 120, "thorough": 600}
REQUIRED_OBS = {"c14.assignments_judged": 200, "c14.revisiting": 50}
ASSUMPTIONS = ["assignments are generated as edge multisets of real walks or by the exhaustive Euler-vector enumerator, i.e. inside the property's domain"]
EXHAUSTIVE = {"quick": False, "thorough": False}


class Probe(awm.AbstractWalkModelDiGraph):
    def get_solution(self): return None
    def get_lowerbound_k(self): return 1
    def is_valid_solution(self): return True
    def get_objective_value(self): return None


CORPUS = [
    # closed sub-walk reachable only through another closed sub-walk
    (["s", "a", "b", "c", "d", "t"], [("s", "a"), ("a", "b"), ("b", "a"), ("b", "c"), ("c", "d"), ("d", "c"), ("c", "b"), ("a", "t")]),
    (["s", "a", "b", "c", "t"], [("s", "a"), ("a", "b"), ("b", "a"), ("a", "c"), ("c", "a"), ("a", "t")]),   # figure-8
    (["s", "a", "t"], [("s", "a"), ("a", "a"), ("a", "t")]),                                             # self-loop
    (["s", "a", "b", "t"], [("s", "a"), ("a", "b"), ("b", "a"), ("b", "b"), ("a", "a"), ("b", "t")]),
    (["s", "a", "b", "c", "d", "t"], [("s", "a"), ("a", "b"), ("b", "c"), ("c", "a"), ("b", "d"), ("d", "a"), ("b", "t")]),
    (["s", "t"], [("s", "t")]),
    (["s1", "s2", "a", "b", "t1", "t2"], [("s1", "a"), ("s2", "b"), ("a", "b"), ("b", "a"), ("b", "t1"), ("a", "t2")]),
    (["s", "a", "b", "c", "t"], [("s", "a"), ("a", "b"), ("b", "c"), ("c", "a"), ("c", "b"), ("b", "a"), ("c", "t"), ("a", "c")]),
]


def gen_cases(tier, seed):
    cases = []
    for i, (nodes, edges) in enumerate(CORPUS):
        cases.append({"kind": "random", "spec": gen.spec(nodes, edges), "rs": f"C14:corpus:{seed}:{i}", "n": 300 if tier == "quick" else 3000, "maxlen": 30})
    n = 160 if tier == "quick" else 8000
    for i in range(n):
        rng = gen.rng_for("C14", seed, i)
        nodes, edges = gen.cyc_any(rng, 12)
        cases.append({"kind": "random", "spec": gen.spec(nodes, edges), "rs": f"C14:{seed}:{i}", "n": 120 if tier == "quick" else 400, "maxlen": rng.choice([6, 12, 25])})
    # the same corpus graphs with the edges inserted in another order (the first greedy walk follows the adjacency order), and small DENSE graphs
    # with self-loops on several vertices (a closed walk of length one spliced into a walk that passes its vertex more than once)
    for i in range(40 if tier == "quick" else 1500):
        rng = gen.rng_for("C14d", seed, i)
        if i % 3 == 0:
            nodes, edges = CORPUS[rng.randrange(len(CORPUS))]; edges = list(edges)
        else:
            inner = ["a", "b", "c", "d"][:rng.randint(2, 4)]; nodes = ["s"] + inner + ["t"]
            edges = [("s", rng.choice(inner))] + [(u, v) for u in inner for v in inner if rng.random() < (0.8 if u == v else 0.6)] + [(rng.choice(inner), "t")]
            edges = list(dict.fromkeys(edges))
            if rng.random() < 0.4:
                edges += [e for e in [("s", rng.choice(inner)), (rng.choice(inner), "t")] if e not in edges]
            # keep the part that lies on walks from s to t
            H_ = nx.DiGraph(edges); keep_ = (nx.descendants(H_, "s") | {"s"}) & (nx.ancestors(H_, "t") | {"t"})
            edges = [e for e in edges if e[0] in keep_ and e[1] in keep_]; nodes = [v for v in nodes if v in keep_]
            if "s" not in keep_ or "t" not in keep_ or not edges:
                nodes, edges = CORPUS[3]; edges = list(edges)
        rng.shuffle(edges)
        cases.append({"kind": "random", "spec": gen.spec(nodes, edges), "rs": f"C14d:{seed}:{i}", "n": 150 if tier == "quick" else 400, "maxlen": rng.choice([8, 14, 25])})
    # walks of a NODE-weighted graph: what the solver decided lives on the node-expanded graph (v.0 -> v.1 per visit of v); the walk handed to the
    # caller visits every node exactly as often (a self-loop taken twice = three consecutive visits)
    for i in range(30 if tier == "quick" else 1200):
        cases.append({"kind": "condense", "rs": f"C14c:{seed}:{i}", "n": 60 if tier == "quick" else 150})
    # exhaustive Euler vectors with a cap
    m = 25 if tier == "quick" else 2000
    for i in range(m):
        rng = gen.rng_for("C14e", seed, i)
        nodes, edges = gen.cyc_any(rng, 8 if tier == "quick" else 9)
        cases.append({"kind": "enum", "spec": gen.spec(nodes, edges), "cap": 2 if tier == "quick" else 3})
    for nodes, edges in CORPUS:
        if len(edges) <= 8:
            cases.append({"kind": "enum", "spec": gen.spec(nodes, edges), "cap": 3})
    return cases


def judge(st, probe, layers, viol, obs, keys, base_case):
    """layers: list of Counter over st edges (one per layer)."""
    k = len(layers)
    probe.k = k
    sol = {}
    for i, cnt in enumerate(layers):
        for (u, v) in st.edges:
            m = cnt.get((u, v), 0)
            pert = ((hash((u, v, i)) % 3) - 1) * 1e-7
            sol[(u, v, i)] = float(m) + pert      # (keyed like the models' own edge_vars_sol: by the nodes themselves)
    probe.edge_vars_sol = sol
    mark = M.log_mark()
    r = M.safe_call(probe.get_solution_walks)
    logs = M.log_since(mark)
    obs["c14.assignments_judged"] += k
    rep = dict(base_case); rep["kind"] = "explicit"
    rep["layers"] = [[[u, v, m] for (u, v), m in cnt.items()] for cnt in layers]
    if r[0] != "ok":
        viol.append({"sig": f"C14/raises/{r[1]}", "msg": f"get_solution_walks raised {r[1]}: {r[2]}", "replay": rep}); return
    walks = r[1]
    if len(walks) != k:
        viol.append({"sig": "C14/number-of-walks", "msg": f"{len(walks)} walks for {k} layers", "replay": rep}); return
    for i, (cnt, out) in enumerate(zip(layers, walks)):
        total = sum(cnt.values())
        if total == 0:
            if out != []:
                viol.append({"sig": "C14/all-zero-not-empty", "msg": f"all-zero layer gave {out}", "replay": rep})
            continue
        full = [st.source] + list(out) + [st.sink]
        got = collections.Counter(zip(full, full[1:]))
        non_edges = [e for e in got if not st.has_edge(*e)]
        if any(v > 1 for v in cnt.values()) or len(set(full)) != len(full):
            obs["c14.revisiting"] += 1
        if non_edges:
            viol.append({"sig": "C14/invented-edge", "msg": f"walk {out} uses non-edges {non_edges[:3]}", "replay": rep})
        elif got != +cnt:
            missing = (+cnt) - got; extra = got - (+cnt)
            sig = "C14/edge-dropped" if missing and not extra else ("C14/edge-invented" if extra and not missing else "C14/multiset-mismatch")
            viol.append({"sig": sig, "msg": f"assignment {dict(cnt)} -> walk {out}: missing {dict(missing)} extra {dict(extra)}", "replay": rep})
    if logs:
        viol.append({"sig": "C14/error-logged", "msg": f"library logged {logs[:2]}", "replay": rep})


class _Tag(str):
    """a str subclass whose str() is not the node itself (like a member of `class N(str, enum.Enum)`): equal to and hashing like the plain string"""
    def __str__(self):
        return "Tag." + str.__str__(self)


def run_condense(case):
    rng = gen.rng_for(case["rs"])
    viol = []; obs = collections.Counter(); keys = set()
    nodes, edges = gen.cyc_any(rng, 10)
    if rng.random() < 0.6:
        edges = list(dict.fromkeys(list(edges) + [(v, v) for v in nodes if rng.random() < 0.4]))
    G = nx.DiGraph(); G.add_nodes_from(nodes); G.add_edges_from(edges)
    for v in G.nodes:
        G.nodes[v]["flow"] = rng.randint(0, 5)
    starts = [v for v in G.nodes if G.in_degree(v) == 0] or list(G.nodes)[:1]
    r = M.safe_call(fp.NodeExpandedDiGraph, G, node_flow_attr="flow")
    if r[0] != "ok":
        return {"viol": [{"sig": f"C14/node-expansion-raises/{r[1]}", "msg": f"{r[2]}; edges={edges}"}], "obs": {}, "nontrivial": False}
    ne = r[1]
    batch = []
    for j in range(case["n"]):
        v = rng.choice(starts); walk = [v]
        for _ in range(rng.randint(0, 14)):
            succ = list(G.successors(v))
            if not succ:
                break
            v = rng.choice(succ) if rng.random() < 0.7 or v not in succ else v      # self-loops are taken often
            walk.append(v)
        batch.append(walk)
    expanded = [[x for v in w for x in (v + ".0", v + ".1")] for w in batch]
    bad = [(w, x) for w, x in zip(batch, expanded) if any(not ne.has_edge(a, b) for a, b in zip(x, x[1:]))]
    if bad:
        viol.append({"sig": "C14/node-expansion/walk-of-the-graph-is-no-walk-of-the-expansion", "msg": f"{bad[0]} edges={edges}"})
    got = M.safe_call(ne.get_condensed_paths, [list(x) for x in expanded])
    obs["c14.condensed_walks_judged"] += len(batch)
    obs["c14.assignments_judged"] += len(batch)
    if got[0] != "ok":
        viol.append({"sig": f"C14/condense-raises/{got[1]}", "msg": f"{got[2]}; edges={edges}"})
    else:
        for w, c in zip(batch, got[1]):
            rep = any(a == b for a, b in zip(w, w[1:]))
            if len(set(w)) != len(w):
                obs["c14.revisiting"] += 1
            if rep:
                obs["c14.condensed_walks_with_a_self_loop"] += 1
            keys.add(tuple(w))
            if list(c) != list(w):
                viol.append({"sig": "C14/condensed-walk-differs" + ("/self-loop" if rep else ""), "msg": f"expanded walk of {w} condenses to {c}; edges={edges}"})
                break
    return {"viol": viol[:4], "obs": dict(obs), "nontrivial": obs["c14.revisiting"] > 0,
            "keys": [hashlib.sha1(repr((edges, kk)).encode()).hexdigest()[:14] for kk in keys],
            "sample": {"edges": edges, "kind": "condense", "walks": len(batch), "example": batch[0] if batch else None}}


def run_case(case):
    if case.get("kind") == "condense":
        return run_condense(case)
    G = gen.build(case["spec"])
    if case.get("kind") == "random" and int(hashlib.sha1(repr(case.get("rs")).encode()).hexdigest(), 16) % 8 == 0:
        # the same graph with nodes of a str subclass (they pass the 'nodes must be strings' check and compare equal to the plain names)
        G = nx.relabel_nodes(G, {v: _Tag(v) for v in G.nodes})
    st = fp.stDiGraph(G)
    probe = Probe(st, k=1, max_edge_repetition=10, optimization_options={"optimize_with_safe_sequences": False})
    viol = []; obs = collections.Counter(); keys = set()
    base = {"spec": case["spec"]}
    nontriv = 0
    if case["kind"] == "explicit":
        def mp(x):
            if x == "__SRC__": return st.source
            if x == "__SNK__": return st.sink
            return x
        layers = [collections.Counter({(mp(u), mp(v)): m for u, v, m in L}) for L in case["layers"]]
        judge(st, probe, layers, viol, obs, keys, base)
    elif case["kind"] == "random":
        rng = gen.rng_for(case["rs"])
        nodes = list(st.nodes); edges = list(st.edges)
        batch = []
        for j in range(case["n"]):
            v = st.source; walk = [v]
            lim = rng.randint(2, case["maxlen"])
            while v != st.sink:
                succ = list(st.successors(v))
                if len(walk) > lim and st.sink in succ:
                    v = st.sink
                elif len(walk) > lim + 40:
                    # escape along a shortest path
                    p = nx.shortest_path(st, v, st.sink); walk += p[1:]; v = st.sink; break
                else:
                    v = rng.choice(succ)
                walk.append(v)
            cnt = collections.Counter(zip(walk, walk[1:]))
            batch.append(cnt)
            if len(batch) == rng.choice([1, 1, 2, 3]) or j == case["n"] - 1:
                if rng.random() < 0.1:
                    batch.insert(rng.randrange(len(batch) + 1), collections.Counter())
                judge(st, probe, batch, viol, obs, keys, base)
                for c in batch:
                    keys.add(tuple(sorted((str(e), m) for e, m in c.items())))
                batch = []
            if len(viol) > 5:
                break
    elif case["kind"] == "enum":
        cap = {e: (case["cap"] if True else 1) for e in st.edges}
        comp = ref.scc_map(st)
        for (u, v) in st.edges:
            if comp[u] != comp[v]:
                cap[(u, v)] = 1
        try:
            edges, vecs = ref.walk_vectors(st, [st.source], [st.sink], cap, limit=20000)
        except ref.RefTimeout:
            return {"viol": [], "obs": {"c14.enum_too_big": 1}, "nontrivial": False}
        obs["c14.enum_graphs"] += 1
        for vec in vecs:
            cnt = collections.Counter(vec["x"])
            judge(st, probe, [cnt], viol, obs, keys, base)
            keys.add(tuple(sorted((str(e), m) for e, m in cnt.items())))
            if len(viol) > 5:
                break
    # make synthetic names replayable
    for v in viol:
        rp = v.get("replay")
        if rp:
            rp["layers"] = [[["__SRC__" if u == st.source else u, "__SNK__" if w == st.sink else w, m] for u, w, m in L] for L in rp["layers"]]
    return {"viol": viol[:6], "obs": dict(obs), "nontrivial": obs["c14.revisiting"] > 0,
            "keys": [hashlib.sha1(repr((gen.edges_of(case["spec"]), kk)).encode()).hexdigest()[:14] for kk in keys if any(m > 1 for _, m in kk) or True],
            "sample": {"edges": gen.edges_of(case["spec"]), "kind": case["kind"], "assignments": obs["c14.assignments_judged"],
                       "example_assignment": sorted((str(e), m) for e, m in (next(iter(keys)) if keys else ()))[:12]}}
