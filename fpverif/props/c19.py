"""C19 - invalid inputs are rejected with ValueError instead of being solved (+ converse: in-domain inputs are accepted).
Monitor: exception type at construction / solve() and is_solved() of the real classes under single and paired violations of
valid base inputs. Oracle: rule table below (strict = must end in ValueError; hard = must never end up solved)."""
import collections, hashlib, copy
import networkx as nx
from fpverif import gen, ref, monitors as M, models, instances as I, workload as W
import flowpaths as fp

LEVEL = "exploration"
RULE = ("case = valid random base instance of one class + one violation kind (or a pair) from: non-string nodes, cyclic graph for a DAG model, no "
        "source / no sink for a cyclic model, negative weight, missing weight on a non-ignored element, non-conserving flow, constraint naming an "
        "absent edge, malformed constraints, coverage outside (0,1], k <= 0, unsupported weight_type / origin / cover_type, unknown additional "
        "start/end, error scaling outside [0,1], malformed ignore list, path-length range/factor mismatch, percentile errors, missing "
        "max_edge_repetition entry, empty graph; MinGenSet / MinSetCover / NodeExpandedDiGraph / NumPathsOptimization argument checks. strict "
        "rule (ValueError at construction or at the latest in solve()) for the kinds the statement lists; hard rule (never is_solved()) for all. "
        "converse: random in-domain instances of all classes + corpus must construct and solve without any exception. "
        "non-trivial = every case; distinct = (class, kinds, base instance)")
CASE_TIMEOUT = {"quick": 150, "thorough": 600}
REQUIRED_OBS = {"c19.invalid_inputs_judged": 600, "c19.converse_judged": 300}
ASSUMPTIONS = ["a non-conserving flow is under the strict rule only for kFlowDecomp, MinFlowDecomp and MinFlowDecompCycles (the classes that document it)",
               "converse: k may be below the optimum (then unsolved is fine); only exceptions / SystemExit are violations"]
EXHAUSTIVE = {"quick": False, "thorough": False}
SO = {"threads": 1, "time_limit": 20}

FLOWCLS = W.FD + W.ERR
KINDS = ["non_string_nodes", "one_isolated_non_string_node", "cyclic_for_dag", "no_source", "no_sink", "negative_weight", "missing_weight", "non_conserving", "constraint_absent_edge",
         "constraint_not_list", "constraint_entry_none", "constraint_entry_number", "constraint_mixed_node_string", "nonfinite_weight", "coverage_invalid_without_constraints", "coverage_length_invalid_without_constraints", "start_or_end_is_an_edge_tuple", "slightly_non_conserving", "non_conserving_zero_side", "constraint_empty", "constraint_not_tuples", "constraint_edge_as_list", "k_zero_superset", "k_negative_superset", "superset_negative_entry", "superset_fractional_entry_for_int", "coverage_zero", "coverage_negative", "coverage_above_one", "coverage_nan",
         "coverage_above_one_with_length", "coverage_nan_with_length", "coverage_inf_with_length", "coverage_length_zero", "coverage_length_above_one", "coverage_length_nan", "coverage_length_without_attr", "k_zero", "k_negative",
         "weight_type_str", "weight_type_complex", "weight_type_bool", "weight_type_subclass", "origin_unknown", "unknown_start", "unknown_end", "scale_above_one", "scale_negative", "scale_nan", "ignore_malformed",
         "plr_mismatch", "plf_float", "empty_graph"]


def applicable(cls, kind, inst, meta):
    cyc = cls.endswith("Cycles"); cover = cls in W.COV; node = meta["mode"] == "node"
    kw = inst["kw"]
    if kind == "cyclic_for_dag":
        return not cyc
    if kind in ("no_source", "no_sink"):
        return cyc and not kw.get("additional_starts") and not kw.get("additional_ends")
    if kind in ("negative_weight", "missing_weight"):
        return not cover
    if kind in ("non_conserving", "non_conserving_zero_side"):
        return cls in ("kFlowDecomp", "MinFlowDecomp", "MinFlowDecompCycles") and not node and "elements_to_ignore" not in kw
    if kind == "constraint_empty":
        return True
    if kind in ("constraint_entry_none", "constraint_entry_number"):
        return True
    if kind == "constraint_mixed_node_string":
        return node
    if kind == "nonfinite_weight":
        return not cover
    if kind == "coverage_invalid_without_constraints":
        return True
    if kind == "coverage_length_invalid_without_constraints":
        return not cyc and not node
    if kind == "start_or_end_is_an_edge_tuple":
        return node and cls not in ("kFlowDecomp",)
    if kind == "slightly_non_conserving":
        return cls in ("kFlowDecomp", "MinFlowDecomp", "MinFlowDecompCycles") and not node and "elements_to_ignore" not in kw and kw.get("weight_type") == "float" \
            and not kw.get("additional_starts") and not kw.get("additional_ends")      # (flow may begin / end at declared extra start / end nodes)
    if kind.startswith("coverage_length") or kind.endswith("_with_length"):
        return not node and not cyc          # (coverage by length exists for the DAG models only)
    if kind.startswith("constraint") or kind.startswith("coverage"):
        return not node
    if kind in ("k_zero_superset", "k_negative_superset", "superset_negative_entry", "superset_fractional_entry_for_int"):
        return cls in ("kFlowDecomp", "kLeastAbsErrors", "kMinPathError") and "elements_to_ignore" not in kw
    if kind in ("k_zero", "k_negative"):
        return cls.startswith("k")
    if kind.startswith("weight_type"):
        return not cover
    if kind in ("unknown_start", "unknown_end"):
        return cls not in ("kFlowDecomp",) and not (cls in ("MinFlowDecomp", "MinFlowDecompCycles") and not node)
    if kind.startswith("scale"):
        return cls in W.ERR
    if kind in ("plr_mismatch", "plf_float"):
        return cls == "kMinPathError"
    return True


def mutate(kind, cls, inst, meta, rng):
    """returns a mutated copy of inst (JSON level) or a callable producing (G, kwargs) for cases JSON cannot express"""
    inst = copy.deepcopy(inst); kw = inst["kw"]; sp = inst["spec"]
    cyc = cls.endswith("Cycles"); node = meta["mode"] == "node"; ckey = "subset_constraints" if cyc else "subpath_constraints"
    if not sp["edges"] and kind in ("cyclic_for_dag", "constraint_not_list", "constraint_not_tuples", "ignore_malformed", "scale_above_one", "scale_negative", "scale_nan", "non_conserving", "no_source", "no_sink"):
        return None
    special = None
    # elements that do not count: explicitly ignored ones and those with error scale 0 (documented as equivalent to ignoring)
    ign = [x for x in (kw.get("elements_to_ignore") or [])] + [e for e, f in (kw.get("error_scaling") or []) if f == 0]
    if kind in ("negative_weight", "missing_weight", "non_conserving", "non_conserving_zero_side"):
        # with a percentile-based ignore list the mutated element could itself fall below the percentile and be (legitimately) ignored
        kw.pop("elements_to_ignore_percentile", None)
    if kind == "non_string_nodes":
        special = "int_nodes"
    elif kind == "one_isolated_non_string_node":
        special = "iso_nonstring"
    elif kind == "cyclic_for_dag":
        u, v, d = sp["edges"][0]
        sp["edges"].append([v, u, dict(d)])
    elif kind in ("no_source", "no_sink"):
        # make every node have in (out) degree >= 1 by closing the graph into one big cycle through all sources/sinks
        G = gen.build(sp)
        srcs = ref.sources(G); snks = ref.sinks(G)
        tgt = srcs if kind == "no_source" else snks
        other = (snks or list(G.nodes)) if kind == "no_source" else (srcs or list(G.nodes))
        for x in tgt:
            y = other[0] if other[0] != x else list(G.nodes)[-1]
            e = [y, x, {"flow": 1}] if kind == "no_source" else [x, y, {"flow": 1}]
            sp["edges"].append(e)
    elif kind == "negative_weight":
        if node:
            for n in sp["nodes"]:
                if "flow" in n[1] and n[0] not in ign:
                    n[1]["flow"] = -abs(n[1]["flow"]) - 1; break
            else:
                return None
        else:
            for e in sp["edges"]:
                if "flow" in e[2] and [e[0], e[1]] not in ign:
                    e[2]["flow"] = -abs(e[2]["flow"]) - 1; break
            else:
                return None
    elif kind == "missing_weight":
        if node:
            return None   # a node without the attribute is documented as ignored, not invalid
        for e in sp["edges"]:
            if "flow" in e[2] and [e[0], e[1]] not in ign:
                del e[2]["flow"]; break
        else:
            return None
    elif kind == "non_conserving":
        G = gen.build(sp)
        inner = [v for v in G.nodes if G.in_degree(v) and G.out_degree(v)]
        if not inner:
            return None
        v = inner[0]
        for e in sp["edges"]:
            if e[1] == v:
                e[2]["flow"] = e[2]["flow"] + 3; break
    elif kind == "non_conserving_zero_side":
        # every edge on ONE side of an inner node carries 0 while the other side carries something: still an imbalance
        G = gen.build(sp)
        inner = [v for v in G.nodes if G.in_degree(v) and G.out_degree(v) and not G.has_edge(v, v)]
        inner = [v for v in inner if sum(d.get("flow", 0) or 0 for _, _, d in G.out_edges(v, data=True)) > 0 and sum(d.get("flow", 0) or 0 for _, _, d in G.in_edges(v, data=True)) > 0]
        if not inner:
            return None
        v = rng.choice(inner); side = rng.choice(["in", "out"])
        for e in sp["edges"]:
            if (side == "in" and e[1] == v) or (side == "out" and e[0] == v):
                e[2]["flow"] = 0 if kw.get("weight_type") == "int" else 0.0
    elif kind == "constraint_absent_edge":
        kw[ckey] = (kw.get(ckey) or []) + [[["zz_absent", sp["nodes"][0][0]]]]
    elif kind == "constraint_not_list":
        kw[ckey] = [[sp["edges"][0][0], sp["edges"][0][1]], "notalist"] if sp["edges"] else None
        special = "raw_constraints"
    elif kind == "constraint_empty":
        kw[ckey] = (kw.get(ckey) or []) + [[]]
    elif kind in ("constraint_entry_none", "constraint_entry_number"):
        # an entry of the constraint list that is not a list at all, alone or after a well-formed constraint
        good = [[[sp["edges"][0][0], sp["edges"][0][1]]]] if (sp["edges"] and not node and rng.random() < 0.5) else []
        inst["_rawcons"] = good + [None if kind == "constraint_entry_none" else rng.choice([3, 3.5])]
        kw.pop(ckey, None); kw.pop(ckey + "_coverage", None); kw.pop("subpath_constraints_coverage_length", None)
        special = "raw_entries"
    elif kind == "constraint_mixed_node_string":
        # node mode: a well-formed edge-list constraint followed by a 'constraint' whose entry is a two-character string that is no node
        ee = [e for e in sp["edges"] if len(e[0]) == 1 and len(e[1]) == 1 and (e[0] + e[1]) not in [n[0] for n in sp["nodes"]]]
        if not ee:
            return None
        inst["_rawcons"] = [[[ee[0][0], ee[0][1]]], [ee[0][0] + ee[0][1]]]
        kw.pop(ckey, None); kw.pop(ckey + "_coverage", None); kw.pop("subpath_constraints_coverage_length", None)
        special = "mixed_node_string"
    elif kind == "nonfinite_weight":
        bad = rng.choice([float("nan"), float("inf")])
        kw.pop("elements_to_ignore_percentile", None)
        if bad == float("inf") and cls == "kFlowDecomp":
            bad = float("nan") if rng.random() < 0.7 else bad
        if node:
            for n in sp["nodes"]:
                if "flow" in n[1] and n[0] not in ign:
                    n[1]["flow"] = bad; break
            else:
                return None
        else:
            for e in sp["edges"]:
                if "flow" in e[2] and [e[0], e[1]] not in ign:
                    e[2]["flow"] = bad; break
            else:
                return None
        kw["weight_type"] = "float"
    elif kind == "coverage_length_invalid_without_constraints":
        kw.pop(ckey, None); kw.pop(ckey + "_coverage", None)
        kw["subpath_constraints_coverage_length"] = rng.choice([1.5, 7, 0, -1, float("nan")]); kw["length_attr"] = "len"
    elif kind == "start_or_end_is_an_edge_tuple":
        if not sp["edges"]:
            return None
        inst["_tuple_for"] = rng.choice(["additional_starts", "additional_ends"]); inst["_tuple"] = [sp["edges"][0][0], sp["edges"][0][1]]
        special = "edge_tuple_as_start_or_end"
    elif kind == "coverage_invalid_without_constraints":
        kw.pop(ckey, None); kw.pop("subpath_constraints_coverage_length", None)
        kw[ckey + "_coverage"] = rng.choice([1.5, 0, -2, float("nan")])
    elif kind == "slightly_non_conserving":
        # an imbalance far above float round-off (relative 5e-10 at magnitude >= 1e3) but below a relative tolerance of 1e-9
        G = gen.build(sp)
        inner = [v for v in G.nodes if G.in_degree(v) and G.out_degree(v)]
        if not inner:
            return None
        mag = rng.choice([1e3, 1e4, 1e5])
        for e in sp["edges"]:
            if "flow" in e[2]:
                e[2]["flow"] = float(e[2]["flow"]) * mag
        v = inner[0]
        for e in sp["edges"]:
            if e[1] == v and e[2].get("flow", 0) > 0:
                e[2]["flow"] = e[2]["flow"] * (1 + 7e-10); break
        else:
            return None
    elif kind == "constraint_not_tuples":
        special = "constraint_not_tuples"
    elif kind == "constraint_edge_as_list":
        if not sp["edges"]:
            return None
        special = "constraint_edge_as_list"
    elif kind in ("k_zero_superset", "k_negative_superset"):
        kw["k"] = 0 if kind == "k_zero_superset" else -1
        kw["solution_weights_superset"] = [5, 3, 2] if kw.get("weight_type") == "int" else [5.0, 3.0, 0.5]
    elif kind == "superset_negative_entry":
        kw["solution_weights_superset"] = ([5, -2, 3] if kw.get("weight_type") == "int" else [5.0, -2.0, 0.5])
    elif kind == "superset_fractional_entry_for_int":
        kw["weight_type"] = "int"; kw["solution_weights_superset"] = [2.5, 2.5, 1]
        for e in sp["edges"]:
            if isinstance(e[2].get("flow"), float):
                e[2]["flow"] = int(e[2]["flow"])
        for n_ in sp["nodes"]:
            if isinstance(n_[1].get("flow"), float):
                n_[1]["flow"] = int(n_[1]["flow"])
    elif kind.startswith("coverage"):
        if not kw.get(ckey):
            if not sp["edges"]:
                return None
            kw[ckey] = [[[sp["edges"][0][0], sp["edges"][0][1]]]]
        if kind.endswith("_with_length"):
            # a VALID coverage by length next to an invalid coverage by count
            kw["subpath_constraints_coverage_length"] = rng.choice([0.5, 1.0, 0.8]); kw["length_attr"] = "len"
            kw[ckey + "_coverage"] = {"coverage_above_one_with_length": rng.choice([1.5, 7]), "coverage_nan_with_length": float("nan"), "coverage_inf_with_length": float("inf")}[kind]
        elif kind.startswith("coverage_length"):
            kw.pop(ckey + "_coverage", None)
            kw["subpath_constraints_coverage_length"] = {"coverage_length_zero": 0, "coverage_length_above_one": 1.5, "coverage_length_nan": float("nan"), "coverage_length_without_attr": 0.5}[kind]
            if kind == "coverage_length_without_attr":
                kw.pop("length_attr", None)
            else:
                kw["length_attr"] = "len"
        else:
            kw[ckey + "_coverage"] = {"coverage_zero": 0, "coverage_negative": -0.5, "coverage_above_one": 1.5, "coverage_nan": float("nan")}[kind]
    elif kind == "k_zero":
        kw["k"] = 0
    elif kind == "k_negative":
        kw["k"] = -2
    elif kind == "weight_type_str":
        kw["weight_type"] = "str"
    elif kind == "weight_type_complex":
        kw["weight_type"] = "complex"
    elif kind == "weight_type_bool":
        kw["weight_type"] = "bool"
    elif kind == "weight_type_subclass":
        kw["weight_type"] = "floatsub"
    elif kind == "origin_unknown":
        kw["cover_type" if cls in W.COV else "flow_attr_origin"] = "vertex"
    elif kind == "unknown_start":
        kw["additional_starts"] = ["zz_unknown_node"]
    elif kind == "unknown_end":
        kw["additional_ends"] = ["zz_unknown_node"]
    elif kind in ("scale_above_one", "scale_negative", "scale_nan"):
        el = sp["nodes"][0][0] if node else [sp["edges"][0][0], sp["edges"][0][1]]
        kw["error_scaling"] = [[el, {"scale_above_one": 1.5, "scale_negative": -0.25, "scale_nan": float("nan")}[kind]]]
    elif kind == "ignore_malformed":
        kw["elements_to_ignore"] = [[sp["edges"][0][0], sp["edges"][0][1]]] if node and sp["edges"] else [sp["nodes"][0][0]]
        special = "raw_ignore"
    elif kind == "plr_mismatch":
        kw["path_length_ranges"] = [[0, 3], [4, 50]]; kw["path_length_factors"] = [1.0]; kw["weight_type"] = "int"
    elif kind == "plf_float":
        kw["path_length_ranges"] = [[0, 3], [4, 50]]; kw["path_length_factors"] = [1.0, 0.5]; kw["weight_type"] = "float"
    elif kind == "empty_graph":
        sp["edges"] = []; sp["nodes"] = [] if node else sp["nodes"][:0]
        for k in ("subpath_constraints", "subset_constraints", "elements_to_ignore", "error_scaling", "additional_starts", "additional_ends"):
            kw.pop(k, None)
    inst["_special"] = special
    return inst


def _intg(edges, w=3):
    G_ = nx.DiGraph()
    for u, v in edges:
        G_.add_edge(u, v, flow=w)
    return G_


class _Money(float):
    """a user-defined subclass of float: not one of the two documented weight types (int, float)"""


class _NotRejectedButUnsolved(Exception):
    pass


def construct_special(inst):
    """build (G, kwargs) honouring the cases JSON cannot express directly"""
    sp = inst["spec"]; special = inst.get("_special")
    kw = models.decode_kwargs({k: v for k, v in inst["kw"].items()})
    G = gen.build(sp)
    if special == "int_nodes":
        mp = {n: i for i, n in enumerate(G.nodes)}
        G = nx.relabel_nodes(G, mp)
        for key in ("subpath_constraints", "subset_constraints"):
            if key in kw:
                kw[key] = [[tuple(mp[x] for x in e) if isinstance(e, tuple) else mp[e] for e in c] for c in kw[key]]
        if "elements_to_ignore" in kw:
            kw["elements_to_ignore"] = [tuple(mp[x] for x in e) if isinstance(e, tuple) else mp[e] for e in kw["elements_to_ignore"]]
        if "error_scaling" in kw:
            kw["error_scaling"] = {(tuple(mp[x] for x in e) if isinstance(e, tuple) else mp[e]): f for e, f in kw["error_scaling"].items()}
        for key in ("additional_starts", "additional_ends"):
            if key in kw:
                kw[key] = [mp[x] for x in kw[key]]
    if special == "iso_nonstring":
        # every node has to be a string - also one that no edge touches (it is a node of the graph, and a source and a sink at once)
        h_ = int(hashlib.sha1(repr(sp["edges"]).encode()).hexdigest(), 16)
        G.add_node([7, 2.5, ("a", 1), 0][h_ % 4], **({"flow": 1} if inst["kw"].get("flow_attr_origin") == "node" else {}))
    if special == "raw_constraints":
        key = "subset_constraints" if inst["cls"].endswith("Cycles") else "subpath_constraints"
        kw[key] = [[(sp["edges"][0][0], sp["edges"][0][1])], "notalist"]
    if special == "constraint_not_tuples":
        key = "subset_constraints" if inst["cls"].endswith("Cycles") else "subpath_constraints"
        kw[key] = [[sp["edges"][0][0], sp["edges"][0][1]]] if sp["edges"] else [["x"]]
    if special == "constraint_edge_as_list":
        key = "subset_constraints" if inst["cls"].endswith("Cycles") else "subpath_constraints"
        kw[key] = [[[sp["edges"][0][0], sp["edges"][0][1]]]]          # an edge written as a list instead of a tuple
    if special == "raw_ignore":
        pass
    if special == "edge_tuple_as_start_or_end":
        kw[inst["_tuple_for"]] = [tuple(inst["_tuple"])]
    if special in ("mixed_node_string", "raw_entries"):
        key = "subset_constraints" if inst["cls"].endswith("Cycles") else "subpath_constraints"
        kw[key] = [([tuple(e) if isinstance(e, list) else e for e in c] if isinstance(c, list) else c) for c in inst["_rawcons"]]
    if kw.get("weight_type") == "str":
        kw["weight_type"] = str
    if kw.get("weight_type") == "complex":
        kw["weight_type"] = complex
    if kw.get("weight_type") == "bool":
        kw["weight_type"] = bool             # a subclass of int, but not one of the two documented weight types
    if kw.get("weight_type") == "floatsub":
        kw["weight_type"] = _Money
    kw["solver_options"] = dict(SO)
    return G, kw


def run_model(cls, G, kw):
    r = M.safe_call(getattr(fp, cls), G, **kw)
    if r[0] != "ok":
        return {"stage": "ctor", "exc": r[1], "msg": r[2], "kind": r[0], "solved": False}
    m = r[1]
    s = M.safe_call(m.solve)
    sv = M.safe_call(m.is_solved)
    solved = bool(sv[1]) if sv[0] == "ok" else False
    if s[0] != "ok":
        return {"stage": "solve", "exc": s[1], "msg": s[2], "kind": s[0], "solved": solved}
    return {"stage": "done", "exc": None, "solved": solved}


def gen_cases(tier, seed):
    cases = []
    per = 4 if tier == "quick" else 40
    for cls in W.ALL:
        for kind in KINDS:
            for i in range(per if kind not in ("empty_graph",) else 1):
                cases.append({"kind": "invalid", "cls": cls, "kinds": [kind], "rs": f"C19:{seed}:{cls}:{kind}:{i}"})
        for i in range(per * 2):
            rng = gen.rng_for("C19pair", seed, cls, i)
            cases.append({"kind": "invalid", "cls": cls, "kinds": rng.sample(KINDS[:-1], 2), "rs": f"C19p:{seed}:{cls}:{i}"})
        for i in range(per * 7):
            cases.append({"kind": "converse", "cls": cls, "rs": f"C19c:{seed}:{cls}:{i}"})
    for i in range(max(per * 6, 34)):
        cases.append({"kind": "aux", "rs": f"C19a:{seed}:{i}", "which": i % 34})
    for cls in ("kFlowDecomp", "MinFlowDecomp", "MinFlowDecompCycles"):
        for i in range(per * 3):
            cases.append({"kind": "history", "cls": cls, "rs": f"C19h:{seed}:{cls}:{i}"})
    cases.append({"kind": "converse_corpus"})
    return cases


STRICT_ALL = set(KINDS)


def judge_invalid(cls, kinds, out, viol, desc):
    strict = [k for k in kinds if k in STRICT_ALL]
    tag = "+".join(kinds)
    if out["solved"]:
        viol.append({"sig": f"C19/invalid-input-ends-up-solved/{cls}/{tag}", "msg": f"{desc}"}); return
    if out["exc"] is None:
        viol.append({"sig": f"C19/not-rejected/{cls}/{tag}", "msg": f"no exception at construction or solve() (model unsolved); {desc}"}); return
    if out["exc"] != "ValueError":
        viol.append({"sig": f"C19/wrong-exception/{cls}/{tag}/{out['exc']}", "msg": f"{out['exc']}: {out.get('msg')} at {out['stage']}; {desc}"})


def run_case(case):
    viol = []; obs = collections.Counter()
    if case["kind"] == "invalid":
        rng = gen.rng_for(case["rs"]); cls = case["cls"]
        inst, meta = W.random_instance(rng, cls, small=True)
        inst["kw"].pop("solution_weights_superset", None)
        if not all(applicable(cls, k, inst, meta) for k in case["kinds"]):
            return {"viol": [], "obs": {"c19.not_applicable": 1}, "nontrivial": False}
        cur = inst
        for k in case["kinds"]:
            cur = mutate(k, cls, cur, meta, rng)
            if cur is None:
                return {"viol": [], "obs": {"c19.not_applicable": 1}, "nontrivial": False}
            sp_ = cur.get("_special")
        # only one special transformation can be active; keep the last non-None
        try:
            G, kw = construct_special(cur)
        except Exception as e:
            return {"viol": [], "obs": {"c19.harness_could_not_build": 1}, "nontrivial": False}
        out = run_model(cls, G, kw)
        obs["c19.invalid_inputs_judged"] += 1
        obs[f"c19.kind.{'+'.join(case['kinds'])[:40]}"] += 0
        desc = f"{cls} kinds={case['kinds']} edges={[(u, v, d.get('flow')) for u, v, d in list(G.edges(data=True))[:12]]} kw={ {k: (v if k not in ('solver_options',) else '..') for k, v in kw.items()} }"[:900]
        judge_invalid(cls, case["kinds"], out, viol, desc)
        return {"viol": viol, "obs": dict(obs), "nontrivial": True, "keys": [hashlib.sha1(desc.encode()).hexdigest()[:14]],
                "sample": {"cls": cls, "kinds": case["kinds"], "outcome": {k: out[k] for k in ("stage", "exc", "solved")}}}
    if case["kind"] == "converse":
        rng = gen.rng_for(case["rs"]); cls = case["cls"]
        inst, meta = W.random_instance(rng, cls, small=True)
        G = gen.build(inst["spec"]); kw = models.decode_kwargs(inst["kw"]); kw["solver_options"] = dict(SO)
        npt = None
        if rng.random() < 0.2 and cls not in W.COV:
            # the same numbers as numpy scalars (what a graph built from a numpy array / pandas frame carries): same instance, still in the domain
            import numpy as np
            fa = kw.get("flow_attr", "flow")
            vals = [d[fa] for _, d in G.nodes(data=True) if fa in d] + [d[fa] for _, _, d in G.edges(data=True) if fa in d]
            if vals and all(isinstance(x, int) and not isinstance(x, bool) and 0 <= x < 2 ** 15 for x in vals):
                npt = rng.choice([np.int64, np.int32, np.uint16])
            elif vals and all(isinstance(x, (int, float)) and not isinstance(x, bool) for x in vals):
                npt = np.float64 if any(float(np.float32(x)) != float(x) for x in vals) else rng.choice([np.float64, np.float32])
            if npt is not None:
                for _, d in G.nodes(data=True):
                    if fa in d:
                        d[fa] = npt(d[fa])
                for _, _, d in G.edges(data=True):
                    if fa in d:
                        d[fa] = npt(d[fa])
                if rng.random() < 0.5:
                    kw.setdefault("optimization_options", {}); kw["optimization_options"] = dict(kw["optimization_options"] or {}, optimize_with_greedy=False)
                obs["c19.converse_numpy_typed"] += 1
        out = run_model(cls, G, kw)
        obs["c19.converse_judged"] += 1
        desc = f"{models.brief(inst)}"[:900] + (f" weights as {npt.__name__}" if npt else "")
        if out["exc"] is not None:
            viol.append({"sig": f"C19/in-domain-input-raises/{cls}/{out['exc']}" + ("/node" if meta["mode"] == "node" else "") + ("/numpy-typed-weights" if npt else ""), "msg": f"{out['exc']}: {out.get('msg')} at {out['stage']}; {desc}"})
        return {"viol": viol, "obs": dict(obs), "nontrivial": True, "keys": [hashlib.sha1(desc.encode()).hexdigest()[:14]], "sample": {"inst": models.brief(inst), "outcome": {k: out[k] for k in ("stage", "exc", "solved")}}}
    if case["kind"] == "history":
        # the SAME graph object is handed to the class several times while the caller edits it in between: every construction must be
        # judged on the graph as it is at that moment (valid -> accepted, non-conserving -> ValueError), in whatever order
        rng = gen.rng_for(case["rs"]); cls = case["cls"]; cyc = cls.endswith("Cycles")
        base = I.cyc_edge_base(rng, wt="int", max_edges=8) if cyc else I.dag_edge_base(rng, wt="int", max_edges=9)
        G = gen.build(I.spec_of(base))
        inner = [e for e in G.edges if e[0] != e[1] and (G.in_degree(e[0]) > 0 or G.out_degree(e[1]) > 0)]      # (a self-loop adds to both sides: no effect on conservation)
        if not inner:
            return {"viol": [], "obs": {"c19.not_applicable": 1}, "nontrivial": False}
        e = rng.choice(inner); good = G.edges[e]["flow"]; bad = good + rng.choice([1, 2, 5])
        kw = {"flow_attr": "flow", "weight_type": int, "solver_options": dict(SO)}
        if cls.startswith("k"):
            kw["k"] = max(1, len(base["planted"])) + 1
        states = rng.choice([["good", "bad", "good"], ["bad", "good", "bad"], ["good", "good", "bad", "good"], ["bad", "bad", "good"]])
        hist = []
        for st_ in states:
            G.edges[e]["flow"] = good if st_ == "good" else bad
            out = run_model(cls, G, dict(kw)); hist.append((st_, out["stage"], out["exc"], out["solved"]))
            obs["c19.history_steps"] += 1
            desc = f"{cls} same graph object, states so far {hist}; edge {e} flow {good} (conserving) / {bad} (not); edges={[(u, v, d.get('flow')) for u, v, d in G.edges(data=True)]}"[:900]
            if st_ == "bad":
                obs["c19.invalid_inputs_judged"] += 1
                judge_invalid(cls, ["non_conserving", "after-edit"], out, viol, desc)
            else:
                obs["c19.converse_judged"] += 1
                if out["exc"] is not None:
                    viol.append({"sig": f"C19/in-domain-input-raises/{cls}/{out['exc']}/after-edit", "msg": f"{out['exc']}: {out.get('msg')}; {desc}"})
        seen = set(); outv = []
        for v in viol:
            if v["sig"] not in seen:
                seen.add(v["sig"]); outv.append(v)
        return {"viol": outv, "obs": dict(obs), "nontrivial": True, "keys": [hashlib.sha1(repr((cls, states, list(G.edges(data=True)))).encode()).hexdigest()[:14]], "sample": {"cls": cls, "history": [list(h) for h in hist]}}
    if case["kind"] == "converse_corpus":
        one = nx.DiGraph(); one.add_node("v", flow=4)
        iso = nx.DiGraph(); iso.add_node("v", flow=4); iso.add_edge("a", "b"); iso.nodes["a"]["flow"] = 2; iso.nodes["b"]["flow"] = 2
        single = nx.DiGraph(); single.add_edge("a", "b", flow=3)
        for G, nm in ((one, "one-node"), (iso, "isolated-node+edge")):
            for cls in W.FD + W.ERR:
                kw = {"flow_attr": "flow", "flow_attr_origin": "node", "weight_type": int, "solver_options": dict(SO)}
                if cls.startswith("k"):
                    kw["k"] = 1 + G.number_of_edges()
                out = run_model(cls, G.copy(), kw); obs["c19.converse_judged"] += 1
                if out["exc"] is not None:
                    viol.append({"sig": f"C19/in-domain-input-raises/{cls}/{out['exc']}/node/{nm}", "msg": f"{out['exc']}: {out.get('msg')} at {out['stage']}"})
            for cls in W.COV:
                kw = {"cover_type": "node", "solver_options": dict(SO)}
                if cls.startswith("k"):
                    kw["k"] = 1 + G.number_of_edges()
                out = run_model(cls, G.copy(), kw); obs["c19.converse_judged"] += 1
                if out["exc"] is not None:
                    viol.append({"sig": f"C19/in-domain-input-raises/{cls}/{out['exc']}/node/{nm}", "msg": f"{out['exc']}: {out.get('msg')} at {out['stage']}"})
        for cls in W.ALL:
            kw = {"solver_options": dict(SO)} if cls in W.COV else {"flow_attr": "flow", "weight_type": int, "solver_options": dict(SO)}
            if cls.startswith("k"):
                kw["k"] = 1
            out = run_model(cls, single.copy(), kw); obs["c19.converse_judged"] += 1
            if out["exc"] is not None:
                viol.append({"sig": f"C19/in-domain-input-raises/{cls}/{out['exc']}/single-edge", "msg": f"{out['exc']}: {out.get('msg')}"})
        # the number-of-paths optimiser with each stopping criterion on an instance that is explained exactly from the first feasible k on
        Ge = nx.DiGraph()
        for u, v, f in (("s", "a", 3), ("a", "t", 3), ("s", "b", 2), ("b", "t", 2)):
            Ge.add_edge(u, v, flow=f)
        for crit in ({"stop_on_first_feasible": True}, {"stop_on_delta_abs": 1}, {"stop_on_delta_rel": 0.1}):
            for mt in (fp.kMinPathError, fp.kLeastAbsErrors):
                r = M.safe_call(fp.NumPathsOptimization, model_type=mt, max_num_paths=4, G=Ge.copy(), flow_attr="flow", weight_type=int, solver_options=dict(SO), **crit)
                out = ("ctor", r[1], r[2]) if r[0] != "ok" else None
                if out is None:
                    s_ = M.safe_call(r[1].solve)
                    out = ("solve", s_[1], s_[2]) if s_[0] != "ok" else None
                obs["c19.converse_judged"] += 1
                if out is not None:
                    viol.append({"sig": f"C19/in-domain-input-raises/NumPathsOptimization/{out[1]}/{list(crit)[0]}", "msg": f"{out[1]}: {out[2]} at {out[0]} with model_type={mt.__name__} {crit}"})
        # explicit None for the option dictionaries (several docstrings give None as the default)
        Gn = nx.DiGraph(); Gn.add_edge("a", "b", flow=2); Gn.add_edge("b", "c", flow=2); Gn.add_edge("a", "c", flow=1)
        for cls in W.ALL:
            for which in ("solver_options", "optimization_options"):
                kw = {} if cls in W.COV else {"flow_attr": "flow", "weight_type": int}
                if cls.startswith("k"):
                    kw["k"] = 2
                kw["solver_options"] = dict(SO)
                kw[which] = None
                out = run_model(cls, Gn.copy(), kw); obs["c19.converse_judged"] += 1
                if out["exc"] is not None:
                    viol.append({"sig": f"C19/in-domain-input-raises/{cls}/{out['exc']}/{which}=None", "msg": f"{out['exc']}: {out.get('msg')} at {out['stage']}"})
        # an exactly conserved float flow (same multiset of values in and out of v) must be accepted whatever the insertion order of the edges
        for order in ([0.1, 0.2, 0.3], [0.3, 0.2, 0.1], [0.2, 0.3, 0.1]):
            Gf = nx.DiGraph()
            for i, f in enumerate([0.1, 0.2, 0.3]):
                Gf.add_edge(f"s{i}", "v", flow=f)
            for i, f in enumerate(order):
                Gf.add_edge("v", f"t{i}", flow=f)
            for cls in ("kFlowDecomp", "MinFlowDecomp", "MinFlowDecompCycles"):
                kw = {"flow_attr": "flow", "weight_type": float, "solver_options": dict(SO)}
                if cls.startswith("k"):
                    kw["k"] = 3
                out = run_model(cls, Gf.copy(), kw); obs["c19.converse_judged"] += 1
                if out["exc"] is not None:
                    viol.append({"sig": f"C19/in-domain-input-raises/{cls}/{out['exc']}/float-conservation-order", "msg": f"{out['exc']}: {out.get('msg')}; out-edges inserted as {order}"})
        # weights are only required to be non-negative: an all-zero flow is inside the domain
        Gz = nx.DiGraph(); Gz.add_edge("a", "b", flow=0); Gz.add_edge("b", "c", flow=0)
        for cls in W.FD + W.ERR:
            kw = {"flow_attr": "flow", "weight_type": int, "solver_options": dict(SO)}
            if cls.startswith("k"):
                kw["k"] = 1
            out = run_model(cls, Gz.copy(), kw); obs["c19.converse_judged"] += 1
            if out["exc"] is not None:
                viol.append({"sig": f"C19/in-domain-input-raises/{cls}/{out['exc']}/all-zero-flow", "msg": f"{out['exc']}: {out.get('msg')}"})
        return {"viol": viol, "obs": dict(obs), "nontrivial": True, "keys": ["corpus"], "sample": {"corpus": True}}
    # auxiliary classes
    def _multi():
        H = nx.MultiDiGraph(); H.add_edge("s", "a", flow=3); H.add_edge("a", "t", flow=2); H.add_edge("a", "t", flow=1)
        for v in H.nodes:
            H.nodes[v]["flow"] = 3
        return H
    def _wrap(npt, x, y, z):
        import numpy as np
        t = getattr(np, npt); H = nx.DiGraph(); H.add_edge("a", "v", flow=t(x)); H.add_edge("b", "v", flow=t(y)); H.add_edge("v", "t", flow=t(z)); return H
    def _cyc():
        H = nx.DiGraph()
        for u, v, f in (("a", "b", 3), ("b", "c", 9), ("c", "a", 3), ("c", "d", 6)):
            H.add_edge(u, v, flow=f)
        return H
    def _solve(m):
        m.solve()
        if m.is_solved():
            return m          # (built, solved: not rejected)
        raise ValueError("not solved (never claims a solution)") if False else _NotRejectedButUnsolved()
    which = case["which"]; rng = gen.rng_for(case["rs"])
    G = nx.DiGraph(); G.add_edge("a", "b", flow=2); G.add_edge("b", "c", flow=2)
    tests = [
        ("MinGenSet/max_multiplicity<1", lambda: fp.MinGenSet([1, 2], total=3, max_multiplicity=0)),
        ("MinGenSet/weight_type", lambda: fp.MinGenSet([1, 2], total=3, weight_type=str)),
        ("MinGenSet/partition-with-multiplicity", lambda: fp.MinGenSet([1, 2], total=3, max_multiplicity=2, partition_constraints=[[1, 2]])),
        ("MinGenSet/partition-not-lists", lambda: fp.MinGenSet([1, 2], total=3, partition_constraints=[1, 2])),
        ("MinGenSet/partition-sum", lambda: fp.MinGenSet([1, 2], total=3, partition_constraints=[[1, 1]])),
        ("NumPathsOptimization/no-stop-criterion", lambda: fp.NumPathsOptimization(model_type=fp.kMinPathError, G=G, flow_attr="flow")),
        ("NumPathsOptimization/k-in-kwargs", lambda: fp.NumPathsOptimization(model_type=fp.kMinPathError, stop_on_first_feasible=True, G=G, flow_attr="flow", k=2)),
        ("NodeExpandedDiGraph/non-string-nodes", lambda: fp.NodeExpandedDiGraph(nx.DiGraph([(1, 2)]), node_flow_attr="flow")),
        ("NodeExpandedDiGraph/empty", lambda: fp.NodeExpandedDiGraph(nx.DiGraph(), node_flow_attr="flow")),
        ("MinErrorFlow/non-string-nodes/acyclic", lambda: fp.MinErrorFlow(_intg([(0, 1), (1, 2), (2, 3)]), flow_attr="flow", solver_options=dict(SO))),
        ("MinErrorFlow/non-string-nodes/cyclic", lambda: fp.MinErrorFlow(_intg([(0, 1), (1, 2), (2, 1), (2, 3)]), flow_attr="flow", solver_options=dict(SO))),
        ("MinErrorFlow/non-string-nodes/tuple-node-cyclic", lambda: fp.MinErrorFlow(_intg([(("a", 1), ("a", 1))]), flow_attr="flow", solver_options=dict(SO))),
        ("MinErrorFlow/nan-weight/acyclic", lambda: fp.MinErrorFlow(_intg([("a", "b"), ("b", "c")], w=float("nan")), flow_attr="flow", solver_options=dict(SO))),
        ("MinErrorFlow/inf-weight/cyclic", lambda: fp.MinErrorFlow(_intg([("a", "b"), ("b", "a"), ("b", "c")], w=float("inf")), flow_attr="flow", solver_options=dict(SO))),
        ("stDAG/unknown-start", lambda: fp.stDAG(G, additional_starts=["zz"])),
        # (a MultiDiGraph is an instance of DiGraph: its parallel edges cannot be represented)
        ("stDAG/multigraph", lambda: fp.stDAG(_multi())),
        ("stDiGraph/multigraph", lambda: fp.stDiGraph(_multi())),
        ("kLeastAbsErrors/multigraph", lambda: _solve(fp.kLeastAbsErrors(_multi(), flow_attr="flow", k=2, solver_options=dict(SO)))),
        ("kMinPathErrorCycles/multigraph", lambda: _solve(fp.kMinPathErrorCycles(_multi(), flow_attr="flow", k=2, solver_options=dict(SO)))),
        ("MinPathCover/multigraph/node", lambda: _solve(fp.MinPathCover(_multi(), cover_type="node", solver_options=dict(SO)))),
        ("MinErrorFlow/multigraph", lambda: _solve(fp.MinErrorFlow(_multi(), flow_attr="flow", solver_options=dict(SO)))),
        # (numpy integers of a small width: 200 + 100 == 44 as uint8; the flow is NOT conserved at v)
        ("kFlowDecomp/non-conserving-uint8-wraparound", lambda: _solve(fp.kFlowDecomp(_wrap("uint8", 200, 100, 44), flow_attr="flow", k=2, weight_type=int, solver_options=dict(SO)))),
        ("MinFlowDecomp/non-conserving-uint16-wraparound", lambda: _solve(fp.MinFlowDecomp(_wrap("uint16", 40000, 30000, 4464), flow_attr="flow", weight_type=int, solver_options=dict(SO)))),
        ("MinFlowDecompCycles/non-conserving-uint8-wraparound", lambda: _solve(fp.MinFlowDecompCycles(_wrap("uint8", 200, 100, 44), flow_attr="flow", weight_type=int, solver_options=dict(SO)))),
        ("kLeastAbsErrors/superset-inf", lambda: fp.kLeastAbsErrors(G, flow_attr="flow", k=1, weight_type=float, solution_weights_superset=[2.0, float("inf")], solver_options=dict(SO))),
        ("kFlowDecomp/superset-inf/int", lambda: fp.kFlowDecomp(G, flow_attr="flow", k=1, weight_type=int, solution_weights_superset=[2, float("inf")], solver_options=dict(SO))),
        ("kMinPathError/length-factor-negative", lambda: fp.kMinPathError(G, flow_attr="flow", k=1, weight_type=int, path_length_ranges=[[0, 20]], path_length_factors=[-1.0], solver_options=dict(SO))),
        ("kMinPathError/length-factor-nan", lambda: fp.kMinPathError(G, flow_attr="flow", k=1, weight_type=int, path_length_ranges=[[0, 20]], path_length_factors=[float("nan")], solver_options=dict(SO))),
        ("kMinPathError/length-range-not-a-pair", lambda: fp.kMinPathError(G, flow_attr="flow", k=1, weight_type=int, path_length_ranges=[(0,)], path_length_factors=[1.0], solver_options=dict(SO))),
        ("kMinPathError/length-range-inf", lambda: fp.kMinPathError(G, flow_attr="flow", k=1, weight_type=int, path_length_ranges=[[0, float("inf")]], path_length_factors=[1.0], solver_options=dict(SO))),
        ("MinErrorFlow/cyclic/unknown-start", lambda: _solve(fp.MinErrorFlow(_cyc(), flow_attr="flow", additional_starts=["zz"], solver_options=dict(SO)))),
        ("MinErrorFlow/cyclic/end-is-not-a-node-name", lambda: _solve(fp.MinErrorFlow(_cyc(), flow_attr="flow", additional_ends=[None], solver_options=dict(SO)))),
        ("stDiGraph/no-source", lambda: fp.stDiGraph(nx.DiGraph([("a", "b"), ("b", "a")]))),
        ("SolverWrapper/unknown-solver", lambda: __import__("flowpaths.utils.solverwrapper", fromlist=["x"]).SolverWrapper(external_solver="cplex")),
    ]
    name, fn = tests[which % len(tests)]
    r = M.safe_call(fn)
    obs["c19.invalid_inputs_judged"] += 1
    if r[0] != "ok" and r[1] == "_NotRejectedButUnsolved":
        # built without error and then merely 'not solved': the invalid input was not rejected, but no solution is claimed either
        viol.append({"sig": f"C19/not-rejected/{name}/unsolved", "msg": "constructed and solve() run without ValueError (model not solved)"})
    elif r[0] == "ok":
        viol.append({"sig": f"C19/not-rejected/{name}", "msg": "constructed without error"})
    elif r[1] != "ValueError":
        viol.append({"sig": f"C19/wrong-exception/{name}/{r[1]}", "msg": f"{r[1]}: {r[2]}"})
    return {"viol": viol, "obs": dict(obs), "nontrivial": True, "keys": [name], "sample": {"aux": name, "outcome": r[:2]}}
