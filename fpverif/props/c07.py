"""C07 - k-Least-Absolute-Errors returns a true optimum with a consistent objective.
Monitors: get_solution(), get_objective_value(), is_valid_solution(), solver objective of kLeastAbsErrors / kLeastAbsErrorsCycles.
Oracles: recomputation from the returned routes; exact z3 optimum over all source-to-sink paths (DAG model, exhaustive);
bounded witness search + DAG/cyclic differential + monotonicity in k (cyclic model)."""
import collections, hashlib
from fpverif import gen, ref, monitors as M, models, instances as I
import flowpaths as fp

LEVEL = "exploration"
RULE = ("case = DAG (kLeastAbsErrors, also run through kLeastAbsErrorsCycles as differential) or cyclic digraph with non-negative, not all zero, "
        "conserving or noisy weights (int / dyadic float), k in 1..3, optional ignore list, error scaling in {0,0.25,0.5,1}, additional "
        "starts/ends, solution_weights_superset, node-weighted variants. Judged: k routes, per-edge errors and objective recomputed, own "
        "validity check, optimum = z3 (DAG) / not worse than the best bounded-multiplicity witness and the planted solution (cyclic), "
        "objective non-increasing in k. non-trivial = optimum > 0 or >= 2 routes; distinct = full input")
CASE_TIMEOUT = {"quick": 150, "thorough": 600}
REQUIRED_OBS = {"c07.consistency_judged": 200, "c07.dag_optimum_compared": 100, "c07.cyc_witness_compared": 50, "c07.differential_pairs": 50}
ASSUMPTIONS = ["cyclic optimality is a witness comparison (walk multiplicities <= 3 in quick, <= 4 in thorough): only 'library worse than a concrete witness' alarms",
               "a solve that hits the 10 s solver limit yields no verdict"]
EXHAUSTIVE = {"quick": False, "thorough": False}
SO = {"threads": 1, "time_limit": 10}


def gen_cases(tier, seed):
    cases = []
    # corpus 'hourglass': every allowed weight exceeds every flow value and all paths share a zero-flow waist edge, so the error / slack on
    # the waist reaches the SUM of the allowed weights
    for f_, wst in ((9, 0), (4, 1), (7, 0)):
        hn = ["a1", "a2", "m", "n", "b1", "b2"]; he = [("a1", "m"), ("a2", "m"), ("m", "n"), ("n", "b1"), ("n", "b2")]
        hf = {("a1", "m"): f_, ("a2", "m"): f_, ("m", "n"): wst, ("n", "b1"): f_, ("n", "b2"): f_}
        for wt_ in ("int", "float"):
            hb = {"nodes": hn, "edges": he, "flow": {e: (float(v) if wt_ == "float" else v) for e, v in hf.items()}, "planted": [], "wt": wt_, "mode": "edge"}
            sup_ = [f_ + 1, f_ + 1] if wt_ == "int" else [f_ + 1.0, f_ + 1.0]
            cases.append({"cyc": False, "mode": "edge", "wt": wt_, "k": 2, "ignore": [], "scale": [], "starts": [], "ends": [], "superset": sup_, "planted": [], "spec": I.spec_of(hb)})
    # corpus (trust percentile): zero-flow edges next to the flow (a percentile value of 0 must not reserve a walk for them), and an ignored edge
    # with an outlier value (it must not move the percentile)
    for E_, ig_, k_ in (([("s", "a", 5), ("a", "b", 0), ("a", "t", 5), ("b", "t", 0)], [], 1),
                        ([("s", "a", 4), ("a", "t", 4), ("s", "b", 90), ("b", "t", 1), ("a", "b", 0)], [["s", "b"]], 1),
                        ([("s", "a", 3), ("a", "c", 3), ("c", "a", 0), ("c", "t", 3), ("s", "t", 0)], [], 1),
                        ([("s", "a", 2), ("a", "t", 2), ("s", "t", 50), ("s", "c", 7), ("c", "t", 7)], [["s", "t"]], 2)):
        for p_ in (0, 25, 50, 75):
            nodes_ = list(dict.fromkeys(x for u, v, _ in E_ for x in (u, v)))
            base = {"nodes": nodes_, "edges": [(u, v) for u, v, _ in E_], "flow": {(u, v): f for u, v, f in E_}, "planted": [], "wt": "int", "mode": "edge"}
            cases.append({"cyc": True, "mode": "edge", "wt": "int", "k": k_, "ignore": ig_, "scale": [], "starts": [], "ends": [], "superset": None, "planted": [], "trusted_pct": p_, "spec": I.spec_of(base)})
    # corpus: two instances on which HiGHS with presolve goes wrong (known findings, classified by re-solving with presolve off)
    hn = {"v3": 3, "v4": 13, "v0": 13, "v2": 3, "v5": 3, "v1": 8, "v6": 2, "v7": 5}
    he2 = [("v3", "v4"), ("v3", "v5"), ("v3", "v6"), ("v3", "v7"), ("v0", "v3"), ("v0", "v1"), ("v2", "v5"), ("v2", "v3"), ("v1", "v2"), ("v1", "v5")]
    cases.append({"cyc": False, "mode": "node", "wt": "float", "k": 2, "ignore": [], "scale": [], "starts": ["v1", "v7"], "ends": [], "superset": None, "planted": [],
                  "spec": gen.spec(list(hn), he2, nattr={v: {"flow": float(f)} for v, f in hn.items()})})
    ce = [("s", "a", 3.0), ("a", "t", 3.0), ("s", "c", 0.5), ("c", "d", 0.5), ("d", "c", 0.5), ("d", "t", 0.5)]
    cases.append({"cyc": True, "mode": "edge", "wt": "float", "k": 1, "ignore": [], "scale": [], "starts": [], "ends": [], "superset": None, "planted": [],
                  "spec": gen.spec(["s", "a", "t", "c", "d"], [(u, v) for u, v, _ in ce], eattr={(u, v): {"flow": f} for u, v, f in ce})})
    # corpus: integer weights asked for fractional data (weights are only required to be non-negative)
    for fl in ([0.5, 0.75], [7.9, 7.9], [2.5, 0.25, 2.5]):
        nodes = [str(i) for i in range(len(fl) + 1)]; edges = list(zip(nodes, nodes[1:]))
        for cyc_ in (False, True):
            cases.append({"cyc": cyc_, "mode": "edge", "wt": "int", "k": 1, "ignore": [], "scale": [], "starts": [], "ends": [], "superset": None, "planted": [],
                          "spec": gen.spec(nodes, edges, eattr={e: {"flow": f} for e, f in zip(edges, fl)})})
    # corpus: the same numbers stored as (unsigned) numpy integers, with an edge that the optimum over-covers
    for npt in ("uint8", "uint16", "uint32", "uint64", "int64"):
        for fl, sup, cyc_ in (([5, 5, 1], [5], False), ([200, 200], [200], False), ([5, 5, 1], None, False), ([5, 5, 1], None, True)):
            nodes = [str(i) for i in range(len(fl) + 1)]; edges = list(zip(nodes, nodes[1:]))
            sp_ = gen.spec(nodes, edges, eattr={e: {"flow": f} for e, f in zip(edges, fl)}); sp_["np_type"] = npt
            cases.append({"cyc": cyc_, "mode": "edge", "wt": "int", "k": 1, "ignore": [], "scale": [], "starts": [], "ends": [], "superset": sup, "planted": [], "spec": sp_})
    n = 300 if tier == "quick" else 3500
    for i in range(n):
        rng = gen.rng_for("C07", seed, i)
        cyc = rng.random() < 0.4
        node = rng.random() < 0.2
        wt = rng.choice(["int", "int", "float"])
        exact = rng.random() < 0.25
        if cyc:
            base = I.cyc_node_base(rng, wt=wt, exact=exact, max_edges=7) if node else I.cyc_edge_base(rng, wt=wt, exact=exact, max_edges=8, maxw=2, maxlen=6)
        else:
            base = I.dag_node_base(rng, wt=wt, exact=exact, max_edges=8) if node else I.dag_edge_base(rng, wt=wt, exact=exact, max_edges=9)
        if all(v == 0 for v in base["flow"].values()):
            continue
        if rng.random() < 0.2:
            I.add_zero_elements(rng, base, n=rng.randint(1, 2))      # weights are only required to be non-negative
        elems = base["nodes"] if node else base["edges"]
        c = {"cyc": cyc, "mode": base["mode"], "wt": wt, "k": rng.randint(1, 3), "ignore": [], "scale": [], "starts": [], "ends": [], "superset": None,
             "planted": [[list(p), w] for p, w in base["planted"]]}
        if rng.random() < 0.25 and len(elems) >= 2:
            c["ignore"] = gen.jl(I.pick_ignore(rng, base, 0.3))
        if rng.random() < 0.3:
            c["scale"] = [[gen.jl(e) if isinstance(e, tuple) else e, rng.choice([0, 0.25, 0.5, 1])] for e in rng.sample(elems, rng.randint(1, max(1, len(elems) // 2)))]
        if rng.random() < 0.2 and len(base["nodes"]) >= 3:
            inner = I.inner_nodes(base) or base["nodes"]
            if rng.random() < 0.7:
                c["starts"] = [rng.choice(inner)]
            if rng.random() < 0.7:
                c["ends"] = [rng.choice(inner)]
        if not cyc and rng.random() < 0.15:
            ws = [w for _, w in base["planted"]][:3] or [1]
            c["superset"] = ws + [rng.choice([1, 2]) if wt == "int" else 0.5] + [rng.choice([1, 3]) if wt == "int" else 1.5]
            if rng.random() < 0.35:
                # every allowed weight exceeds every flow value: the errors (slacks) pile up beyond the largest flow
                mx = max(base["flow"].values()) or 1
                c["superset"] = [(int(-(-mx // 1)) + rng.choice([1, 2])) if wt == "int" else float(mx + 0.5)] * rng.randint(1, 3)      # (given weights of the requested type: whole numbers for int)
        if not node and rng.random() < 0.3 and c["superset"] is None:
            # the caller's assumption "these edges appear in an optimal solution" (explicit list, or the edges at/above a weight percentile)
            if cyc and rng.random() < 0.5:
                c["trusted_pct"] = rng.choice([0, 25, 50, 75])
            else:
                c["trusted"] = gen.jl(rng.sample(base["edges"], rng.randint(1, len(base["edges"]))))
            if rng.random() < 0.6 and not any(f == 0 for _, f in c["scale"]):
                e0 = rng.choice(base["edges"]); c["scale"] = [x for x in c["scale"] if models._elem(x[0]) != e0] + [[gen.jl(e0), 0]]     # a trusted edge may be switched off by scale 0
        drop = [e for e in [models._elem(x) for x in c["ignore"]] if rng.random() < 0.3]
        c["spec"] = I.spec_of(base, drop_attr=drop)
        if wt == "int" and rng.random() < 0.08 and all(isinstance(f, int) and 0 <= f < 250 for f in base["flow"].values()):
            c["spec"]["np_type"] = rng.choice(["uint8", "uint16", "uint32", "int32", "int64"])      # the same numbers as numpy scalars
        cases.append(c)
    return cases


def build_kw(case, k):
    kw = {"flow_attr": "flow", "weight_type": case["wt"], "k": k}
    if case["mode"] == "node":
        kw["flow_attr_origin"] = "node"
    if case["ignore"]:
        kw["elements_to_ignore"] = case["ignore"]
    if case["scale"]:
        kw["error_scaling"] = case["scale"]
        h_ = int(hashlib.sha1(repr(case["scale"]).encode()).hexdigest(), 16)
        if h_ % 5 == 0:
            # the same factors (0, 1/4, 1/2, 3/4, 1: exact in every float type) as numpy scalars or fractions
            kw["error_scaling_number_type"] = ["float32", "Fraction", "float16", "float64"][(h_ // 5) % 4]
    if case["starts"]:
        kw["additional_starts"] = case["starts"]
    if case["ends"]:
        kw["additional_ends"] = case["ends"]
    if case["superset"] is not None:
        kw["solution_weights_superset"] = case["superset"]
    if case.get("trusted"):
        kw["trusted_edges_for_safety"] = case["trusted"]
    if case.get("trusted_pct") is not None:
        kw["trusted_edges_for_safety_percentile"] = case["trusted_pct"]
    return kw


def columns_dag(G, mode, starts, ends):
    S = list(dict.fromkeys(ref.sources(G) + list(starts))); T = list(dict.fromkeys(ref.sinks(G) + list(ends)))
    P = ref.st_paths(G, S, T)
    return [collections.Counter(p) if mode == "node" else collections.Counter(ref.path_edges(p)) for p in P]


def columns_cyc(G, mode, starts, ends, B):
    S = list(dict.fromkeys(ref.sources(G) + list(starts))); T = list(dict.fromkeys(ref.sinks(G) + list(ends)))
    comp = ref.scc_map(G)
    cap = {e: (1 if comp[e[0]] != comp[e[1]] else B) for e in G.edges}
    edges, vecs = ref.walk_vectors(G, S, T, cap, limit=3000)
    cols = []
    for v in vecs:
        if mode == "node":
            cnt = collections.Counter(); cnt[v["start"]] += 1
            for (a, b), m in v["x"].items():
                cnt[b] += m
            cols.append(dict(cnt))
        elif v["x"]:
            cols.append(dict(v["x"]))
    return cols


def run_one(cls, case, k, viol, obs, desc, tagstr):
    inst = {"cls": cls, "spec": case["spec"], "kw": build_kw(case, k)}
    M.TRACE.reset()
    res = models.run(inst, solver_options=SO)
    if any(t.get("status") == "kTimeLimit" for t in M.TRACE.trace):
        obs["c07.time_limited"] += 1
        return None
    if "exc" in res:
        viol.append({"sig": f"C07/{cls}/{res['stage']}-raises/{res['exc'][0]}{tagstr}", "msg": f"{res['exc']}; k={k}; {desc}"})
        return None
    if not res["solved"]:
        # classify: solved as soon as HiGHS' presolve is switched off => the solver (trusted base) wrongly declared the model infeasible
        r2 = models.run(inst, solver_options=dict(SO, presolve="off"))
        mech = "/solver-presolve-declares-feasible-model-infeasible" if r2.get("solved") else tagstr
        viol.append({"sig": f"C07/{cls}/unsolved{mech}", "msg": f"k={k} status={res.get('status')}; {desc}"})
        return None
    return res


def run_case(case):
    viol = []; obs = collections.Counter()
    G = gen.build({k_: v_ for k_, v_ in case["spec"].items() if k_ != "np_type"})      # (the oracle works on plain Python numbers)
    mode = case["mode"]; wt = case["wt"]; cyc = case["cyc"]; k = case["k"]
    ign = set(models._elem(e) for e in case["ignore"]); sc = {models._elem(e): f for e, f in case["scale"]}
    ignored = ign | {e for e, f in sc.items() if f == 0}
    if mode == "node":
        demand = {v: d["flow"] for v, d in G.nodes(data=True) if "flow" in d and v not in ignored}
        dshow = f"nodes={[(v, d.get('flow')) for v, d in G.nodes(data=True)]} edges={list(G.edges)}"
    else:
        demand = {(u, v): d["flow"] for u, v, d in G.edges(data=True) if "flow" in d and (u, v) not in ignored}
        dshow = f"edges={[(u, v, d.get('flow')) for u, v, d in G.edges(data=True)]}"
    if not demand or all(v == 0 for v in demand.values()):
        return {"viol": [], "obs": {"c07.everything_ignored_skipped": 1}, "nontrivial": False}    # outside the domain (no non-ignored weighted element)
    trusted = None
    if case.get("trusted"):
        trusted = {models._elem(e) for e in case["trusted"]} - ignored
    elif case.get("trusted_pct") is not None:
        import numpy as np
        # the percentile is taken over the edges whose value counts (an ignored or zero-scaled edge may carry any value), and - as without a
        # percentile - only edges of non-zero flow are ever trusted
        vals = [d["flow"] for u, v, d in G.edges(data=True) if "flow" in d and (u, v) not in ignored]
        thr = float(np.percentile(vals, case["trusted_pct"])) if vals else 0
        trusted = {(u, v) for u, v, d in G.edges(data=True) if "flow" in d and d["flow"] >= thr and d["flow"] > 0} - ignored
    def trust_cols(cols):
        return [[i for i, c_ in enumerate(cols) if c_.get(e, 0) > 0] for e in sorted(trusted)] if trusted else None
    desc = f"{'cyclic' if cyc else 'DAG'} mode={mode} wt={wt} k={k} {dshow} ignore={sorted(map(str, ign))} scale={sc} starts={case['starts']} ends={case['ends']} superset={case['superset']}" + (f" trusted={sorted(trusted)}" if trusted is not None else "")
    tags = [t for t, c in (("node", mode == "node"), ("ignore", ign), ("scale", sc), ("starts/ends", case["starts"] or case["ends"]), ("superset", case["superset"] is not None), ("float", wt == "float"), ("trusted", trusted is not None)) if c]
    tagstr = ("/" + "/".join(tags)) if tags else ""
    M.ROUTES.install(); M.ROUTES.drain(); M.TRACE.install()
    cls = "kLeastAbsErrorsCycles" if cyc else "kLeastAbsErrors"
    res = run_one(cls, case, k, viol, obs, desc, tagstr)
    side = [s for s, _ in M.ROUTES.drain()]
    sample = {"desc": desc}
    nontriv = False
    if res is not None:
        sol = res["sol"]; m = res["model"]
        routes = models.routes_of(sol); weights = sol["weights"]
        obs["c07.consistency_judged"] += 1
        # exactly k routes (no superset, no extra starts/ends)
        if case["superset"] is None and not case["starts"] and not case["ends"] and len(routes) != k:
            viol.append({"sig": f"C07/{cls}/number-of-routes!=k{tagstr}", "msg": f"{len(routes)} routes for k={k}; {desc}"})
        if len([r for r in routes if r]) > k:
            viol.append({"sig": f"C07/{cls}/more-than-k-routes{tagstr}", "msg": f"{len([r for r in routes if r])} non-empty routes for k={k}; {desc}"})
        ex = models.explained(sol, mode)
        rec = {e: abs(f - ex.get(e, 0)) for e, f in demand.items()}
        rec_obj = sum(rec[e] * sc.get(e, 1) for e in rec)
        # reported per-edge errors (keys are internal edges in node mode)
        rep = sol.get("edge_errors", {})
        def key_of(e):
            return (e + ".0", e + ".1") if mode == "node" else e
        bad = [(e, rep.get(key_of(e)), rec[e]) for e in rec if key_of(e) not in rep or not models.num_close(rep[key_of(e)], rec[e])]
        if bad:
            viol.append({"sig": f"C07/{cls}/edge-errors!=recomputed{tagstr}", "msg": f"(element, reported, recomputed) {bad[:3]}; routes {routes} weights {weights}; {desc}"})
        obj = res.get("obj")
        if obj is None or not models.num_close(obj, rec_obj):
            viol.append({"sig": f"C07/{cls}/objective!=recomputed" + ("/scaled" if any(f not in (0, 1) for f in sc.values()) else "") + tagstr,
                         "msg": f"get_objective_value() = {obj}, recomputed total scaled error {rec_obj} (unscaled {sum(rec.values())}); {desc}"})
        v = M.safe_call(m.is_valid_solution)
        if v[0] != "ok" or v[1] is not True:
            viol.append({"sig": f"C07/{cls}/own-validity-check-rejects-optimum" + ("/scaled" if any(f not in (0, 1) for f in sc.values()) else "") + tagstr, "msg": f"is_valid_solution() -> {v[1:]}; {desc}"})
        sample.update({"routes": routes[:3], "weights": weights[:3], "objective": obj, "recomputed": rec_obj})
        nontriv = rec_obj > 0 or len(routes) >= 2
        # ---------------- optimality
        try:
            if not cyc:
                cols = columns_dag(G, mode, case["starts"], case["ends"])
                best = ref.lae_min(cols, demand, k, models.WT[wt], sc, superset=case["superset"])
                if trusted:
                    # the trust assumption is valid iff some optimal solution has every trusted (non-ignored) edge on one of its k paths;
                    # only then does the statement promise the true optimum
                    bt = ref.lae_min(cols, demand, k, models.WT[wt], sc, superset=case["superset"], cons_cols=trust_cols(cols))
                    if bt is None or not models.num_close(float(bt), float(best)):
                        obs["c07.trust_assumption_invalid_skipped"] += 1
                        raise ref.RefTimeout("trust assumption does not hold")
                    obs["c07.trusted_cases_judged"] += 1
                obs["c07.dag_optimum_compared"] += 1
                sample["reference"] = float(best)
                if not models.num_close(rec_obj, float(best)):
                    mech = tagstr
                    if rec_obj > float(best):
                        r2 = models.run({"cls": cls, "spec": case["spec"], "kw": build_kw(case, k)}, solver_options=dict(SO, presolve="off"))
                        if r2.get("solved") and models.num_close(float(r2.get("obj") if r2.get("obj") is not None else 1e99), float(best)):
                            mech = "/solver-presolve-loses-the-optimum"; case = dict(case, superset=[])      # (no differential run on top of it: same cause)
                    viol.append({"sig": f"C07/{cls}/" + ("not-optimal" if rec_obj > float(best) else "below-exhaustive-reference") + mech, "msg": f"recomputed objective {rec_obj}, exact optimum {best} over {len(cols)} paths; {desc}"})
                # differential: the walk model on the same acyclic input
                if case["superset"] is None:
                    r2 = run_one("kLeastAbsErrorsCycles", case, k, viol, obs, desc, tagstr + "/differential")
                    if r2 is not None:
                        obs["c07.differential_pairs"] += 1
                        ex2 = models.explained(r2["sol"], mode)
                        o2 = sum(abs(f - ex2.get(e, 0)) * sc.get(e, 1) for e, f in demand.items())
                        if not models.num_close(o2, rec_obj):
                            viol.append({"sig": f"C07/DAG-vs-cyclic-model-disagree{tagstr}", "msg": f"kLeastAbsErrors {rec_obj} vs kLeastAbsErrorsCycles {o2} on the same acyclic input; {desc}"})
            else:
                B = 3
                cols = columns_cyc(G, mode, case["starts"], case["ends"], B)
                wit = ref.lae_min(cols, demand, k, models.WT[wt], sc)
                if trusted:
                    wt_ = ref.lae_min(cols, demand, k, models.WT[wt], sc, cons_cols=trust_cols(cols))
                    if wt_ is None or not models.num_close(float(wt_), float(wit)):
                        obs["c07.trust_assumption_invalid_skipped"] += 1
                        raise ref.RefTimeout("trust assumption does not hold for the witness")
                    obs["c07.trusted_cases_judged"] += 1
                obs["c07.cyc_witness_compared"] += 1
                sample["witness"] = float(wit)
                if rec_obj > float(wit) + 1e-6 * max(1, abs(float(wit))):
                    # classify by mechanism: is the library optimal under its own bound w_max = k*max weight on every product multiplicity*weight?
                    from fpverif.props.c08 import classify_mechanism
                    # (under the caller's trust assumption where one is given: the caps may bite only together with it)
                    mech = classify_mechanism(lambda cc, pc: ref.lae_min(cc, demand, k, models.WT[wt], sc, prod_cap=pc, cons_cols=(trust_cols(cc) if trusted else None)), cols, m, mode, rec_obj,
                                              cols_fn=lambda B_: columns_cyc(G, mode, case["starts"], case["ends"], B_))
                    if mech is None:
                        # neither of the library's own caps explains it: does HiGHS reach the witness value once its presolve is off?
                        r2 = models.run({"cls": cls, "spec": case["spec"], "kw": build_kw(case, k)}, solver_options=dict(SO, presolve="off"))
                        if r2.get("solved") and isinstance(r2.get("obj"), (int, float)) and r2["obj"] <= float(wit) + 1e-6 * max(1, abs(float(wit))):
                            mech = "/solver-presolve-loses-the-optimum"
                    mech = mech or tagstr
                    viol.append({"sig": f"C07/{cls}/worse-than-witness{mech}", "msg": f"recomputed objective {rec_obj} but a solution with multiplicities <= {B} achieves {wit}; {desc}"})
                # monotone in k
                r3 = run_one(cls, case, k + 1, viol, obs, desc, tagstr)
                if r3 is not None:
                    ex3 = models.explained(r3["sol"], mode)
                    o3 = sum(abs(f - ex3.get(e, 0)) * sc.get(e, 1) for e, f in demand.items())
                    obs["c07.monotone_pairs"] += 1
                    if o3 > rec_obj + 1e-6 * max(1, rec_obj):
                        viol.append({"sig": f"C07/{cls}/objective-increases-with-k{tagstr}", "msg": f"k={k}: {rec_obj}, k={k + 1}: {o3}; {desc}"})
        except ref.RefTimeout:
            obs["c07.ref_timeout"] += 1
    side += [s for s, _ in M.ROUTES.drain()]
    if wt == "int" and any(float(v) != int(v) for v in demand.values()):
        # integer weights on fractional data: the error variables of the integer models are integers (errors rounded up), so the reported
        # errors / objective differ from the recomputed ones; every disagreement on this input class is keyed by the class (known finding)
        obs["c07.int_type_fractional_data"] += 1
        for v in viol:
            if "/unsolved" not in v["sig"] and "-raises/" not in v["sig"]:      # (an unsolved model / an exception is not explained by integer error variables)
                v["sig"] = "C07/int-weight-type-with-fractional-flows/" + v["sig"][4:]
    seen = set(); out = []
    for v in viol:
        if v["sig"] not in seen:
            seen.add(v["sig"]); out.append(v)
    return {"viol": out[:6], "obs": dict(obs), "side": side, "nontrivial": nontriv, "keys": [hashlib.sha1(desc.encode()).hexdigest()[:14]] if nontriv else [], "sample": sample}
