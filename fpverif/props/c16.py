"""C16 - MinErrorFlow returns a closest non-negative flow on the same graph.
Monitors: MinErrorFlow.solve()/get_solution()/get_corrected_graph(). Oracle: exact z3 L1 correction (own formulation,
own node expansion for node-weighted input), recomputation of the reported error."""
import collections, hashlib, fractions
import networkx as nx
import z3
from fpverif import gen, ref, monitors as M, models
import flowpaths as fp

LEVEL = "exploration"
RULE = ("case = DAG or cyclic digraph with arbitrary non-negative weights (int / dyadic float, zeros, missing on ignored elements), edge or node "
        "weighted, optional ignore list, error scaling in {0,0.25,0.5,1}, additional starts/ends (acyclic), sparsity lambda in {0,0.5,2} "
        "(acyclic), few-values epsilon in {None,0,0.1,0.5}; judged: same node/edge sets, non-negativity and type, conservation, objective = z3 "
        "optimum, reported error = recomputed error, (1+eps) bound. non-trivial = input not already a flow; distinct = full input")
CASE_TIMEOUT = {"quick": 150, "thorough": 600}
REQUIRED_OBS = {"c16.solved_judged": 200, "c16.optimum_compared": 200, "c16.epsilon_cases": 20, "c16.node_mode": 30}
ASSUMPTIONS = ["'conservation' for additional starts (ends) is one-sided as documented: outgoing may exceed incoming (incoming may exceed outgoing)",
               "node-weighted results are judged on the harness's own node expansion (existence of edge flows realising the node values)"]
EXHAUSTIVE = {"quick": False, "thorough": False}
SO = {"threads": 1, "time_limit": 30}


def gen_cases(tier, seed):
    cases = []
    n = 450 if tier == "quick" else 5000
    for i in range(n):
        rng = gen.rng_for("C16", seed, i)
        cyc = rng.random() < 0.45
        nodes, edges = gen.cyc_any(rng, 10) if cyc else gen.dag_any(rng, 11)
        fan = None
        if rng.random() < 0.15:
            # several multi-edge heavy branches into (out of) one node with a single light edge on the other side:
            # the closest flow changes that single edge by more than the largest input weight
            nb = rng.randint(2, 4); L = rng.randint(2, 3); fan = rng.choice(["in", "out"]); cyc = False
            nodes = ["hub", "end"]; edges = [("hub", "end")] if fan == "in" else [("end", "hub")]
            for b in range(nb):
                chain = [f"b{b}_{j}" for j in range(L)]
                nodes += chain
                seq = chain + ["hub"] if fan == "in" else ["hub"] + chain
                edges += list(zip(seq, seq[1:]))
            if rng.random() < 0.3:
                edges.append(("end", nodes[2]) if fan == "in" else (nodes[-1], "end")); cyc = True
        if fan is None and rng.random() < 0.12:
            # a self-loop as the ONLY incoming (outgoing) edge of a node: the node then has both kinds of edges and must be balanced, which
            # forces its other edges to 0
            ends_ = [v for v in nodes if not any(e[1] == v and e[0] != v for e in edges)] + [v for v in nodes if not any(e[0] == v and e[1] != v for e in edges)]
            for v in rng.sample(ends_, min(len(ends_), rng.randint(1, 2))):
                if (v, v) not in edges:
                    edges.append((v, v))
            cyc = True
        node = rng.random() < 0.25
        wt = rng.choice(["int", "int", "float"])
        vals = [0, 1, 2, 3, 5, 8, 9] if wt == "int" else [0.0, 0.5, 1.5, 2.25, 4.0, 7.75]
        elems = nodes if node else edges
        w = {e: rng.choice(vals) for e in elems}
        if fan:
            heavy = vals[-1]
            w = {e: heavy for e in elems}
            if node:
                w["end"] = rng.choice(vals[:3])
            else:
                w[("hub", "end") if fan == "in" else ("end", "hub")] = rng.choice(vals[:3] + [heavy])
        if all(v == 0 for v in w.values()):
            w[elems[0]] = vals[2]
        ign = rng.sample(elems, rng.randint(1, max(1, len(elems) // 3))) if (rng.random() < 0.3 and len(elems) >= 2) else []
        drop = [e for e in ign if rng.random() < 0.4]
        sc = {e: rng.choice([0, 0.25, 0.5, 1]) for e in rng.sample(elems, rng.randint(1, max(1, len(elems) // 2)))} if rng.random() < 0.3 else {}
        starts = ends = []
        lam = 0
        if not cyc:
            if rng.random() < 0.25 and len(nodes) >= 3:
                starts = [rng.choice(nodes)] if rng.random() < 0.7 else []
                ends = [rng.choice(nodes)] if rng.random() < 0.7 else []
            lam = rng.choice([0, 0, 0.5, 2])
        eps = rng.choice([None, None, None, 0, 0.1, 0.5])
        attr = {e: ({} if e in drop else {"flow": w[e]}) for e in elems}
        spec = gen.spec(nodes, edges, nattr=attr if node else None, eattr=None if node else attr)
        cases.append({"spec": spec, "cyc": cyc, "node": node, "wt": wt, "ignore": gen.jl(ign), "scale": [[gen.jl(e) if isinstance(e, tuple) else e, f] for e, f in sc.items()],
                      "starts": starts, "ends": ends, "lam": lam, "eps": eps})
        if wt == "int" and not drop and rng.random() < 0.12:
            # the same numbers as small numpy integers (their sums / products with the number of edges leave the type's range)
            spec["np_type"] = rng.choice(["uint8", "int8", "uint16", "int16", "int64"])
    # corpus (found by a bug hunter): a cyclic float instance on which the solver returns -1.1e-13 for an edge whose optimum value is 0
    E_ = [("v0", "v3", 469.79), ("v3", "v0", 384.8), ("v3", "v1", 113.96), ("v2", "v1", 195.07), ("v2", "t", 61.55), ("v2", "v0", 600.07), ("v1", "v3", 206.64), ("s", "v3", 955.61)]
    cases.append({"spec": gen.spec(["v0", "v1", "v2", "v3", "s", "t"], [(u, v) for u, v, _ in E_], eattr={(u, v): {"flow": f} for u, v, f in E_}), "cyc": True, "node": False, "wt": "float",
                  "ignore": [], "scale": [], "starts": [], "ends": [], "lam": 0, "eps": None})
    # corpus (thorough tier, seed 3): the second phase (few_flow_values_epsilon) is declared infeasible by HiGHS' presolve (known finding)
    cases.append({"spec": gen.spec(["a", "d", "e"], [("a", "d"), ("a", "e"), ("d", "e")], nattr={"a": {"flow": 3}, "d": {"flow": 9}, "e": {"flow": 0}}), "cyc": False, "node": True, "wt": "int",
                  "ignore": [], "scale": [["a", 0]], "starts": [], "ends": [], "lam": 0, "eps": 0.5})
    for npt_, val_ in (("uint8", 60), ("int8", 60), ("uint16", 14000), ("int16", 14000)):
        cn_ = ["a", "b", "c", "d", "e"]; ce_ = list(zip(cn_, cn_[1:] + cn_[:1]))
        for node_ in (False, True):
            sp_ = gen.spec(cn_, ce_, nattr={v: {"flow": val_} for v in cn_} if node_ else None, eattr=None if node_ else {e: {"flow": val_} for e in ce_}); sp_["np_type"] = npt_
            cases.append({"spec": sp_, "cyc": True, "node": node_, "wt": "int", "ignore": [], "scale": [], "starts": [], "ends": [], "lam": 0, "eps": None})
    for i in range(12 if tier == "quick" else 200):
        # the same family at random: cyclic graphs with two-decimal float weights (sums and differences are not exact in binary)
        rng = gen.rng_for("C16dec", seed, i)
        nodes, edges = gen.cyc_any(rng, 10)
        cases.append({"spec": gen.spec(nodes, edges, eattr={e: {"flow": round(rng.uniform(1, 999), 2)} for e in edges}), "cyc": True, "node": False, "wt": "float",
                      "ignore": [], "scale": [], "starts": [], "ends": [], "lam": 0, "eps": None})
    return cases


def expand(G):
    H = nx.DiGraph()
    for v in G.nodes:
        H.add_edge(("in", v), ("out", v))
    for u, v in G.edges:
        H.add_edge(("out", u), ("in", v))
    return H


def z3_problem(H, dag, f, scale, starts, ends, lam, wt, fixed=None):
    """H: graph whose edges carry variables; f: dict edge->target for the edges that count; returns (solver, X, objective expr, err expr).
    Conservation at nodes with in&out; sources/sinks of a DAG free; additional starts: out>=in; ends: in>=out."""
    o = z3.Optimize(); o.set("timeout", 60000)
    V = (lambda n: z3.Int(n)) if wt == "int" else (lambda n: z3.Real(n))
    X = {e: V(f"x{i}") for i, e in enumerate(H.edges)}
    for e, x in X.items():
        o.add(x >= 0)
        if fixed is not None and e in fixed:
            if wt is float or wt == "float":
                # float results are conserving only up to the solver tolerance: the value may be off by 1e-6 (relative)
                tol_ = ref._q(1e-6 * max(1.0, abs(float(fixed[e]))))
                o.add(x >= ref._q(fixed[e]) - tol_, x <= ref._q(fixed[e]) + tol_)
            else:
                o.add(x == ref._q(fixed[e]))
    tot = ref._q(0); err = ref._q(0)
    for i, (e, t) in enumerate(f.items()):
        d = V(f"d{i}") if (wt == "int" and isinstance(t, int)) else z3.Real(f"d{i}")
        o.add(d >= X[e] - ref._q(t), d >= ref._q(t) - X[e])
        tot = tot + d * ref._q(scale.get(e, 1)); err = err + d
    src_out = ref._q(0)
    for v in H.nodes:
        i_ = z3.Sum([X[e] for e in H.in_edges(v)] + [ref._q(0)]); o_ = z3.Sum([X[e] for e in H.out_edges(v)] + [ref._q(0)])
        isS = dag and (H.in_degree(v) == 0 or v in starts); isT = dag and (H.out_degree(v) == 0 or v in ends)
        if H.in_degree(v) == 0:
            if dag and H.out_degree(v) > 0:
                src_out = src_out + o_           # everything leaving a source node entered through the virtual source
            continue
        if H.out_degree(v) == 0:
            if isS:
                sv = z3.Real(f"s_{len(str(v))}_{abs(hash(v)) % 100000}"); o.add(sv >= 0); src_out = src_out + sv   # start that is a sink: free inflow, costs lambda
            continue
        if isS and isT:
            sv = z3.Real(f"s_{abs(hash(v)) % 1000000}"); o.add(sv >= 0, sv >= o_ - i_); src_out = src_out + sv
        elif isS:
            o.add(o_ >= i_); src_out = src_out + (o_ - i_)
        elif isT:
            o.add(i_ >= o_)
        else:
            o.add(i_ == o_)
    return o, X, tot, err, src_out


def run_case(case):
    viol = []; obs = collections.Counter()
    G = gen.build({k_: v_ for k_, v_ in case["spec"].items() if k_ != "np_type"})      # (the oracle works on plain Python numbers)
    cyc, node, wt = case["cyc"], case["node"], case["wt"]
    ign = [models._elem(e) for e in case["ignore"]]; sc = {models._elem(e): f for e, f in case["scale"]}
    kw = {"flow_attr": "flow", "weight_type": wt}
    if node:
        kw["flow_attr_origin"] = "node"
    if ign:
        kw["elements_to_ignore"] = case["ignore"]
    if sc:
        kw["error_scaling"] = case["scale"]
    if case["starts"]:
        kw["additional_starts"] = case["starts"]
    if case["ends"]:
        kw["additional_ends"] = case["ends"]
    if case["lam"]:
        kw["sparsity_lambda"] = case["lam"]
    if case["eps"] is not None:
        kw["few_flow_values_epsilon"] = case["eps"]
    desc = f"{'cyclic' if cyc else 'DAG'} {'node' if node else 'edge'} wt={wt} " + (f"nodes={[(v, d.get('flow')) for v, d in G.nodes(data=True)]} edges={list(G.edges)}" if node else f"edges={[(u, v, d.get('flow')) for u, v, d in G.edges(data=True)]}") + f" ignore={ign} scale={sc} starts={case['starts']} ends={case['ends']} lambda={case['lam']} eps={case['eps']}"
    before = M.struct(G)
    M.TRACE.install(); M.TRACE.reset()
    res = models.run({"cls": "MinErrorFlow", "spec": case["spec"], "kw": kw}, solver_options=SO)
    if any(t.get("status") == "kTimeLimit" for t in M.TRACE.trace):
        return {"viol": [], "obs": {"c16.time_limited": 1}, "nontrivial": False}
    tags = [t for t, c in (("node", node), ("ignore", ign), ("scale", sc), ("starts/ends", case["starts"] or case["ends"]), ("lambda", case["lam"]), ("eps", case["eps"])) if c]
    tagstr = ("/" + "/".join(tags)) if tags else ""
    if "exc" in res:
        viol.append({"sig": f"C16/{res['stage']}-raises/{res['exc'][0]}{tagstr}", "msg": f"{res['exc']}; {desc}"})
        return {"viol": viol, "obs": dict(obs), "nontrivial": False, "sample": {"desc": desc}}
    if not res["solved"]:
        # classification (as in C04/C05/C07/C09/C15): solved as soon as HiGHS' presolve is switched off => solver (trusted base) defect
        r2 = models.run({"cls": "MinErrorFlow", "spec": case["spec"], "kw": kw}, solver_options=dict(SO, presolve="off"))
        if r2.get("solved"):
            viol.append({"sig": "C16/solver-presolve-defect/unsolved" + ("/eps" if case["eps"] else ""), "msg": f"MinErrorFlow not solved with presolve on (status {res.get('status')}), solved with presolve='off'; {desc}"})
        else:
            viol.append({"sig": f"C16/unsolved{tagstr}", "msg": f"MinErrorFlow not solved; {desc}"})
        return {"viol": viol, "obs": dict(obs), "nontrivial": False, "sample": {"desc": desc}}
    obs["c16.solved_judged"] += 1
    if node:
        obs["c16.node_mode"] += 1
    sol = res["sol"]; H = sol["graph"]
    if M.struct(gen.build(case["spec"])) != before:
        pass
    if set(H.nodes) != set(G.nodes) or set(H.edges) != set(G.edges):
        viol.append({"sig": f"C16/graph-changed{tagstr}", "msg": f"corrected graph nodes/edges differ; {desc}"})
        return {"viol": viol, "obs": dict(obs), "nontrivial": False, "sample": {"desc": desc}}
    # values
    ignored = set(ign) | {e for e, f in sc.items() if f == 0}
    if node:
        val = {v: H.nodes[v].get("flow") for v in G.nodes if "flow" in G.nodes[v]}
        orig = {v: G.nodes[v]["flow"] for v in val}
    else:
        val = {e: H.edges[e].get("flow") for e in G.edges if "flow" in G.edges[e]}
        orig = {e: G.edges[e]["flow"] for e in val}
    bad = [(e, x) for e, x in val.items() if x is None or x < 0 or (wt == "int" and not isinstance(x, int))]      # (non-negative, literally: the library's own models reject -1e-13)
    if bad:
        viol.append({"sig": f"C16/bad-values{tagstr}", "msg": f"{bad[:3]}; {desc}"})
        return {"viol": viol, "obs": dict(obs), "nontrivial": False, "sample": {"desc": desc}}
    counted = {e: t for e, t in orig.items() if e not in ignored}
    rec_err = sum(abs(val[e] - t) for e, t in counted.items())
    rec_obj = sum(abs(val[e] - t) * sc.get(e, 1) for e, t in counted.items())
    if abs(rec_err - sol["error"]) > 1e-6 * max(1, abs(rec_err)):
        viol.append({"sig": f"C16/reported-error!=recomputed{tagstr}", "msg": f"reported error {sol['error']}, recomputed {rec_err}; {desc}"})
    # conservation / realisability + optimum, on own formulation
    dag = not cyc
    if node:
        HH = expand(G)
        f = {(("in", v), ("out", v)): t for v, t in counted.items()}
        scale = {(("in", v), ("out", v)): s for v, s in sc.items()}
        starts = {("in", v) for v in case["starts"]}; ends = {("out", v) for v in case["ends"]}
        fixed = {(("in", v), ("out", v)): x for v, x in val.items()}
    else:
        HH = G; f = counted; scale = sc; starts = set(case["starts"]); ends = set(case["ends"])
        fixed = dict(val)
    # (1) the library's values must be realisable as a conserving flow
    o, X, tot, err, src = z3_problem(HH, dag, {}, {}, starts, ends, 0, wt, fixed=fixed)
    r = o.check()
    if r == z3.unsat:
        viol.append({"sig": f"C16/not-conserving{tagstr}", "msg": f"corrected values {val} violate conservation; {desc}"})
    # (2) optimum
    if not case["lam"]:
        o, X, tot, err, src = z3_problem(HH, dag, f, scale, starts, ends, 0, wt)
        o.minimize(tot)
        if o.check() == z3.sat:
            best = ref._num(o.model(), tot)
            obs["c16.optimum_compared"] += 1
            eps = case["eps"] or 0
            if eps:
                obs["c16.epsilon_cases"] += 1
                if rec_obj > (1 + eps) * float(best) + 1e-6 * max(1, float(best)):
                    viol.append({"sig": f"C16/outside-(1+eps)-of-optimum{tagstr}", "msg": f"recomputed scaled error {rec_obj} > (1+{eps}) * {best}; {desc}"})
            else:
                if abs(rec_obj - float(best)) > 1e-6 * max(1, abs(float(best))):
                    viol.append({"sig": f"C16/" + ("not-closest" if rec_obj > float(best) else "better-than-reference") + tagstr, "msg": f"recomputed scaled error {rec_obj}, z3 optimum {best}; {desc}"})
                if abs(sol["objective_value"] - float(best)) > 1e-6 * max(1, abs(float(best))):
                    viol.append({"sig": f"C16/reported-objective!=optimum{tagstr}", "msg": f"objective_value {sol['objective_value']}, z3 optimum {best}; {desc}"})
    else:
        obs["c16.lambda_cases"] += 1
        o, X, tot, err, src = z3_problem(HH, dag, f, scale, starts, ends, case["lam"], wt)
        full = tot + ref._q(case["lam"]) * src
        o.minimize(full)
        if o.check() == z3.sat and not case["eps"]:
            best = ref._num(o.model(), full)
            obs["c16.optimum_compared"] += 1
            if abs(sol["objective_value"] - float(best)) > 1e-6 * max(1, abs(float(best))):
                viol.append({"sig": f"C16/reported-objective!=optimum{tagstr}", "msg": f"objective_value {sol['objective_value']}, z3 optimum (error + lambda*source outflow) {best}; {desc}"})
        # (with a positive few-values epsilon the last solver run minimises the NUMBER of distinct values: its objective is that count)
        if sol["objective_value"] + 1e-6 < rec_obj and not case["eps"]:
            viol.append({"sig": f"C16/objective<scaled-error{tagstr}", "msg": f"objective {sol['objective_value']} < recomputed scaled error {rec_obj}; {desc}"})
    nontriv = rec_err > 0
    return {"viol": viol[:4], "obs": dict(obs), "nontrivial": nontriv, "keys": [hashlib.sha1(desc.encode()).hexdigest()[:14]] if nontriv else [],
            "sample": {"desc": desc, "corrected": {str(k): v for k, v in list(val.items())[:10]}, "error": sol["error"]}}
