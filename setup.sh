#!/bin/bash
# Idempotent, offline: installs the harness's third-party deps beside /venv's interpreter.
set -e
cd "$(dirname "$0")"
DEPS="$PWD/.deps"
if [ -f "$DEPS/.ok" ] && /venv/bin/python -c "import sys; sys.path.insert(0,'$DEPS'); import z3, jsonschema, icontract" 2>/dev/null; then
  exit 0
fi
rm -rf "$DEPS"
mkdir -p "$DEPS"
PIP_NO_INDEX=1 /venv/bin/pip install --quiet --no-index --find-links /opt/veriftools/wheels --target "$DEPS" z3-solver icontract jsonschema >/dev/null 2>"$DEPS/.pip.log" || { cat "$DEPS/.pip.log"; exit 1; }
/venv/bin/python -c "import sys; sys.path.insert(0,'$DEPS'); import z3, jsonschema, icontract; print('deps ok: z3', z3.get_version_string())"
touch "$DEPS/.ok"
