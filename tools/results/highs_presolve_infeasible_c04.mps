NAME        
ROWS
 N  NoObj   
 E  17a_i=0 
 E  17a_i=1 
 E  17b_v=a_i=0
 E  17b_v=b_i=0
 E  17b_v=c_i=0
 E  17b_v=d_i=0
 E  17b_v=e_i=0
 E  17b_v=f_i=0
 E  17b_v=a_i=1
 E  17b_v=b_i=1
 E  17b_v=c_i=1
 E  17b_v=d_i=1
 E  17b_v=e_i=1
 E  17b_v=f_i=1
 L  21_edge_selected_u=a_v=c_i=0
 L  21_edge_selected_u=b_v=sink_139750915787664_i=0
 L  21_edge_selected_u=c_v=d_i=0
 L  21_edge_selected_u=c_v=e_i=0
 L  21_edge_selected_u=d_v=e_i=0
 L  21_edge_selected_u=d_v=c_i=0
 L  21_edge_selected_u=e_v=f_i=0
 L  21_edge_selected_u=e_v=d_i=0
 L  21_edge_selected_u=f_v=b_i=0
 L  21_edge_selected_u=source_139750915787664_v=a_i=0
 L  21_edge_selected_u=a_v=c_i=1
 L  21_edge_selected_u=b_v=sink_139750915787664_i=1
 L  21_edge_selected_u=c_v=d_i=1
 L  21_edge_selected_u=c_v=e_i=1
 L  21_edge_selected_u=d_v=e_i=1
 L  21_edge_selected_u=d_v=c_i=1
 L  21_edge_selected_u=e_v=f_i=1
 L  21_edge_selected_u=e_v=d_i=1
 L  21_edge_selected_u=f_v=b_i=1
 L  21_edge_selected_u=source_139750915787664_v=a_i=1
 L  22a_vertex_selected_v=a_i=0
 L  22b_vertex_selected_v=a_i=0
 L  22a_vertex_selected_v=b_i=0
 L  22b_vertex_selected_v=b_i=0
 L  22a_vertex_selected_v=c_i=0
 L  22b_vertex_selected_v=c_i=0
 L  22a_vertex_selected_v=d_i=0
 L  22b_vertex_selected_v=d_i=0
 L  22a_vertex_selected_v=e_i=0
 L  22b_vertex_selected_v=e_i=0
 L  22a_vertex_selected_v=f_i=0
 L  22b_vertex_selected_v=f_i=0
 L  22a_vertex_selected_v=sink_139750915787664_i=0
 L  22b_vertex_selected_v=sink_139750915787664_i=0
 L  22a_vertex_selected_v=a_i=1
 L  22b_vertex_selected_v=a_i=1
 L  22a_vertex_selected_v=b_i=1
 L  22b_vertex_selected_v=b_i=1
 L  22a_vertex_selected_v=c_i=1
 L  22b_vertex_selected_v=c_i=1
 L  22a_vertex_selected_v=d_i=1
 L  22b_vertex_selected_v=d_i=1
 L  22a_vertex_selected_v=e_i=1
 L  22b_vertex_selected_v=e_i=1
 L  22a_vertex_selected_v=f_i=1
 L  22b_vertex_selected_v=f_i=1
 L  22a_vertex_selected_v=sink_139750915787664_i=1
 L  22b_vertex_selected_v=sink_139750915787664_i=1
 E  18a_i=0 
 E  18a_i=1 
 L  19c_distance_order_u=a_v=c_i=0
 L  19c_distance_order_u=b_v=sink_139750915787664_i=0
 L  19c_distance_order_u=c_v=d_i=0
 L  19c_distance_order_u=c_v=e_i=0
 L  19c_distance_order_u=d_v=e_i=0
 L  19c_distance_order_u=d_v=c_i=0
 L  19c_distance_order_u=e_v=f_i=0
 L  19c_distance_order_u=e_v=d_i=0
 L  19c_distance_order_u=f_v=b_i=0
 L  19c_distance_order_u=source_139750915787664_v=a_i=0
 L  19c_distance_order_u=a_v=c_i=1
 L  19c_distance_order_u=b_v=sink_139750915787664_i=1
 L  19c_distance_order_u=c_v=d_i=1
 L  19c_distance_order_u=c_v=e_i=1
 L  19c_distance_order_u=d_v=e_i=1
 L  19c_distance_order_u=d_v=c_i=1
 L  19c_distance_order_u=e_v=f_i=1
 L  19c_distance_order_u=e_v=d_i=1
 L  19c_distance_order_u=f_v=b_i=1
 L  19c_distance_order_u=source_139750915787664_v=a_i=1
 E  safe_list_u=source_139750915787664_v=a_i=0_eq1
 E  safe_list_u=a_v=c_i=0_eq1
 G  safe_list_u=d_v=e_i=0_geq1
 E  safe_list_u=e_v=f_i=0_eq1
 E  safe_list_u=f_v=b_i=0_eq1
 E  safe_list_u=b_v=sink_139750915787664_i=0_eq1
 E  i=0_u=a_v=c_10b
 E  i=1_u=a_v=c_10_int_eq
 L  product_0_i=1_u=a_v=c_10_a
 L  product_0_i=1_u=a_v=c_10_b
 G  product_0_i=1_u=a_v=c_10_c
 L  product_0_i=1_u=a_v=c_10_d
 L  product_1_i=1_u=a_v=c_10_a
 L  product_1_i=1_u=a_v=c_10_b
 G  product_1_i=1_u=a_v=c_10_c
 L  product_1_i=1_u=a_v=c_10_d
 L  product_2_i=1_u=a_v=c_10_a
 L  product_2_i=1_u=a_v=c_10_b
 G  product_2_i=1_u=a_v=c_10_c
 L  product_2_i=1_u=a_v=c_10_d
 L  product_3_i=1_u=a_v=c_10_a
 L  product_3_i=1_u=a_v=c_10_b
 G  product_3_i=1_u=a_v=c_10_c
 L  product_3_i=1_u=a_v=c_10_d
 E  i=1_u=a_v=c_10_prod_eq
 E  i=1_u=a_v=c_10d
 E  i=0_u=c_v=d_10_int_eq
 L  product_0_i=0_u=c_v=d_10_a
 L  product_0_i=0_u=c_v=d_10_b
 G  product_0_i=0_u=c_v=d_10_c
 L  product_0_i=0_u=c_v=d_10_d
 L  product_1_i=0_u=c_v=d_10_a
 L  product_1_i=0_u=c_v=d_10_b
 G  product_1_i=0_u=c_v=d_10_c
 L  product_1_i=0_u=c_v=d_10_d
 L  product_2_i=0_u=c_v=d_10_a
 L  product_2_i=0_u=c_v=d_10_b
 G  product_2_i=0_u=c_v=d_10_c
 L  product_2_i=0_u=c_v=d_10_d
 L  product_3_i=0_u=c_v=d_10_a
 L  product_3_i=0_u=c_v=d_10_b
 G  product_3_i=0_u=c_v=d_10_c
 L  product_3_i=0_u=c_v=d_10_d
 E  i=0_u=c_v=d_10_prod_eq
 E  i=1_u=c_v=d_10_int_eq
 L  product_0_i=1_u=c_v=d_10_a
 L  product_0_i=1_u=c_v=d_10_b
 G  product_0_i=1_u=c_v=d_10_c
 L  product_0_i=1_u=c_v=d_10_d
 L  product_1_i=1_u=c_v=d_10_a
 L  product_1_i=1_u=c_v=d_10_b
 G  product_1_i=1_u=c_v=d_10_c
 L  product_1_i=1_u=c_v=d_10_d
 L  product_2_i=1_u=c_v=d_10_a
 L  product_2_i=1_u=c_v=d_10_b
 G  product_2_i=1_u=c_v=d_10_c
 L  product_2_i=1_u=c_v=d_10_d
 L  product_3_i=1_u=c_v=d_10_a
 L  product_3_i=1_u=c_v=d_10_b
 G  product_3_i=1_u=c_v=d_10_c
 L  product_3_i=1_u=c_v=d_10_d
 E  i=1_u=c_v=d_10_prod_eq
 E  i=1_u=c_v=d_10d
 E  i=0_u=c_v=e_10_int_eq
 L  product_0_i=0_u=c_v=e_10_a
 L  product_0_i=0_u=c_v=e_10_b
 G  product_0_i=0_u=c_v=e_10_c
 L  product_0_i=0_u=c_v=e_10_d
 L  product_1_i=0_u=c_v=e_10_a
 L  product_1_i=0_u=c_v=e_10_b
 G  product_1_i=0_u=c_v=e_10_c
 L  product_1_i=0_u=c_v=e_10_d
 L  product_2_i=0_u=c_v=e_10_a
 L  product_2_i=0_u=c_v=e_10_b
 G  product_2_i=0_u=c_v=e_10_c
 L  product_2_i=0_u=c_v=e_10_d
 L  product_3_i=0_u=c_v=e_10_a
 L  product_3_i=0_u=c_v=e_10_b
 G  product_3_i=0_u=c_v=e_10_c
 L  product_3_i=0_u=c_v=e_10_d
 E  i=0_u=c_v=e_10_prod_eq
 E  i=1_u=c_v=e_10_int_eq
 L  product_0_i=1_u=c_v=e_10_a
 L  product_0_i=1_u=c_v=e_10_b
 G  product_0_i=1_u=c_v=e_10_c
 L  product_0_i=1_u=c_v=e_10_d
 L  product_1_i=1_u=c_v=e_10_a
 L  product_1_i=1_u=c_v=e_10_b
 G  product_1_i=1_u=c_v=e_10_c
 L  product_1_i=1_u=c_v=e_10_d
 L  product_2_i=1_u=c_v=e_10_a
 L  product_2_i=1_u=c_v=e_10_b
 G  product_2_i=1_u=c_v=e_10_c
 L  product_2_i=1_u=c_v=e_10_d
 L  product_3_i=1_u=c_v=e_10_a
 L  product_3_i=1_u=c_v=e_10_b
 G  product_3_i=1_u=c_v=e_10_c
 L  product_3_i=1_u=c_v=e_10_d
 E  i=1_u=c_v=e_10_prod_eq
 E  i=1_u=c_v=e_10d
 E  i=0_u=d_v=e_10_int_eq
 L  product_0_i=0_u=d_v=e_10_a
 L  product_0_i=0_u=d_v=e_10_b
 G  product_0_i=0_u=d_v=e_10_c
 L  product_0_i=0_u=d_v=e_10_d
 L  product_1_i=0_u=d_v=e_10_a
 L  product_1_i=0_u=d_v=e_10_b
 G  product_1_i=0_u=d_v=e_10_c
 L  product_1_i=0_u=d_v=e_10_d
 L  product_2_i=0_u=d_v=e_10_a
 L  product_2_i=0_u=d_v=e_10_b
 G  product_2_i=0_u=d_v=e_10_c
 L  product_2_i=0_u=d_v=e_10_d
 L  product_3_i=0_u=d_v=e_10_a
 L  product_3_i=0_u=d_v=e_10_b
 G  product_3_i=0_u=d_v=e_10_c
 L  product_3_i=0_u=d_v=e_10_d
 E  i=0_u=d_v=e_10_prod_eq
 E  i=1_u=d_v=e_10_int_eq
 L  product_0_i=1_u=d_v=e_10_a
 L  product_0_i=1_u=d_v=e_10_b
 G  product_0_i=1_u=d_v=e_10_c
 L  product_0_i=1_u=d_v=e_10_d
 L  product_1_i=1_u=d_v=e_10_a
 L  product_1_i=1_u=d_v=e_10_b
 G  product_1_i=1_u=d_v=e_10_c
 L  product_1_i=1_u=d_v=e_10_d
 L  product_2_i=1_u=d_v=e_10_a
 L  product_2_i=1_u=d_v=e_10_b
 G  product_2_i=1_u=d_v=e_10_c
 L  product_2_i=1_u=d_v=e_10_d
 L  product_3_i=1_u=d_v=e_10_a
 L  product_3_i=1_u=d_v=e_10_b
 G  product_3_i=1_u=d_v=e_10_c
 L  product_3_i=1_u=d_v=e_10_d
 E  i=1_u=d_v=e_10_prod_eq
 E  i=1_u=d_v=e_10d
 E  i=0_u=d_v=c_10_int_eq
 L  product_0_i=0_u=d_v=c_10_a
 L  product_0_i=0_u=d_v=c_10_b
 G  product_0_i=0_u=d_v=c_10_c
 L  product_0_i=0_u=d_v=c_10_d
 L  product_1_i=0_u=d_v=c_10_a
 L  product_1_i=0_u=d_v=c_10_b
 G  product_1_i=0_u=d_v=c_10_c
 L  product_1_i=0_u=d_v=c_10_d
 L  product_2_i=0_u=d_v=c_10_a
 L  product_2_i=0_u=d_v=c_10_b
 G  product_2_i=0_u=d_v=c_10_c
 L  product_2_i=0_u=d_v=c_10_d
 L  product_3_i=0_u=d_v=c_10_a
 L  product_3_i=0_u=d_v=c_10_b
 G  product_3_i=0_u=d_v=c_10_c
 L  product_3_i=0_u=d_v=c_10_d
 E  i=0_u=d_v=c_10_prod_eq
 E  i=1_u=d_v=c_10_int_eq
 L  product_0_i=1_u=d_v=c_10_a
 L  product_0_i=1_u=d_v=c_10_b
 G  product_0_i=1_u=d_v=c_10_c
 L  product_0_i=1_u=d_v=c_10_d
 L  product_1_i=1_u=d_v=c_10_a
 L  product_1_i=1_u=d_v=c_10_b
 G  product_1_i=1_u=d_v=c_10_c
 L  product_1_i=1_u=d_v=c_10_d
 L  product_2_i=1_u=d_v=c_10_a
 L  product_2_i=1_u=d_v=c_10_b
 G  product_2_i=1_u=d_v=c_10_c
 L  product_2_i=1_u=d_v=c_10_d
 L  product_3_i=1_u=d_v=c_10_a
 L  product_3_i=1_u=d_v=c_10_b
 G  product_3_i=1_u=d_v=c_10_c
 L  product_3_i=1_u=d_v=c_10_d
 E  i=1_u=d_v=c_10_prod_eq
 E  i=1_u=d_v=c_10d
 E  i=0_u=e_v=f_10b
 E  i=1_u=e_v=f_10_int_eq
 L  product_0_i=1_u=e_v=f_10_a
 L  product_0_i=1_u=e_v=f_10_b
 G  product_0_i=1_u=e_v=f_10_c
 L  product_0_i=1_u=e_v=f_10_d
 L  product_1_i=1_u=e_v=f_10_a
 L  product_1_i=1_u=e_v=f_10_b
 G  product_1_i=1_u=e_v=f_10_c
 L  product_1_i=1_u=e_v=f_10_d
 L  product_2_i=1_u=e_v=f_10_a
 L  product_2_i=1_u=e_v=f_10_b
 G  product_2_i=1_u=e_v=f_10_c
 L  product_2_i=1_u=e_v=f_10_d
 L  product_3_i=1_u=e_v=f_10_a
 L  product_3_i=1_u=e_v=f_10_b
 G  product_3_i=1_u=e_v=f_10_c
 L  product_3_i=1_u=e_v=f_10_d
 E  i=1_u=e_v=f_10_prod_eq
 E  i=1_u=e_v=f_10d
 E  i=0_u=e_v=d_10_int_eq
 L  product_0_i=0_u=e_v=d_10_a
 L  product_0_i=0_u=e_v=d_10_b
 G  product_0_i=0_u=e_v=d_10_c
 L  product_0_i=0_u=e_v=d_10_d
 L  product_1_i=0_u=e_v=d_10_a
 L  product_1_i=0_u=e_v=d_10_b
 G  product_1_i=0_u=e_v=d_10_c
 L  product_1_i=0_u=e_v=d_10_d
 L  product_2_i=0_u=e_v=d_10_a
 L  product_2_i=0_u=e_v=d_10_b
 G  product_2_i=0_u=e_v=d_10_c
 L  product_2_i=0_u=e_v=d_10_d
 L  product_3_i=0_u=e_v=d_10_a
 L  product_3_i=0_u=e_v=d_10_b
 G  product_3_i=0_u=e_v=d_10_c
 L  product_3_i=0_u=e_v=d_10_d
 E  i=0_u=e_v=d_10_prod_eq
 E  i=1_u=e_v=d_10_int_eq
 L  product_0_i=1_u=e_v=d_10_a
 L  product_0_i=1_u=e_v=d_10_b
 G  product_0_i=1_u=e_v=d_10_c
 L  product_0_i=1_u=e_v=d_10_d
 L  product_1_i=1_u=e_v=d_10_a
 L  product_1_i=1_u=e_v=d_10_b
 G  product_1_i=1_u=e_v=d_10_c
 L  product_1_i=1_u=e_v=d_10_d
 L  product_2_i=1_u=e_v=d_10_a
 L  product_2_i=1_u=e_v=d_10_b
 G  product_2_i=1_u=e_v=d_10_c
 L  product_2_i=1_u=e_v=d_10_d
 L  product_3_i=1_u=e_v=d_10_a
 L  product_3_i=1_u=e_v=d_10_b
 G  product_3_i=1_u=e_v=d_10_c
 L  product_3_i=1_u=e_v=d_10_d
 E  i=1_u=e_v=d_10_prod_eq
 E  i=1_u=e_v=d_10d
 E  i=0_u=f_v=b_10b
 E  i=1_u=f_v=b_10_int_eq
 L  product_0_i=1_u=f_v=b_10_a
 L  product_0_i=1_u=f_v=b_10_b
 G  product_0_i=1_u=f_v=b_10_c
 L  product_0_i=1_u=f_v=b_10_d
 L  product_1_i=1_u=f_v=b_10_a
 L  product_1_i=1_u=f_v=b_10_b
 G  product_1_i=1_u=f_v=b_10_c
 L  product_1_i=1_u=f_v=b_10_d
 L  product_2_i=1_u=f_v=b_10_a
 L  product_2_i=1_u=f_v=b_10_b
 G  product_2_i=1_u=f_v=b_10_c
 L  product_2_i=1_u=f_v=b_10_d
 L  product_3_i=1_u=f_v=b_10_a
 L  product_3_i=1_u=f_v=b_10_b
 G  product_3_i=1_u=f_v=b_10_c
 L  product_3_i=1_u=f_v=b_10_d
 E  i=1_u=f_v=b_10_prod_eq
 E  i=1_u=f_v=b_10d
COLUMNS
    MARK0000  'MARKER'                 'INTORG'
    edge('a','c',0)  17b_v=a_i=0  -1
    edge('a','c',0)  17b_v=c_i=0  1
    edge('a','c',0)  21_edge_selected_u=a_v=c_i=0  -1
    edge('a','c',0)  22a_vertex_selected_v=c_i=0  1
    edge('a','c',0)  safe_list_u=a_v=c_i=0_eq1  1
    edge('b','sink_139750915787664',0)  17b_v=b_i=0  -1
    edge('b','sink_139750915787664',0)  21_edge_selected_u=b_v=sink_139750915787664_i=0  -1
    edge('b','sink_139750915787664',0)  22a_vertex_selected_v=sink_139750915787664_i=0  1
    edge('b','sink_139750915787664',0)  safe_list_u=b_v=sink_139750915787664_i=0_eq1  1
    edge('c','d',0)  17b_v=c_i=0  -1
    edge('c','d',0)  17b_v=d_i=0  1
    edge('c','d',0)  21_edge_selected_u=c_v=d_i=0  -1
    edge('c','d',0)  22a_vertex_selected_v=d_i=0  1
    edge('c','d',0)  i=0_u=c_v=d_10_int_eq  -1
    edge('c','e',0)  17b_v=c_i=0  -1
    edge('c','e',0)  17b_v=e_i=0  1
    edge('c','e',0)  21_edge_selected_u=c_v=e_i=0  -1
    edge('c','e',0)  22a_vertex_selected_v=e_i=0  1
    edge('c','e',0)  i=0_u=c_v=e_10_int_eq  -1
    edge('d','e',0)  17b_v=d_i=0  -1
    edge('d','e',0)  17b_v=e_i=0  1
    edge('d','e',0)  21_edge_selected_u=d_v=e_i=0  -1
    edge('d','e',0)  22a_vertex_selected_v=e_i=0  1
    edge('d','e',0)  safe_list_u=d_v=e_i=0_geq1  1
    edge('d','e',0)  i=0_u=d_v=e_10_int_eq  -1
    edge('d','c',0)  17b_v=c_i=0  1
    edge('d','c',0)  17b_v=d_i=0  -1
    edge('d','c',0)  21_edge_selected_u=d_v=c_i=0  -1
    edge('d','c',0)  22a_vertex_selected_v=c_i=0  1
    edge('d','c',0)  i=0_u=d_v=c_10_int_eq  -1
    edge('e','f',0)  17b_v=e_i=0  -1
    edge('e','f',0)  17b_v=f_i=0  1
    edge('e','f',0)  21_edge_selected_u=e_v=f_i=0  -1
    edge('e','f',0)  22a_vertex_selected_v=f_i=0  1
    edge('e','f',0)  safe_list_u=e_v=f_i=0_eq1  1
    edge('e','d',0)  17b_v=d_i=0  1
    edge('e','d',0)  17b_v=e_i=0  -1
    edge('e','d',0)  21_edge_selected_u=e_v=d_i=0  -1
    edge('e','d',0)  22a_vertex_selected_v=d_i=0  1
    edge('e','d',0)  i=0_u=e_v=d_10_int_eq  -1
    edge('f','b',0)  17b_v=b_i=0  1
    edge('f','b',0)  17b_v=f_i=0  -1
    edge('f','b',0)  21_edge_selected_u=f_v=b_i=0  -1
    edge('f','b',0)  22a_vertex_selected_v=b_i=0  1
    edge('f','b',0)  safe_list_u=f_v=b_i=0_eq1  1
    edge('source_139750915787664','a',0)  17a_i=0   1
    edge('source_139750915787664','a',0)  17b_v=a_i=0  1
    edge('source_139750915787664','a',0)  21_edge_selected_u=source_139750915787664_v=a_i=0  -1
    edge('source_139750915787664','a',0)  22a_vertex_selected_v=a_i=0  1
    edge('source_139750915787664','a',0)  safe_list_u=source_139750915787664_v=a_i=0_eq1  1
    edge('a','c',1)  17b_v=a_i=1  -1
    edge('a','c',1)  17b_v=c_i=1  1
    edge('a','c',1)  21_edge_selected_u=a_v=c_i=1  -1
    edge('a','c',1)  22a_vertex_selected_v=c_i=1  1
    edge('a','c',1)  i=1_u=a_v=c_10_int_eq  -1
    edge('b','sink_139750915787664',1)  17b_v=b_i=1  -1
    edge('b','sink_139750915787664',1)  21_edge_selected_u=b_v=sink_139750915787664_i=1  -1
    edge('b','sink_139750915787664',1)  22a_vertex_selected_v=sink_139750915787664_i=1  1
    edge('c','d',1)  17b_v=c_i=1  -1
    edge('c','d',1)  17b_v=d_i=1  1
    edge('c','d',1)  21_edge_selected_u=c_v=d_i=1  -1
    edge('c','d',1)  22a_vertex_selected_v=d_i=1  1
    edge('c','d',1)  i=1_u=c_v=d_10_int_eq  -1
    edge('c','e',1)  17b_v=c_i=1  -1
    edge('c','e',1)  17b_v=e_i=1  1
    edge('c','e',1)  21_edge_selected_u=c_v=e_i=1  -1
    edge('c','e',1)  22a_vertex_selected_v=e_i=1  1
    edge('c','e',1)  i=1_u=c_v=e_10_int_eq  -1
    edge('d','e',1)  17b_v=d_i=1  -1
    edge('d','e',1)  17b_v=e_i=1  1
    edge('d','e',1)  21_edge_selected_u=d_v=e_i=1  -1
    edge('d','e',1)  22a_vertex_selected_v=e_i=1  1
    edge('d','e',1)  i=1_u=d_v=e_10_int_eq  -1
    edge('d','c',1)  17b_v=c_i=1  1
    edge('d','c',1)  17b_v=d_i=1  -1
    edge('d','c',1)  21_edge_selected_u=d_v=c_i=1  -1
    edge('d','c',1)  22a_vertex_selected_v=c_i=1  1
    edge('d','c',1)  i=1_u=d_v=c_10_int_eq  -1
    edge('e','f',1)  17b_v=e_i=1  -1
    edge('e','f',1)  17b_v=f_i=1  1
    edge('e','f',1)  21_edge_selected_u=e_v=f_i=1  -1
    edge('e','f',1)  22a_vertex_selected_v=f_i=1  1
    edge('e','f',1)  i=1_u=e_v=f_10_int_eq  -1
    edge('e','d',1)  17b_v=d_i=1  1
    edge('e','d',1)  17b_v=e_i=1  -1
    edge('e','d',1)  21_edge_selected_u=e_v=d_i=1  -1
    edge('e','d',1)  22a_vertex_selected_v=d_i=1  1
    edge('e','d',1)  i=1_u=e_v=d_10_int_eq  -1
    edge('f','b',1)  17b_v=b_i=1  1
    edge('f','b',1)  17b_v=f_i=1  -1
    edge('f','b',1)  21_edge_selected_u=f_v=b_i=1  -1
    edge('f','b',1)  22a_vertex_selected_v=b_i=1  1
    edge('f','b',1)  i=1_u=f_v=b_10_int_eq  -1
    edge('source_139750915787664','a',1)  17a_i=1   1
    edge('source_139750915787664','a',1)  17b_v=a_i=1  1
    edge('source_139750915787664','a',1)  21_edge_selected_u=source_139750915787664_v=a_i=1  -1
    edge('source_139750915787664','a',1)  22a_vertex_selected_v=a_i=1  1
    distance('a',0)  19c_distance_order_u=a_v=c_i=0  1
    distance('a',0)  19c_distance_order_u=source_139750915787664_v=a_i=0  -1
    distance('b',0)  19c_distance_order_u=b_v=sink_139750915787664_i=0  1
    distance('b',0)  19c_distance_order_u=f_v=b_i=0  -1
    distance('c',0)  19c_distance_order_u=a_v=c_i=0  -1
    distance('c',0)  19c_distance_order_u=c_v=d_i=0  1
    distance('c',0)  19c_distance_order_u=c_v=e_i=0  1
    distance('c',0)  19c_distance_order_u=d_v=c_i=0  -1
    distance('d',0)  19c_distance_order_u=c_v=d_i=0  -1
    distance('d',0)  19c_distance_order_u=d_v=e_i=0  1
    distance('d',0)  19c_distance_order_u=d_v=c_i=0  1
    distance('d',0)  19c_distance_order_u=e_v=d_i=0  -1
    distance('e',0)  19c_distance_order_u=c_v=e_i=0  -1
    distance('e',0)  19c_distance_order_u=d_v=e_i=0  -1
    distance('e',0)  19c_distance_order_u=e_v=f_i=0  1
    distance('e',0)  19c_distance_order_u=e_v=d_i=0  1
    distance('f',0)  19c_distance_order_u=e_v=f_i=0  -1
    distance('f',0)  19c_distance_order_u=f_v=b_i=0  1
    distance('source_139750915787664',0)  18a_i=0   1
    distance('source_139750915787664',0)  19c_distance_order_u=source_139750915787664_v=a_i=0  1
    distance('sink_139750915787664',0)  19c_distance_order_u=b_v=sink_139750915787664_i=0  -1
    distance('a',1)  19c_distance_order_u=a_v=c_i=1  1
    distance('a',1)  19c_distance_order_u=source_139750915787664_v=a_i=1  -1
    distance('b',1)  19c_distance_order_u=b_v=sink_139750915787664_i=1  1
    distance('b',1)  19c_distance_order_u=f_v=b_i=1  -1
    distance('c',1)  19c_distance_order_u=a_v=c_i=1  -1
    distance('c',1)  19c_distance_order_u=c_v=d_i=1  1
    distance('c',1)  19c_distance_order_u=c_v=e_i=1  1
    distance('c',1)  19c_distance_order_u=d_v=c_i=1  -1
    distance('d',1)  19c_distance_order_u=c_v=d_i=1  -1
    distance('d',1)  19c_distance_order_u=d_v=e_i=1  1
    distance('d',1)  19c_distance_order_u=d_v=c_i=1  1
    distance('d',1)  19c_distance_order_u=e_v=d_i=1  -1
    distance('e',1)  19c_distance_order_u=c_v=e_i=1  -1
    distance('e',1)  19c_distance_order_u=d_v=e_i=1  -1
    distance('e',1)  19c_distance_order_u=e_v=f_i=1  1
    distance('e',1)  19c_distance_order_u=e_v=d_i=1  1
    distance('f',1)  19c_distance_order_u=e_v=f_i=1  -1
    distance('f',1)  19c_distance_order_u=f_v=b_i=1  1
    distance('source_139750915787664',1)  18a_i=1   1
    distance('source_139750915787664',1)  19c_distance_order_u=source_139750915787664_v=a_i=1  1
    distance('sink_139750915787664',1)  19c_distance_order_u=b_v=sink_139750915787664_i=1  -1
    selected_edge('a','c',0)  21_edge_selected_u=a_v=c_i=0  1
    selected_edge('a','c',0)  22a_vertex_selected_v=c_i=0  -5
    selected_edge('a','c',0)  22b_vertex_selected_v=c_i=0  1
    selected_edge('a','c',0)  19c_distance_order_u=a_v=c_i=0  9
    selected_edge('b','sink_139750915787664',0)  21_edge_selected_u=b_v=sink_139750915787664_i=0  1
    selected_edge('b','sink_139750915787664',0)  22a_vertex_selected_v=sink_139750915787664_i=0  -1
    selected_edge('b','sink_139750915787664',0)  22b_vertex_selected_v=sink_139750915787664_i=0  1
    selected_edge('b','sink_139750915787664',0)  19c_distance_order_u=b_v=sink_139750915787664_i=0  9
    selected_edge('c','d',0)  21_edge_selected_u=c_v=d_i=0  1
    selected_edge('c','d',0)  22a_vertex_selected_v=d_i=0  -7
    selected_edge('c','d',0)  22b_vertex_selected_v=d_i=0  1
    selected_edge('c','d',0)  19c_distance_order_u=c_v=d_i=0  9
    selected_edge('c','e',0)  21_edge_selected_u=c_v=e_i=0  1
    selected_edge('c','e',0)  22a_vertex_selected_v=e_i=0  -9
    selected_edge('c','e',0)  22b_vertex_selected_v=e_i=0  1
    selected_edge('c','e',0)  19c_distance_order_u=c_v=e_i=0  9
    selected_edge('d','e',0)  21_edge_selected_u=d_v=e_i=0  1
    selected_edge('d','e',0)  22a_vertex_selected_v=e_i=0  -9
    selected_edge('d','e',0)  22b_vertex_selected_v=e_i=0  1
    selected_edge('d','e',0)  19c_distance_order_u=d_v=e_i=0  9
    selected_edge('d','c',0)  21_edge_selected_u=d_v=c_i=0  1
    selected_edge('d','c',0)  22a_vertex_selected_v=c_i=0  -5
    selected_edge('d','c',0)  22b_vertex_selected_v=c_i=0  1
    selected_edge('d','c',0)  19c_distance_order_u=d_v=c_i=0  9
    selected_edge('e','f',0)  21_edge_selected_u=e_v=f_i=0  1
    selected_edge('e','f',0)  22a_vertex_selected_v=f_i=0  -1
    selected_edge('e','f',0)  22b_vertex_selected_v=f_i=0  1
    selected_edge('e','f',0)  19c_distance_order_u=e_v=f_i=0  9
    selected_edge('e','d',0)  21_edge_selected_u=e_v=d_i=0  1
    selected_edge('e','d',0)  22a_vertex_selected_v=d_i=0  -7
    selected_edge('e','d',0)  22b_vertex_selected_v=d_i=0  1
    selected_edge('e','d',0)  19c_distance_order_u=e_v=d_i=0  9
    selected_edge('f','b',0)  21_edge_selected_u=f_v=b_i=0  1
    selected_edge('f','b',0)  22a_vertex_selected_v=b_i=0  -1
    selected_edge('f','b',0)  22b_vertex_selected_v=b_i=0  1
    selected_edge('f','b',0)  19c_distance_order_u=f_v=b_i=0  9
    selected_edge('source_139750915787664','a',0)  21_edge_selected_u=source_139750915787664_v=a_i=0  1
    selected_edge('source_139750915787664','a',0)  22a_vertex_selected_v=a_i=0  -1
    selected_edge('source_139750915787664','a',0)  22b_vertex_selected_v=a_i=0  1
    selected_edge('source_139750915787664','a',0)  19c_distance_order_u=source_139750915787664_v=a_i=0  9
    selected_edge('a','c',1)  21_edge_selected_u=a_v=c_i=1  1
    selected_edge('a','c',1)  22a_vertex_selected_v=c_i=1  -5
    selected_edge('a','c',1)  22b_vertex_selected_v=c_i=1  1
    selected_edge('a','c',1)  19c_distance_order_u=a_v=c_i=1  9
    selected_edge('b','sink_139750915787664',1)  21_edge_selected_u=b_v=sink_139750915787664_i=1  1
    selected_edge('b','sink_139750915787664',1)  22a_vertex_selected_v=sink_139750915787664_i=1  -1
    selected_edge('b','sink_139750915787664',1)  22b_vertex_selected_v=sink_139750915787664_i=1  1
    selected_edge('b','sink_139750915787664',1)  19c_distance_order_u=b_v=sink_139750915787664_i=1  9
    selected_edge('c','d',1)  21_edge_selected_u=c_v=d_i=1  1
    selected_edge('c','d',1)  22a_vertex_selected_v=d_i=1  -7
    selected_edge('c','d',1)  22b_vertex_selected_v=d_i=1  1
    selected_edge('c','d',1)  19c_distance_order_u=c_v=d_i=1  9
    selected_edge('c','e',1)  21_edge_selected_u=c_v=e_i=1  1
    selected_edge('c','e',1)  22a_vertex_selected_v=e_i=1  -9
    selected_edge('c','e',1)  22b_vertex_selected_v=e_i=1  1
    selected_edge('c','e',1)  19c_distance_order_u=c_v=e_i=1  9
    selected_edge('d','e',1)  21_edge_selected_u=d_v=e_i=1  1
    selected_edge('d','e',1)  22a_vertex_selected_v=e_i=1  -9
    selected_edge('d','e',1)  22b_vertex_selected_v=e_i=1  1
    selected_edge('d','e',1)  19c_distance_order_u=d_v=e_i=1  9
    selected_edge('d','c',1)  21_edge_selected_u=d_v=c_i=1  1
    selected_edge('d','c',1)  22a_vertex_selected_v=c_i=1  -5
    selected_edge('d','c',1)  22b_vertex_selected_v=c_i=1  1
    selected_edge('d','c',1)  19c_distance_order_u=d_v=c_i=1  9
    selected_edge('e','f',1)  21_edge_selected_u=e_v=f_i=1  1
    selected_edge('e','f',1)  22a_vertex_selected_v=f_i=1  -1
    selected_edge('e','f',1)  22b_vertex_selected_v=f_i=1  1
    selected_edge('e','f',1)  19c_distance_order_u=e_v=f_i=1  9
    selected_edge('e','d',1)  21_edge_selected_u=e_v=d_i=1  1
    selected_edge('e','d',1)  22a_vertex_selected_v=d_i=1  -7
    selected_edge('e','d',1)  22b_vertex_selected_v=d_i=1  1
    selected_edge('e','d',1)  19c_distance_order_u=e_v=d_i=1  9
    selected_edge('f','b',1)  21_edge_selected_u=f_v=b_i=1  1
    selected_edge('f','b',1)  22a_vertex_selected_v=b_i=1  -1
    selected_edge('f','b',1)  22b_vertex_selected_v=b_i=1  1
    selected_edge('f','b',1)  19c_distance_order_u=f_v=b_i=1  9
    selected_edge('source_139750915787664','a',1)  21_edge_selected_u=source_139750915787664_v=a_i=1  1
    selected_edge('source_139750915787664','a',1)  22a_vertex_selected_v=a_i=1  -1
    selected_edge('source_139750915787664','a',1)  22b_vertex_selected_v=a_i=1  1
    selected_edge('source_139750915787664','a',1)  19c_distance_order_u=source_139750915787664_v=a_i=1  9
    pi('a','c',0)  i=0_u=a_v=c_10b  1
    pi('a','c',0)  i=1_u=a_v=c_10d  1
    pi('b','sink_139750915787664',0)  NoObj     0
    pi('c','d',0)  i=0_u=c_v=d_10_prod_eq  -1
    pi('c','d',0)  i=1_u=c_v=d_10d  1
    pi('c','e',0)  i=0_u=c_v=e_10_prod_eq  -1
    pi('c','e',0)  i=1_u=c_v=e_10d  1
    pi('d','e',0)  i=0_u=d_v=e_10_prod_eq  -1
    pi('d','e',0)  i=1_u=d_v=e_10d  1
    pi('d','c',0)  i=0_u=d_v=c_10_prod_eq  -1
    pi('d','c',0)  i=1_u=d_v=c_10d  1
    pi('e','f',0)  i=0_u=e_v=f_10b  1
    pi('e','f',0)  i=1_u=e_v=f_10d  1
    pi('e','d',0)  i=0_u=e_v=d_10_prod_eq  -1
    pi('e','d',0)  i=1_u=e_v=d_10d  1
    pi('f','b',0)  i=0_u=f_v=b_10b  1
    pi('f','b',0)  i=1_u=f_v=b_10d  1
    pi('source_139750915787664','a',0)  NoObj     0
    pi('a','c',1)  i=1_u=a_v=c_10_prod_eq  -1
    pi('a','c',1)  i=1_u=a_v=c_10d  1
    pi('b','sink_139750915787664',1)  NoObj     0
    pi('c','d',1)  i=1_u=c_v=d_10_prod_eq  -1
    pi('c','d',1)  i=1_u=c_v=d_10d  1
    pi('c','e',1)  i=1_u=c_v=e_10_prod_eq  -1
    pi('c','e',1)  i=1_u=c_v=e_10d  1
    pi('d','e',1)  i=1_u=d_v=e_10_prod_eq  -1
    pi('d','e',1)  i=1_u=d_v=e_10d  1
    pi('d','c',1)  i=1_u=d_v=c_10_prod_eq  -1
    pi('d','c',1)  i=1_u=d_v=c_10d  1
    pi('e','f',1)  i=1_u=e_v=f_10_prod_eq  -1
    pi('e','f',1)  i=1_u=e_v=f_10d  1
    pi('e','d',1)  i=1_u=e_v=d_10_prod_eq  -1
    pi('e','d',1)  i=1_u=e_v=d_10d  1
    pi('f','b',1)  i=1_u=f_v=b_10_prod_eq  -1
    pi('f','b',1)  i=1_u=f_v=b_10d  1
    pi('source_139750915787664','a',1)  NoObj     0
    weights0  i=0_u=a_v=c_10b  -1
    weights0  product_0_i=0_u=c_v=d_10_c  1
    weights0  product_0_i=0_u=c_v=d_10_d  1
    weights0  product_1_i=0_u=c_v=d_10_c  1
    weights0  product_1_i=0_u=c_v=d_10_d  1
    weights0  product_2_i=0_u=c_v=d_10_c  1
    weights0  product_2_i=0_u=c_v=d_10_d  1
    weights0  product_3_i=0_u=c_v=d_10_c  1
    weights0  product_3_i=0_u=c_v=d_10_d  1
    weights0  product_0_i=0_u=c_v=e_10_c  1
    weights0  product_0_i=0_u=c_v=e_10_d  1
    weights0  product_1_i=0_u=c_v=e_10_c  1
    weights0  product_1_i=0_u=c_v=e_10_d  1
    weights0  product_2_i=0_u=c_v=e_10_c  1
    weights0  product_2_i=0_u=c_v=e_10_d  1
    weights0  product_3_i=0_u=c_v=e_10_c  1
    weights0  product_3_i=0_u=c_v=e_10_d  1
    weights0  product_0_i=0_u=d_v=e_10_c  1
    weights0  product_0_i=0_u=d_v=e_10_d  1
    weights0  product_1_i=0_u=d_v=e_10_c  1
    weights0  product_1_i=0_u=d_v=e_10_d  1
    weights0  product_2_i=0_u=d_v=e_10_c  1
    weights0  product_2_i=0_u=d_v=e_10_d  1
    weights0  product_3_i=0_u=d_v=e_10_c  1
    weights0  product_3_i=0_u=d_v=e_10_d  1
    weights0  product_0_i=0_u=d_v=c_10_c  1
    weights0  product_0_i=0_u=d_v=c_10_d  1
    weights0  product_1_i=0_u=d_v=c_10_c  1
    weights0  product_1_i=0_u=d_v=c_10_d  1
    weights0  product_2_i=0_u=d_v=c_10_c  1
    weights0  product_2_i=0_u=d_v=c_10_d  1
    weights0  product_3_i=0_u=d_v=c_10_c  1
    weights0  product_3_i=0_u=d_v=c_10_d  1
    weights0  i=0_u=e_v=f_10b  -1
    weights0  product_0_i=0_u=e_v=d_10_c  1
    weights0  product_0_i=0_u=e_v=d_10_d  1
    weights0  product_1_i=0_u=e_v=d_10_c  1
    weights0  product_1_i=0_u=e_v=d_10_d  1
    weights0  product_2_i=0_u=e_v=d_10_c  1
    weights0  product_2_i=0_u=e_v=d_10_d  1
    weights0  product_3_i=0_u=e_v=d_10_c  1
    weights0  product_3_i=0_u=e_v=d_10_d  1
    weights0  i=0_u=f_v=b_10b  -1
    weights1  product_0_i=1_u=a_v=c_10_c  1
    weights1  product_0_i=1_u=a_v=c_10_d  1
    weights1  product_1_i=1_u=a_v=c_10_c  1
    weights1  product_1_i=1_u=a_v=c_10_d  1
    weights1  product_2_i=1_u=a_v=c_10_c  1
    weights1  product_2_i=1_u=a_v=c_10_d  1
    weights1  product_3_i=1_u=a_v=c_10_c  1
    weights1  product_3_i=1_u=a_v=c_10_d  1
    weights1  product_0_i=1_u=c_v=d_10_c  1
    weights1  product_0_i=1_u=c_v=d_10_d  1
    weights1  product_1_i=1_u=c_v=d_10_c  1
    weights1  product_1_i=1_u=c_v=d_10_d  1
    weights1  product_2_i=1_u=c_v=d_10_c  1
    weights1  product_2_i=1_u=c_v=d_10_d  1
    weights1  product_3_i=1_u=c_v=d_10_c  1
    weights1  product_3_i=1_u=c_v=d_10_d  1
    weights1  product_0_i=1_u=c_v=e_10_c  1
    weights1  product_0_i=1_u=c_v=e_10_d  1
    weights1  product_1_i=1_u=c_v=e_10_c  1
    weights1  product_1_i=1_u=c_v=e_10_d  1
    weights1  product_2_i=1_u=c_v=e_10_c  1
    weights1  product_2_i=1_u=c_v=e_10_d  1
    weights1  product_3_i=1_u=c_v=e_10_c  1
    weights1  product_3_i=1_u=c_v=e_10_d  1
    weights1  product_0_i=1_u=d_v=e_10_c  1
    weights1  product_0_i=1_u=d_v=e_10_d  1
    weights1  product_1_i=1_u=d_v=e_10_c  1
    weights1  product_1_i=1_u=d_v=e_10_d  1
    weights1  product_2_i=1_u=d_v=e_10_c  1
    weights1  product_2_i=1_u=d_v=e_10_d  1
    weights1  product_3_i=1_u=d_v=e_10_c  1
    weights1  product_3_i=1_u=d_v=e_10_d  1
    weights1  product_0_i=1_u=d_v=c_10_c  1
    weights1  product_0_i=1_u=d_v=c_10_d  1
    weights1  product_1_i=1_u=d_v=c_10_c  1
    weights1  product_1_i=1_u=d_v=c_10_d  1
    weights1  product_2_i=1_u=d_v=c_10_c  1
    weights1  product_2_i=1_u=d_v=c_10_d  1
    weights1  product_3_i=1_u=d_v=c_10_c  1
    weights1  product_3_i=1_u=d_v=c_10_d  1
    weights1  product_0_i=1_u=e_v=f_10_c  1
    weights1  product_0_i=1_u=e_v=f_10_d  1
    weights1  product_1_i=1_u=e_v=f_10_c  1
    weights1  product_1_i=1_u=e_v=f_10_d  1
    weights1  product_2_i=1_u=e_v=f_10_c  1
    weights1  product_2_i=1_u=e_v=f_10_d  1
    weights1  product_3_i=1_u=e_v=f_10_c  1
    weights1  product_3_i=1_u=e_v=f_10_d  1
    weights1  product_0_i=1_u=e_v=d_10_c  1
    weights1  product_0_i=1_u=e_v=d_10_d  1
    weights1  product_1_i=1_u=e_v=d_10_c  1
    weights1  product_1_i=1_u=e_v=d_10_d  1
    weights1  product_2_i=1_u=e_v=d_10_c  1
    weights1  product_2_i=1_u=e_v=d_10_d  1
    weights1  product_3_i=1_u=e_v=d_10_c  1
    weights1  product_3_i=1_u=e_v=d_10_d  1
    weights1  product_0_i=1_u=f_v=b_10_c  1
    weights1  product_0_i=1_u=f_v=b_10_d  1
    weights1  product_1_i=1_u=f_v=b_10_c  1
    weights1  product_1_i=1_u=f_v=b_10_d  1
    weights1  product_2_i=1_u=f_v=b_10_c  1
    weights1  product_2_i=1_u=f_v=b_10_d  1
    weights1  product_3_i=1_u=f_v=b_10_c  1
    weights1  product_3_i=1_u=f_v=b_10_d  1
    binary_i=1_u=a_v=c_100  i=1_u=a_v=c_10_int_eq  1
    binary_i=1_u=a_v=c_100  product_0_i=1_u=a_v=c_10_a  -12
    binary_i=1_u=a_v=c_100  product_0_i=1_u=a_v=c_10_d  12
    binary_i=1_u=a_v=c_101  i=1_u=a_v=c_10_int_eq  2
    binary_i=1_u=a_v=c_101  product_1_i=1_u=a_v=c_10_a  -12
    binary_i=1_u=a_v=c_101  product_1_i=1_u=a_v=c_10_d  12
    binary_i=1_u=a_v=c_102  i=1_u=a_v=c_10_int_eq  4
    binary_i=1_u=a_v=c_102  product_2_i=1_u=a_v=c_10_a  -12
    binary_i=1_u=a_v=c_102  product_2_i=1_u=a_v=c_10_d  12
    binary_i=1_u=a_v=c_103  i=1_u=a_v=c_10_int_eq  8
    binary_i=1_u=a_v=c_103  product_3_i=1_u=a_v=c_10_a  -12
    binary_i=1_u=a_v=c_103  product_3_i=1_u=a_v=c_10_d  12
    MARK0001  'MARKER'                 'INTEND'
    comp_i=1_u=a_v=c_100  product_0_i=1_u=a_v=c_10_a  1
    comp_i=1_u=a_v=c_100  product_0_i=1_u=a_v=c_10_b  -1
    comp_i=1_u=a_v=c_100  product_0_i=1_u=a_v=c_10_c  -1
    comp_i=1_u=a_v=c_100  product_0_i=1_u=a_v=c_10_d  -1
    comp_i=1_u=a_v=c_100  i=1_u=a_v=c_10_prod_eq  1
    comp_i=1_u=a_v=c_101  product_1_i=1_u=a_v=c_10_a  1
    comp_i=1_u=a_v=c_101  product_1_i=1_u=a_v=c_10_b  -1
    comp_i=1_u=a_v=c_101  product_1_i=1_u=a_v=c_10_c  -1
    comp_i=1_u=a_v=c_101  product_1_i=1_u=a_v=c_10_d  -1
    comp_i=1_u=a_v=c_101  i=1_u=a_v=c_10_prod_eq  2
    comp_i=1_u=a_v=c_102  product_2_i=1_u=a_v=c_10_a  1
    comp_i=1_u=a_v=c_102  product_2_i=1_u=a_v=c_10_b  -1
    comp_i=1_u=a_v=c_102  product_2_i=1_u=a_v=c_10_c  -1
    comp_i=1_u=a_v=c_102  product_2_i=1_u=a_v=c_10_d  -1
    comp_i=1_u=a_v=c_102  i=1_u=a_v=c_10_prod_eq  4
    comp_i=1_u=a_v=c_103  product_3_i=1_u=a_v=c_10_a  1
    comp_i=1_u=a_v=c_103  product_3_i=1_u=a_v=c_10_b  -1
    comp_i=1_u=a_v=c_103  product_3_i=1_u=a_v=c_10_c  -1
    comp_i=1_u=a_v=c_103  product_3_i=1_u=a_v=c_10_d  -1
    comp_i=1_u=a_v=c_103  i=1_u=a_v=c_10_prod_eq  8
    MARK0002  'MARKER'                 'INTORG'
    binary_i=0_u=c_v=d_100  i=0_u=c_v=d_10_int_eq  1
    binary_i=0_u=c_v=d_100  product_0_i=0_u=c_v=d_10_a  -12
    binary_i=0_u=c_v=d_100  product_0_i=0_u=c_v=d_10_d  12
    binary_i=0_u=c_v=d_101  i=0_u=c_v=d_10_int_eq  2
    binary_i=0_u=c_v=d_101  product_1_i=0_u=c_v=d_10_a  -12
    binary_i=0_u=c_v=d_101  product_1_i=0_u=c_v=d_10_d  12
    binary_i=0_u=c_v=d_102  i=0_u=c_v=d_10_int_eq  4
    binary_i=0_u=c_v=d_102  product_2_i=0_u=c_v=d_10_a  -12
    binary_i=0_u=c_v=d_102  product_2_i=0_u=c_v=d_10_d  12
    binary_i=0_u=c_v=d_103  i=0_u=c_v=d_10_int_eq  8
    binary_i=0_u=c_v=d_103  product_3_i=0_u=c_v=d_10_a  -12
    binary_i=0_u=c_v=d_103  product_3_i=0_u=c_v=d_10_d  12
    MARK0003  'MARKER'                 'INTEND'
    comp_i=0_u=c_v=d_100  product_0_i=0_u=c_v=d_10_a  1
    comp_i=0_u=c_v=d_100  product_0_i=0_u=c_v=d_10_b  -1
    comp_i=0_u=c_v=d_100  product_0_i=0_u=c_v=d_10_c  -1
    comp_i=0_u=c_v=d_100  product_0_i=0_u=c_v=d_10_d  -1
    comp_i=0_u=c_v=d_100  i=0_u=c_v=d_10_prod_eq  1
    comp_i=0_u=c_v=d_101  product_1_i=0_u=c_v=d_10_a  1
    comp_i=0_u=c_v=d_101  product_1_i=0_u=c_v=d_10_b  -1
    comp_i=0_u=c_v=d_101  product_1_i=0_u=c_v=d_10_c  -1
    comp_i=0_u=c_v=d_101  product_1_i=0_u=c_v=d_10_d  -1
    comp_i=0_u=c_v=d_101  i=0_u=c_v=d_10_prod_eq  2
    comp_i=0_u=c_v=d_102  product_2_i=0_u=c_v=d_10_a  1
    comp_i=0_u=c_v=d_102  product_2_i=0_u=c_v=d_10_b  -1
    comp_i=0_u=c_v=d_102  product_2_i=0_u=c_v=d_10_c  -1
    comp_i=0_u=c_v=d_102  product_2_i=0_u=c_v=d_10_d  -1
    comp_i=0_u=c_v=d_102  i=0_u=c_v=d_10_prod_eq  4
    comp_i=0_u=c_v=d_103  product_3_i=0_u=c_v=d_10_a  1
    comp_i=0_u=c_v=d_103  product_3_i=0_u=c_v=d_10_b  -1
    comp_i=0_u=c_v=d_103  product_3_i=0_u=c_v=d_10_c  -1
    comp_i=0_u=c_v=d_103  product_3_i=0_u=c_v=d_10_d  -1
    comp_i=0_u=c_v=d_103  i=0_u=c_v=d_10_prod_eq  8
    MARK0004  'MARKER'                 'INTORG'
    binary_i=1_u=c_v=d_100  i=1_u=c_v=d_10_int_eq  1
    binary_i=1_u=c_v=d_100  product_0_i=1_u=c_v=d_10_a  -12
    binary_i=1_u=c_v=d_100  product_0_i=1_u=c_v=d_10_d  12
    binary_i=1_u=c_v=d_101  i=1_u=c_v=d_10_int_eq  2
    binary_i=1_u=c_v=d_101  product_1_i=1_u=c_v=d_10_a  -12
    binary_i=1_u=c_v=d_101  product_1_i=1_u=c_v=d_10_d  12
    binary_i=1_u=c_v=d_102  i=1_u=c_v=d_10_int_eq  4
    binary_i=1_u=c_v=d_102  product_2_i=1_u=c_v=d_10_a  -12
    binary_i=1_u=c_v=d_102  product_2_i=1_u=c_v=d_10_d  12
    binary_i=1_u=c_v=d_103  i=1_u=c_v=d_10_int_eq  8
    binary_i=1_u=c_v=d_103  product_3_i=1_u=c_v=d_10_a  -12
    binary_i=1_u=c_v=d_103  product_3_i=1_u=c_v=d_10_d  12
    MARK0005  'MARKER'                 'INTEND'
    comp_i=1_u=c_v=d_100  product_0_i=1_u=c_v=d_10_a  1
    comp_i=1_u=c_v=d_100  product_0_i=1_u=c_v=d_10_b  -1
    comp_i=1_u=c_v=d_100  product_0_i=1_u=c_v=d_10_c  -1
    comp_i=1_u=c_v=d_100  product_0_i=1_u=c_v=d_10_d  -1
    comp_i=1_u=c_v=d_100  i=1_u=c_v=d_10_prod_eq  1
    comp_i=1_u=c_v=d_101  product_1_i=1_u=c_v=d_10_a  1
    comp_i=1_u=c_v=d_101  product_1_i=1_u=c_v=d_10_b  -1
    comp_i=1_u=c_v=d_101  product_1_i=1_u=c_v=d_10_c  -1
    comp_i=1_u=c_v=d_101  product_1_i=1_u=c_v=d_10_d  -1
    comp_i=1_u=c_v=d_101  i=1_u=c_v=d_10_prod_eq  2
    comp_i=1_u=c_v=d_102  product_2_i=1_u=c_v=d_10_a  1
    comp_i=1_u=c_v=d_102  product_2_i=1_u=c_v=d_10_b  -1
    comp_i=1_u=c_v=d_102  product_2_i=1_u=c_v=d_10_c  -1
    comp_i=1_u=c_v=d_102  product_2_i=1_u=c_v=d_10_d  -1
    comp_i=1_u=c_v=d_102  i=1_u=c_v=d_10_prod_eq  4
    comp_i=1_u=c_v=d_103  product_3_i=1_u=c_v=d_10_a  1
    comp_i=1_u=c_v=d_103  product_3_i=1_u=c_v=d_10_b  -1
    comp_i=1_u=c_v=d_103  product_3_i=1_u=c_v=d_10_c  -1
    comp_i=1_u=c_v=d_103  product_3_i=1_u=c_v=d_10_d  -1
    comp_i=1_u=c_v=d_103  i=1_u=c_v=d_10_prod_eq  8
    MARK0006  'MARKER'                 'INTORG'
    binary_i=0_u=c_v=e_100  i=0_u=c_v=e_10_int_eq  1
    binary_i=0_u=c_v=e_100  product_0_i=0_u=c_v=e_10_a  -12
    binary_i=0_u=c_v=e_100  product_0_i=0_u=c_v=e_10_d  12
    binary_i=0_u=c_v=e_101  i=0_u=c_v=e_10_int_eq  2
    binary_i=0_u=c_v=e_101  product_1_i=0_u=c_v=e_10_a  -12
    binary_i=0_u=c_v=e_101  product_1_i=0_u=c_v=e_10_d  12
    binary_i=0_u=c_v=e_102  i=0_u=c_v=e_10_int_eq  4
    binary_i=0_u=c_v=e_102  product_2_i=0_u=c_v=e_10_a  -12
    binary_i=0_u=c_v=e_102  product_2_i=0_u=c_v=e_10_d  12
    binary_i=0_u=c_v=e_103  i=0_u=c_v=e_10_int_eq  8
    binary_i=0_u=c_v=e_103  product_3_i=0_u=c_v=e_10_a  -12
    binary_i=0_u=c_v=e_103  product_3_i=0_u=c_v=e_10_d  12
    MARK0007  'MARKER'                 'INTEND'
    comp_i=0_u=c_v=e_100  product_0_i=0_u=c_v=e_10_a  1
    comp_i=0_u=c_v=e_100  product_0_i=0_u=c_v=e_10_b  -1
    comp_i=0_u=c_v=e_100  product_0_i=0_u=c_v=e_10_c  -1
    comp_i=0_u=c_v=e_100  product_0_i=0_u=c_v=e_10_d  -1
    comp_i=0_u=c_v=e_100  i=0_u=c_v=e_10_prod_eq  1
    comp_i=0_u=c_v=e_101  product_1_i=0_u=c_v=e_10_a  1
    comp_i=0_u=c_v=e_101  product_1_i=0_u=c_v=e_10_b  -1
    comp_i=0_u=c_v=e_101  product_1_i=0_u=c_v=e_10_c  -1
    comp_i=0_u=c_v=e_101  product_1_i=0_u=c_v=e_10_d  -1
    comp_i=0_u=c_v=e_101  i=0_u=c_v=e_10_prod_eq  2
    comp_i=0_u=c_v=e_102  product_2_i=0_u=c_v=e_10_a  1
    comp_i=0_u=c_v=e_102  product_2_i=0_u=c_v=e_10_b  -1
    comp_i=0_u=c_v=e_102  product_2_i=0_u=c_v=e_10_c  -1
    comp_i=0_u=c_v=e_102  product_2_i=0_u=c_v=e_10_d  -1
    comp_i=0_u=c_v=e_102  i=0_u=c_v=e_10_prod_eq  4
    comp_i=0_u=c_v=e_103  product_3_i=0_u=c_v=e_10_a  1
    comp_i=0_u=c_v=e_103  product_3_i=0_u=c_v=e_10_b  -1
    comp_i=0_u=c_v=e_103  product_3_i=0_u=c_v=e_10_c  -1
    comp_i=0_u=c_v=e_103  product_3_i=0_u=c_v=e_10_d  -1
    comp_i=0_u=c_v=e_103  i=0_u=c_v=e_10_prod_eq  8
    MARK0008  'MARKER'                 'INTORG'
    binary_i=1_u=c_v=e_100  i=1_u=c_v=e_10_int_eq  1
    binary_i=1_u=c_v=e_100  product_0_i=1_u=c_v=e_10_a  -12
    binary_i=1_u=c_v=e_100  product_0_i=1_u=c_v=e_10_d  12
    binary_i=1_u=c_v=e_101  i=1_u=c_v=e_10_int_eq  2
    binary_i=1_u=c_v=e_101  product_1_i=1_u=c_v=e_10_a  -12
    binary_i=1_u=c_v=e_101  product_1_i=1_u=c_v=e_10_d  12
    binary_i=1_u=c_v=e_102  i=1_u=c_v=e_10_int_eq  4
    binary_i=1_u=c_v=e_102  product_2_i=1_u=c_v=e_10_a  -12
    binary_i=1_u=c_v=e_102  product_2_i=1_u=c_v=e_10_d  12
    binary_i=1_u=c_v=e_103  i=1_u=c_v=e_10_int_eq  8
    binary_i=1_u=c_v=e_103  product_3_i=1_u=c_v=e_10_a  -12
    binary_i=1_u=c_v=e_103  product_3_i=1_u=c_v=e_10_d  12
    MARK0009  'MARKER'                 'INTEND'
    comp_i=1_u=c_v=e_100  product_0_i=1_u=c_v=e_10_a  1
    comp_i=1_u=c_v=e_100  product_0_i=1_u=c_v=e_10_b  -1
    comp_i=1_u=c_v=e_100  product_0_i=1_u=c_v=e_10_c  -1
    comp_i=1_u=c_v=e_100  product_0_i=1_u=c_v=e_10_d  -1
    comp_i=1_u=c_v=e_100  i=1_u=c_v=e_10_prod_eq  1
    comp_i=1_u=c_v=e_101  product_1_i=1_u=c_v=e_10_a  1
    comp_i=1_u=c_v=e_101  product_1_i=1_u=c_v=e_10_b  -1
    comp_i=1_u=c_v=e_101  product_1_i=1_u=c_v=e_10_c  -1
    comp_i=1_u=c_v=e_101  product_1_i=1_u=c_v=e_10_d  -1
    comp_i=1_u=c_v=e_101  i=1_u=c_v=e_10_prod_eq  2
    comp_i=1_u=c_v=e_102  product_2_i=1_u=c_v=e_10_a  1
    comp_i=1_u=c_v=e_102  product_2_i=1_u=c_v=e_10_b  -1
    comp_i=1_u=c_v=e_102  product_2_i=1_u=c_v=e_10_c  -1
    comp_i=1_u=c_v=e_102  product_2_i=1_u=c_v=e_10_d  -1
    comp_i=1_u=c_v=e_102  i=1_u=c_v=e_10_prod_eq  4
    comp_i=1_u=c_v=e_103  product_3_i=1_u=c_v=e_10_a  1
    comp_i=1_u=c_v=e_103  product_3_i=1_u=c_v=e_10_b  -1
    comp_i=1_u=c_v=e_103  product_3_i=1_u=c_v=e_10_c  -1
    comp_i=1_u=c_v=e_103  product_3_i=1_u=c_v=e_10_d  -1
    comp_i=1_u=c_v=e_103  i=1_u=c_v=e_10_prod_eq  8
    MARK0010  'MARKER'                 'INTORG'
    binary_i=0_u=d_v=e_100  i=0_u=d_v=e_10_int_eq  1
    binary_i=0_u=d_v=e_100  product_0_i=0_u=d_v=e_10_a  -12
    binary_i=0_u=d_v=e_100  product_0_i=0_u=d_v=e_10_d  12
    binary_i=0_u=d_v=e_101  i=0_u=d_v=e_10_int_eq  2
    binary_i=0_u=d_v=e_101  product_1_i=0_u=d_v=e_10_a  -12
    binary_i=0_u=d_v=e_101  product_1_i=0_u=d_v=e_10_d  12
    binary_i=0_u=d_v=e_102  i=0_u=d_v=e_10_int_eq  4
    binary_i=0_u=d_v=e_102  product_2_i=0_u=d_v=e_10_a  -12
    binary_i=0_u=d_v=e_102  product_2_i=0_u=d_v=e_10_d  12
    binary_i=0_u=d_v=e_103  i=0_u=d_v=e_10_int_eq  8
    binary_i=0_u=d_v=e_103  product_3_i=0_u=d_v=e_10_a  -12
    binary_i=0_u=d_v=e_103  product_3_i=0_u=d_v=e_10_d  12
    MARK0011  'MARKER'                 'INTEND'
    comp_i=0_u=d_v=e_100  product_0_i=0_u=d_v=e_10_a  1
    comp_i=0_u=d_v=e_100  product_0_i=0_u=d_v=e_10_b  -1
    comp_i=0_u=d_v=e_100  product_0_i=0_u=d_v=e_10_c  -1
    comp_i=0_u=d_v=e_100  product_0_i=0_u=d_v=e_10_d  -1
    comp_i=0_u=d_v=e_100  i=0_u=d_v=e_10_prod_eq  1
    comp_i=0_u=d_v=e_101  product_1_i=0_u=d_v=e_10_a  1
    comp_i=0_u=d_v=e_101  product_1_i=0_u=d_v=e_10_b  -1
    comp_i=0_u=d_v=e_101  product_1_i=0_u=d_v=e_10_c  -1
    comp_i=0_u=d_v=e_101  product_1_i=0_u=d_v=e_10_d  -1
    comp_i=0_u=d_v=e_101  i=0_u=d_v=e_10_prod_eq  2
    comp_i=0_u=d_v=e_102  product_2_i=0_u=d_v=e_10_a  1
    comp_i=0_u=d_v=e_102  product_2_i=0_u=d_v=e_10_b  -1
    comp_i=0_u=d_v=e_102  product_2_i=0_u=d_v=e_10_c  -1
    comp_i=0_u=d_v=e_102  product_2_i=0_u=d_v=e_10_d  -1
    comp_i=0_u=d_v=e_102  i=0_u=d_v=e_10_prod_eq  4
    comp_i=0_u=d_v=e_103  product_3_i=0_u=d_v=e_10_a  1
    comp_i=0_u=d_v=e_103  product_3_i=0_u=d_v=e_10_b  -1
    comp_i=0_u=d_v=e_103  product_3_i=0_u=d_v=e_10_c  -1
    comp_i=0_u=d_v=e_103  product_3_i=0_u=d_v=e_10_d  -1
    comp_i=0_u=d_v=e_103  i=0_u=d_v=e_10_prod_eq  8
    MARK0012  'MARKER'                 'INTORG'
    binary_i=1_u=d_v=e_100  i=1_u=d_v=e_10_int_eq  1
    binary_i=1_u=d_v=e_100  product_0_i=1_u=d_v=e_10_a  -12
    binary_i=1_u=d_v=e_100  product_0_i=1_u=d_v=e_10_d  12
    binary_i=1_u=d_v=e_101  i=1_u=d_v=e_10_int_eq  2
    binary_i=1_u=d_v=e_101  product_1_i=1_u=d_v=e_10_a  -12
    binary_i=1_u=d_v=e_101  product_1_i=1_u=d_v=e_10_d  12
    binary_i=1_u=d_v=e_102  i=1_u=d_v=e_10_int_eq  4
    binary_i=1_u=d_v=e_102  product_2_i=1_u=d_v=e_10_a  -12
    binary_i=1_u=d_v=e_102  product_2_i=1_u=d_v=e_10_d  12
    binary_i=1_u=d_v=e_103  i=1_u=d_v=e_10_int_eq  8
    binary_i=1_u=d_v=e_103  product_3_i=1_u=d_v=e_10_a  -12
    binary_i=1_u=d_v=e_103  product_3_i=1_u=d_v=e_10_d  12
    MARK0013  'MARKER'                 'INTEND'
    comp_i=1_u=d_v=e_100  product_0_i=1_u=d_v=e_10_a  1
    comp_i=1_u=d_v=e_100  product_0_i=1_u=d_v=e_10_b  -1
    comp_i=1_u=d_v=e_100  product_0_i=1_u=d_v=e_10_c  -1
    comp_i=1_u=d_v=e_100  product_0_i=1_u=d_v=e_10_d  -1
    comp_i=1_u=d_v=e_100  i=1_u=d_v=e_10_prod_eq  1
    comp_i=1_u=d_v=e_101  product_1_i=1_u=d_v=e_10_a  1
    comp_i=1_u=d_v=e_101  product_1_i=1_u=d_v=e_10_b  -1
    comp_i=1_u=d_v=e_101  product_1_i=1_u=d_v=e_10_c  -1
    comp_i=1_u=d_v=e_101  product_1_i=1_u=d_v=e_10_d  -1
    comp_i=1_u=d_v=e_101  i=1_u=d_v=e_10_prod_eq  2
    comp_i=1_u=d_v=e_102  product_2_i=1_u=d_v=e_10_a  1
    comp_i=1_u=d_v=e_102  product_2_i=1_u=d_v=e_10_b  -1
    comp_i=1_u=d_v=e_102  product_2_i=1_u=d_v=e_10_c  -1
    comp_i=1_u=d_v=e_102  product_2_i=1_u=d_v=e_10_d  -1
    comp_i=1_u=d_v=e_102  i=1_u=d_v=e_10_prod_eq  4
    comp_i=1_u=d_v=e_103  product_3_i=1_u=d_v=e_10_a  1
    comp_i=1_u=d_v=e_103  product_3_i=1_u=d_v=e_10_b  -1
    comp_i=1_u=d_v=e_103  product_3_i=1_u=d_v=e_10_c  -1
    comp_i=1_u=d_v=e_103  product_3_i=1_u=d_v=e_10_d  -1
    comp_i=1_u=d_v=e_103  i=1_u=d_v=e_10_prod_eq  8
    MARK0014  'MARKER'                 'INTORG'
    binary_i=0_u=d_v=c_100  i=0_u=d_v=c_10_int_eq  1
    binary_i=0_u=d_v=c_100  product_0_i=0_u=d_v=c_10_a  -12
    binary_i=0_u=d_v=c_100  product_0_i=0_u=d_v=c_10_d  12
    binary_i=0_u=d_v=c_101  i=0_u=d_v=c_10_int_eq  2
    binary_i=0_u=d_v=c_101  product_1_i=0_u=d_v=c_10_a  -12
    binary_i=0_u=d_v=c_101  product_1_i=0_u=d_v=c_10_d  12
    binary_i=0_u=d_v=c_102  i=0_u=d_v=c_10_int_eq  4
    binary_i=0_u=d_v=c_102  product_2_i=0_u=d_v=c_10_a  -12
    binary_i=0_u=d_v=c_102  product_2_i=0_u=d_v=c_10_d  12
    binary_i=0_u=d_v=c_103  i=0_u=d_v=c_10_int_eq  8
    binary_i=0_u=d_v=c_103  product_3_i=0_u=d_v=c_10_a  -12
    binary_i=0_u=d_v=c_103  product_3_i=0_u=d_v=c_10_d  12
    MARK0015  'MARKER'                 'INTEND'
    comp_i=0_u=d_v=c_100  product_0_i=0_u=d_v=c_10_a  1
    comp_i=0_u=d_v=c_100  product_0_i=0_u=d_v=c_10_b  -1
    comp_i=0_u=d_v=c_100  product_0_i=0_u=d_v=c_10_c  -1
    comp_i=0_u=d_v=c_100  product_0_i=0_u=d_v=c_10_d  -1
    comp_i=0_u=d_v=c_100  i=0_u=d_v=c_10_prod_eq  1
    comp_i=0_u=d_v=c_101  product_1_i=0_u=d_v=c_10_a  1
    comp_i=0_u=d_v=c_101  product_1_i=0_u=d_v=c_10_b  -1
    comp_i=0_u=d_v=c_101  product_1_i=0_u=d_v=c_10_c  -1
    comp_i=0_u=d_v=c_101  product_1_i=0_u=d_v=c_10_d  -1
    comp_i=0_u=d_v=c_101  i=0_u=d_v=c_10_prod_eq  2
    comp_i=0_u=d_v=c_102  product_2_i=0_u=d_v=c_10_a  1
    comp_i=0_u=d_v=c_102  product_2_i=0_u=d_v=c_10_b  -1
    comp_i=0_u=d_v=c_102  product_2_i=0_u=d_v=c_10_c  -1
    comp_i=0_u=d_v=c_102  product_2_i=0_u=d_v=c_10_d  -1
    comp_i=0_u=d_v=c_102  i=0_u=d_v=c_10_prod_eq  4
    comp_i=0_u=d_v=c_103  product_3_i=0_u=d_v=c_10_a  1
    comp_i=0_u=d_v=c_103  product_3_i=0_u=d_v=c_10_b  -1
    comp_i=0_u=d_v=c_103  product_3_i=0_u=d_v=c_10_c  -1
    comp_i=0_u=d_v=c_103  product_3_i=0_u=d_v=c_10_d  -1
    comp_i=0_u=d_v=c_103  i=0_u=d_v=c_10_prod_eq  8
    MARK0016  'MARKER'                 'INTORG'
    binary_i=1_u=d_v=c_100  i=1_u=d_v=c_10_int_eq  1
    binary_i=1_u=d_v=c_100  product_0_i=1_u=d_v=c_10_a  -12
    binary_i=1_u=d_v=c_100  product_0_i=1_u=d_v=c_10_d  12
    binary_i=1_u=d_v=c_101  i=1_u=d_v=c_10_int_eq  2
    binary_i=1_u=d_v=c_101  product_1_i=1_u=d_v=c_10_a  -12
    binary_i=1_u=d_v=c_101  product_1_i=1_u=d_v=c_10_d  12
    binary_i=1_u=d_v=c_102  i=1_u=d_v=c_10_int_eq  4
    binary_i=1_u=d_v=c_102  product_2_i=1_u=d_v=c_10_a  -12
    binary_i=1_u=d_v=c_102  product_2_i=1_u=d_v=c_10_d  12
    binary_i=1_u=d_v=c_103  i=1_u=d_v=c_10_int_eq  8
    binary_i=1_u=d_v=c_103  product_3_i=1_u=d_v=c_10_a  -12
    binary_i=1_u=d_v=c_103  product_3_i=1_u=d_v=c_10_d  12
    MARK0017  'MARKER'                 'INTEND'
    comp_i=1_u=d_v=c_100  product_0_i=1_u=d_v=c_10_a  1
    comp_i=1_u=d_v=c_100  product_0_i=1_u=d_v=c_10_b  -1
    comp_i=1_u=d_v=c_100  product_0_i=1_u=d_v=c_10_c  -1
    comp_i=1_u=d_v=c_100  product_0_i=1_u=d_v=c_10_d  -1
    comp_i=1_u=d_v=c_100  i=1_u=d_v=c_10_prod_eq  1
    comp_i=1_u=d_v=c_101  product_1_i=1_u=d_v=c_10_a  1
    comp_i=1_u=d_v=c_101  product_1_i=1_u=d_v=c_10_b  -1
    comp_i=1_u=d_v=c_101  product_1_i=1_u=d_v=c_10_c  -1
    comp_i=1_u=d_v=c_101  product_1_i=1_u=d_v=c_10_d  -1
    comp_i=1_u=d_v=c_101  i=1_u=d_v=c_10_prod_eq  2
    comp_i=1_u=d_v=c_102  product_2_i=1_u=d_v=c_10_a  1
    comp_i=1_u=d_v=c_102  product_2_i=1_u=d_v=c_10_b  -1
    comp_i=1_u=d_v=c_102  product_2_i=1_u=d_v=c_10_c  -1
    comp_i=1_u=d_v=c_102  product_2_i=1_u=d_v=c_10_d  -1
    comp_i=1_u=d_v=c_102  i=1_u=d_v=c_10_prod_eq  4
    comp_i=1_u=d_v=c_103  product_3_i=1_u=d_v=c_10_a  1
    comp_i=1_u=d_v=c_103  product_3_i=1_u=d_v=c_10_b  -1
    comp_i=1_u=d_v=c_103  product_3_i=1_u=d_v=c_10_c  -1
    comp_i=1_u=d_v=c_103  product_3_i=1_u=d_v=c_10_d  -1
    comp_i=1_u=d_v=c_103  i=1_u=d_v=c_10_prod_eq  8
    MARK0018  'MARKER'                 'INTORG'
    binary_i=1_u=e_v=f_100  i=1_u=e_v=f_10_int_eq  1
    binary_i=1_u=e_v=f_100  product_0_i=1_u=e_v=f_10_a  -12
    binary_i=1_u=e_v=f_100  product_0_i=1_u=e_v=f_10_d  12
    binary_i=1_u=e_v=f_101  i=1_u=e_v=f_10_int_eq  2
    binary_i=1_u=e_v=f_101  product_1_i=1_u=e_v=f_10_a  -12
    binary_i=1_u=e_v=f_101  product_1_i=1_u=e_v=f_10_d  12
    binary_i=1_u=e_v=f_102  i=1_u=e_v=f_10_int_eq  4
    binary_i=1_u=e_v=f_102  product_2_i=1_u=e_v=f_10_a  -12
    binary_i=1_u=e_v=f_102  product_2_i=1_u=e_v=f_10_d  12
    binary_i=1_u=e_v=f_103  i=1_u=e_v=f_10_int_eq  8
    binary_i=1_u=e_v=f_103  product_3_i=1_u=e_v=f_10_a  -12
    binary_i=1_u=e_v=f_103  product_3_i=1_u=e_v=f_10_d  12
    MARK0019  'MARKER'                 'INTEND'
    comp_i=1_u=e_v=f_100  product_0_i=1_u=e_v=f_10_a  1
    comp_i=1_u=e_v=f_100  product_0_i=1_u=e_v=f_10_b  -1
    comp_i=1_u=e_v=f_100  product_0_i=1_u=e_v=f_10_c  -1
    comp_i=1_u=e_v=f_100  product_0_i=1_u=e_v=f_10_d  -1
    comp_i=1_u=e_v=f_100  i=1_u=e_v=f_10_prod_eq  1
    comp_i=1_u=e_v=f_101  product_1_i=1_u=e_v=f_10_a  1
    comp_i=1_u=e_v=f_101  product_1_i=1_u=e_v=f_10_b  -1
    comp_i=1_u=e_v=f_101  product_1_i=1_u=e_v=f_10_c  -1
    comp_i=1_u=e_v=f_101  product_1_i=1_u=e_v=f_10_d  -1
    comp_i=1_u=e_v=f_101  i=1_u=e_v=f_10_prod_eq  2
    comp_i=1_u=e_v=f_102  product_2_i=1_u=e_v=f_10_a  1
    comp_i=1_u=e_v=f_102  product_2_i=1_u=e_v=f_10_b  -1
    comp_i=1_u=e_v=f_102  product_2_i=1_u=e_v=f_10_c  -1
    comp_i=1_u=e_v=f_102  product_2_i=1_u=e_v=f_10_d  -1
    comp_i=1_u=e_v=f_102  i=1_u=e_v=f_10_prod_eq  4
    comp_i=1_u=e_v=f_103  product_3_i=1_u=e_v=f_10_a  1
    comp_i=1_u=e_v=f_103  product_3_i=1_u=e_v=f_10_b  -1
    comp_i=1_u=e_v=f_103  product_3_i=1_u=e_v=f_10_c  -1
    comp_i=1_u=e_v=f_103  product_3_i=1_u=e_v=f_10_d  -1
    comp_i=1_u=e_v=f_103  i=1_u=e_v=f_10_prod_eq  8
    MARK0020  'MARKER'                 'INTORG'
    binary_i=0_u=e_v=d_100  i=0_u=e_v=d_10_int_eq  1
    binary_i=0_u=e_v=d_100  product_0_i=0_u=e_v=d_10_a  -12
    binary_i=0_u=e_v=d_100  product_0_i=0_u=e_v=d_10_d  12
    binary_i=0_u=e_v=d_101  i=0_u=e_v=d_10_int_eq  2
    binary_i=0_u=e_v=d_101  product_1_i=0_u=e_v=d_10_a  -12
    binary_i=0_u=e_v=d_101  product_1_i=0_u=e_v=d_10_d  12
    binary_i=0_u=e_v=d_102  i=0_u=e_v=d_10_int_eq  4
    binary_i=0_u=e_v=d_102  product_2_i=0_u=e_v=d_10_a  -12
    binary_i=0_u=e_v=d_102  product_2_i=0_u=e_v=d_10_d  12
    binary_i=0_u=e_v=d_103  i=0_u=e_v=d_10_int_eq  8
    binary_i=0_u=e_v=d_103  product_3_i=0_u=e_v=d_10_a  -12
    binary_i=0_u=e_v=d_103  product_3_i=0_u=e_v=d_10_d  12
    MARK0021  'MARKER'                 'INTEND'
    comp_i=0_u=e_v=d_100  product_0_i=0_u=e_v=d_10_a  1
    comp_i=0_u=e_v=d_100  product_0_i=0_u=e_v=d_10_b  -1
    comp_i=0_u=e_v=d_100  product_0_i=0_u=e_v=d_10_c  -1
    comp_i=0_u=e_v=d_100  product_0_i=0_u=e_v=d_10_d  -1
    comp_i=0_u=e_v=d_100  i=0_u=e_v=d_10_prod_eq  1
    comp_i=0_u=e_v=d_101  product_1_i=0_u=e_v=d_10_a  1
    comp_i=0_u=e_v=d_101  product_1_i=0_u=e_v=d_10_b  -1
    comp_i=0_u=e_v=d_101  product_1_i=0_u=e_v=d_10_c  -1
    comp_i=0_u=e_v=d_101  product_1_i=0_u=e_v=d_10_d  -1
    comp_i=0_u=e_v=d_101  i=0_u=e_v=d_10_prod_eq  2
    comp_i=0_u=e_v=d_102  product_2_i=0_u=e_v=d_10_a  1
    comp_i=0_u=e_v=d_102  product_2_i=0_u=e_v=d_10_b  -1
    comp_i=0_u=e_v=d_102  product_2_i=0_u=e_v=d_10_c  -1
    comp_i=0_u=e_v=d_102  product_2_i=0_u=e_v=d_10_d  -1
    comp_i=0_u=e_v=d_102  i=0_u=e_v=d_10_prod_eq  4
    comp_i=0_u=e_v=d_103  product_3_i=0_u=e_v=d_10_a  1
    comp_i=0_u=e_v=d_103  product_3_i=0_u=e_v=d_10_b  -1
    comp_i=0_u=e_v=d_103  product_3_i=0_u=e_v=d_10_c  -1
    comp_i=0_u=e_v=d_103  product_3_i=0_u=e_v=d_10_d  -1
    comp_i=0_u=e_v=d_103  i=0_u=e_v=d_10_prod_eq  8
    MARK0022  'MARKER'                 'INTORG'
    binary_i=1_u=e_v=d_100  i=1_u=e_v=d_10_int_eq  1
    binary_i=1_u=e_v=d_100  product_0_i=1_u=e_v=d_10_a  -12
    binary_i=1_u=e_v=d_100  product_0_i=1_u=e_v=d_10_d  12
    binary_i=1_u=e_v=d_101  i=1_u=e_v=d_10_int_eq  2
    binary_i=1_u=e_v=d_101  product_1_i=1_u=e_v=d_10_a  -12
    binary_i=1_u=e_v=d_101  product_1_i=1_u=e_v=d_10_d  12
    binary_i=1_u=e_v=d_102  i=1_u=e_v=d_10_int_eq  4
    binary_i=1_u=e_v=d_102  product_2_i=1_u=e_v=d_10_a  -12
    binary_i=1_u=e_v=d_102  product_2_i=1_u=e_v=d_10_d  12
    binary_i=1_u=e_v=d_103  i=1_u=e_v=d_10_int_eq  8
    binary_i=1_u=e_v=d_103  product_3_i=1_u=e_v=d_10_a  -12
    binary_i=1_u=e_v=d_103  product_3_i=1_u=e_v=d_10_d  12
    MARK0023  'MARKER'                 'INTEND'
    comp_i=1_u=e_v=d_100  product_0_i=1_u=e_v=d_10_a  1
    comp_i=1_u=e_v=d_100  product_0_i=1_u=e_v=d_10_b  -1
    comp_i=1_u=e_v=d_100  product_0_i=1_u=e_v=d_10_c  -1
    comp_i=1_u=e_v=d_100  product_0_i=1_u=e_v=d_10_d  -1
    comp_i=1_u=e_v=d_100  i=1_u=e_v=d_10_prod_eq  1
    comp_i=1_u=e_v=d_101  product_1_i=1_u=e_v=d_10_a  1
    comp_i=1_u=e_v=d_101  product_1_i=1_u=e_v=d_10_b  -1
    comp_i=1_u=e_v=d_101  product_1_i=1_u=e_v=d_10_c  -1
    comp_i=1_u=e_v=d_101  product_1_i=1_u=e_v=d_10_d  -1
    comp_i=1_u=e_v=d_101  i=1_u=e_v=d_10_prod_eq  2
    comp_i=1_u=e_v=d_102  product_2_i=1_u=e_v=d_10_a  1
    comp_i=1_u=e_v=d_102  product_2_i=1_u=e_v=d_10_b  -1
    comp_i=1_u=e_v=d_102  product_2_i=1_u=e_v=d_10_c  -1
    comp_i=1_u=e_v=d_102  product_2_i=1_u=e_v=d_10_d  -1
    comp_i=1_u=e_v=d_102  i=1_u=e_v=d_10_prod_eq  4
    comp_i=1_u=e_v=d_103  product_3_i=1_u=e_v=d_10_a  1
    comp_i=1_u=e_v=d_103  product_3_i=1_u=e_v=d_10_b  -1
    comp_i=1_u=e_v=d_103  product_3_i=1_u=e_v=d_10_c  -1
    comp_i=1_u=e_v=d_103  product_3_i=1_u=e_v=d_10_d  -1
    comp_i=1_u=e_v=d_103  i=1_u=e_v=d_10_prod_eq  8
    MARK0024  'MARKER'                 'INTORG'
    binary_i=1_u=f_v=b_100  i=1_u=f_v=b_10_int_eq  1
    binary_i=1_u=f_v=b_100  product_0_i=1_u=f_v=b_10_a  -12
    binary_i=1_u=f_v=b_100  product_0_i=1_u=f_v=b_10_d  12
    binary_i=1_u=f_v=b_101  i=1_u=f_v=b_10_int_eq  2
    binary_i=1_u=f_v=b_101  product_1_i=1_u=f_v=b_10_a  -12
    binary_i=1_u=f_v=b_101  product_1_i=1_u=f_v=b_10_d  12
    binary_i=1_u=f_v=b_102  i=1_u=f_v=b_10_int_eq  4
    binary_i=1_u=f_v=b_102  product_2_i=1_u=f_v=b_10_a  -12
    binary_i=1_u=f_v=b_102  product_2_i=1_u=f_v=b_10_d  12
    binary_i=1_u=f_v=b_103  i=1_u=f_v=b_10_int_eq  8
    binary_i=1_u=f_v=b_103  product_3_i=1_u=f_v=b_10_a  -12
    binary_i=1_u=f_v=b_103  product_3_i=1_u=f_v=b_10_d  12
    MARK0025  'MARKER'                 'INTEND'
    comp_i=1_u=f_v=b_100  product_0_i=1_u=f_v=b_10_a  1
    comp_i=1_u=f_v=b_100  product_0_i=1_u=f_v=b_10_b  -1
    comp_i=1_u=f_v=b_100  product_0_i=1_u=f_v=b_10_c  -1
    comp_i=1_u=f_v=b_100  product_0_i=1_u=f_v=b_10_d  -1
    comp_i=1_u=f_v=b_100  i=1_u=f_v=b_10_prod_eq  1
    comp_i=1_u=f_v=b_101  product_1_i=1_u=f_v=b_10_a  1
    comp_i=1_u=f_v=b_101  product_1_i=1_u=f_v=b_10_b  -1
    comp_i=1_u=f_v=b_101  product_1_i=1_u=f_v=b_10_c  -1
    comp_i=1_u=f_v=b_101  product_1_i=1_u=f_v=b_10_d  -1
    comp_i=1_u=f_v=b_101  i=1_u=f_v=b_10_prod_eq  2
    comp_i=1_u=f_v=b_102  product_2_i=1_u=f_v=b_10_a  1
    comp_i=1_u=f_v=b_102  product_2_i=1_u=f_v=b_10_b  -1
    comp_i=1_u=f_v=b_102  product_2_i=1_u=f_v=b_10_c  -1
    comp_i=1_u=f_v=b_102  product_2_i=1_u=f_v=b_10_d  -1
    comp_i=1_u=f_v=b_102  i=1_u=f_v=b_10_prod_eq  4
    comp_i=1_u=f_v=b_103  product_3_i=1_u=f_v=b_10_a  1
    comp_i=1_u=f_v=b_103  product_3_i=1_u=f_v=b_10_b  -1
    comp_i=1_u=f_v=b_103  product_3_i=1_u=f_v=b_10_c  -1
    comp_i=1_u=f_v=b_103  product_3_i=1_u=f_v=b_10_d  -1
    comp_i=1_u=f_v=b_103  i=1_u=f_v=b_10_prod_eq  8
RHS
    RHS_V     17a_i=0   1
    RHS_V     17a_i=1   1
    RHS_V     22b_vertex_selected_v=a_i=0  1
    RHS_V     22b_vertex_selected_v=b_i=0  1
    RHS_V     22b_vertex_selected_v=c_i=0  1
    RHS_V     22b_vertex_selected_v=d_i=0  1
    RHS_V     22b_vertex_selected_v=e_i=0  1
    RHS_V     22b_vertex_selected_v=f_i=0  1
    RHS_V     22b_vertex_selected_v=sink_139750915787664_i=0  1
    RHS_V     22b_vertex_selected_v=a_i=1  1
    RHS_V     22b_vertex_selected_v=b_i=1  1
    RHS_V     22b_vertex_selected_v=c_i=1  1
    RHS_V     22b_vertex_selected_v=d_i=1  1
    RHS_V     22b_vertex_selected_v=e_i=1  1
    RHS_V     22b_vertex_selected_v=f_i=1  1
    RHS_V     22b_vertex_selected_v=sink_139750915787664_i=1  1
    RHS_V     18a_i=0   1
    RHS_V     18a_i=1   1
    RHS_V     19c_distance_order_u=a_v=c_i=0  8
    RHS_V     19c_distance_order_u=b_v=sink_139750915787664_i=0  8
    RHS_V     19c_distance_order_u=c_v=d_i=0  8
    RHS_V     19c_distance_order_u=c_v=e_i=0  8
    RHS_V     19c_distance_order_u=d_v=e_i=0  8
    RHS_V     19c_distance_order_u=d_v=c_i=0  8
    RHS_V     19c_distance_order_u=e_v=f_i=0  8
    RHS_V     19c_distance_order_u=e_v=d_i=0  8
    RHS_V     19c_distance_order_u=f_v=b_i=0  8
    RHS_V     19c_distance_order_u=source_139750915787664_v=a_i=0  8
    RHS_V     19c_distance_order_u=a_v=c_i=1  8
    RHS_V     19c_distance_order_u=b_v=sink_139750915787664_i=1  8
    RHS_V     19c_distance_order_u=c_v=d_i=1  8
    RHS_V     19c_distance_order_u=c_v=e_i=1  8
    RHS_V     19c_distance_order_u=d_v=e_i=1  8
    RHS_V     19c_distance_order_u=d_v=c_i=1  8
    RHS_V     19c_distance_order_u=e_v=f_i=1  8
    RHS_V     19c_distance_order_u=e_v=d_i=1  8
    RHS_V     19c_distance_order_u=f_v=b_i=1  8
    RHS_V     19c_distance_order_u=source_139750915787664_v=a_i=1  8
    RHS_V     safe_list_u=source_139750915787664_v=a_i=0_eq1  1
    RHS_V     safe_list_u=a_v=c_i=0_eq1  1
    RHS_V     safe_list_u=d_v=e_i=0_geq1  1
    RHS_V     safe_list_u=e_v=f_i=0_eq1  1
    RHS_V     safe_list_u=f_v=b_i=0_eq1  1
    RHS_V     safe_list_u=b_v=sink_139750915787664_i=0_eq1  1
    RHS_V     product_0_i=1_u=a_v=c_10_d  12
    RHS_V     product_1_i=1_u=a_v=c_10_d  12
    RHS_V     product_2_i=1_u=a_v=c_10_d  12
    RHS_V     product_3_i=1_u=a_v=c_10_d  12
    RHS_V     i=1_u=a_v=c_10d  5
    RHS_V     product_0_i=0_u=c_v=d_10_d  12
    RHS_V     product_1_i=0_u=c_v=d_10_d  12
    RHS_V     product_2_i=0_u=c_v=d_10_d  12
    RHS_V     product_3_i=0_u=c_v=d_10_d  12
    RHS_V     product_0_i=1_u=c_v=d_10_d  12
    RHS_V     product_1_i=1_u=c_v=d_10_d  12
    RHS_V     product_2_i=1_u=c_v=d_10_d  12
    RHS_V     product_3_i=1_u=c_v=d_10_d  12
    RHS_V     i=1_u=c_v=d_10d  3
    RHS_V     product_0_i=0_u=c_v=e_10_d  12
    RHS_V     product_1_i=0_u=c_v=e_10_d  12
    RHS_V     product_2_i=0_u=c_v=e_10_d  12
    RHS_V     product_3_i=0_u=c_v=e_10_d  12
    RHS_V     product_0_i=1_u=c_v=e_10_d  12
    RHS_V     product_1_i=1_u=c_v=e_10_d  12
    RHS_V     product_2_i=1_u=c_v=e_10_d  12
    RHS_V     product_3_i=1_u=c_v=e_10_d  12
    RHS_V     i=1_u=c_v=e_10d  6
    RHS_V     product_0_i=0_u=d_v=e_10_d  12
    RHS_V     product_1_i=0_u=d_v=e_10_d  12
    RHS_V     product_2_i=0_u=d_v=e_10_d  12
    RHS_V     product_3_i=0_u=d_v=e_10_d  12
    RHS_V     product_0_i=1_u=d_v=e_10_d  12
    RHS_V     product_1_i=1_u=d_v=e_10_d  12
    RHS_V     product_2_i=1_u=d_v=e_10_d  12
    RHS_V     product_3_i=1_u=d_v=e_10_d  12
    RHS_V     i=1_u=d_v=e_10d  3
    RHS_V     product_0_i=0_u=d_v=c_10_d  12
    RHS_V     product_1_i=0_u=d_v=c_10_d  12
    RHS_V     product_2_i=0_u=d_v=c_10_d  12
    RHS_V     product_3_i=0_u=d_v=c_10_d  12
    RHS_V     product_0_i=1_u=d_v=c_10_d  12
    RHS_V     product_1_i=1_u=d_v=c_10_d  12
    RHS_V     product_2_i=1_u=d_v=c_10_d  12
    RHS_V     product_3_i=1_u=d_v=c_10_d  12
    RHS_V     i=1_u=d_v=c_10d  4
    RHS_V     product_0_i=1_u=e_v=f_10_d  12
    RHS_V     product_1_i=1_u=e_v=f_10_d  12
    RHS_V     product_2_i=1_u=e_v=f_10_d  12
    RHS_V     product_3_i=1_u=e_v=f_10_d  12
    RHS_V     i=1_u=e_v=f_10d  5
    RHS_V     product_0_i=0_u=e_v=d_10_d  12
    RHS_V     product_1_i=0_u=e_v=d_10_d  12
    RHS_V     product_2_i=0_u=e_v=d_10_d  12
    RHS_V     product_3_i=0_u=e_v=d_10_d  12
    RHS_V     product_0_i=1_u=e_v=d_10_d  12
    RHS_V     product_1_i=1_u=e_v=d_10_d  12
    RHS_V     product_2_i=1_u=e_v=d_10_d  12
    RHS_V     product_3_i=1_u=e_v=d_10_d  12
    RHS_V     i=1_u=e_v=d_10d  4
    RHS_V     product_0_i=1_u=f_v=b_10_d  12
    RHS_V     product_1_i=1_u=f_v=b_10_d  12
    RHS_V     product_2_i=1_u=f_v=b_10_d  12
    RHS_V     product_3_i=1_u=f_v=b_10_d  12
    RHS_V     i=1_u=f_v=b_10d  5
BOUNDS
 BV BOUND     edge('a','c',0)
 BV BOUND     edge('b','sink_139750915787664',0)
 UI BOUND     edge('c','d',0)  3
 UI BOUND     edge('c','e',0)  6
 UI BOUND     edge('d','e',0)  3
 UI BOUND     edge('d','c',0)  4
 BV BOUND     edge('e','f',0)
 UI BOUND     edge('e','d',0)  4
 BV BOUND     edge('f','b',0)
 BV BOUND     edge('source_139750915787664','a',0)
 BV BOUND     edge('a','c',1)
 BV BOUND     edge('b','sink_139750915787664',1)
 UI BOUND     edge('c','d',1)  3
 UI BOUND     edge('c','e',1)  6
 UI BOUND     edge('d','e',1)  3
 UI BOUND     edge('d','c',1)  4
 BV BOUND     edge('e','f',1)
 UI BOUND     edge('e','d',1)  4
 BV BOUND     edge('f','b',1)
 BV BOUND     edge('source_139750915787664','a',1)
 UI BOUND     distance('a',0)  8
 UI BOUND     distance('b',0)  8
 UI BOUND     distance('c',0)  8
 UI BOUND     distance('d',0)  8
 UI BOUND     distance('e',0)  8
 UI BOUND     distance('f',0)  8
 UI BOUND     distance('source_139750915787664',0)  8
 UI BOUND     distance('sink_139750915787664',0)  8
 UI BOUND     distance('a',1)  8
 UI BOUND     distance('b',1)  8
 UI BOUND     distance('c',1)  8
 UI BOUND     distance('d',1)  8
 UI BOUND     distance('e',1)  8
 UI BOUND     distance('f',1)  8
 UI BOUND     distance('source_139750915787664',1)  8
 UI BOUND     distance('sink_139750915787664',1)  8
 BV BOUND     selected_edge('a','c',0)
 BV BOUND     selected_edge('b','sink_139750915787664',0)
 BV BOUND     selected_edge('c','d',0)
 BV BOUND     selected_edge('c','e',0)
 BV BOUND     selected_edge('d','e',0)
 BV BOUND     selected_edge('d','c',0)
 BV BOUND     selected_edge('e','f',0)
 BV BOUND     selected_edge('e','d',0)
 BV BOUND     selected_edge('f','b',0)
 BV BOUND     selected_edge('source_139750915787664','a',0)
 BV BOUND     selected_edge('a','c',1)
 BV BOUND     selected_edge('b','sink_139750915787664',1)
 BV BOUND     selected_edge('c','d',1)
 BV BOUND     selected_edge('c','e',1)
 BV BOUND     selected_edge('d','e',1)
 BV BOUND     selected_edge('d','c',1)
 BV BOUND     selected_edge('e','f',1)
 BV BOUND     selected_edge('e','d',1)
 BV BOUND     selected_edge('f','b',1)
 BV BOUND     selected_edge('source_139750915787664','a',1)
 UI BOUND     pi('a','c',0)  12
 UI BOUND     pi('b','sink_139750915787664',0)  12
 UI BOUND     pi('c','d',0)  12
 UI BOUND     pi('c','e',0)  12
 UI BOUND     pi('d','e',0)  12
 UI BOUND     pi('d','c',0)  12
 UI BOUND     pi('e','f',0)  12
 UI BOUND     pi('e','d',0)  12
 UI BOUND     pi('f','b',0)  12
 UI BOUND     pi('source_139750915787664','a',0)  12
 UI BOUND     pi('a','c',1)  12
 UI BOUND     pi('b','sink_139750915787664',1)  12
 UI BOUND     pi('c','d',1)  12
 UI BOUND     pi('c','e',1)  12
 UI BOUND     pi('d','e',1)  12
 UI BOUND     pi('d','c',1)  12
 UI BOUND     pi('e','f',1)  12
 UI BOUND     pi('e','d',1)  12
 UI BOUND     pi('f','b',1)  12
 UI BOUND     pi('source_139750915787664','a',1)  12
 UI BOUND     weights0  12
 UI BOUND     weights1  12
 BV BOUND     binary_i=1_u=a_v=c_100
 BV BOUND     binary_i=1_u=a_v=c_101
 BV BOUND     binary_i=1_u=a_v=c_102
 BV BOUND     binary_i=1_u=a_v=c_103
 UP BOUND     comp_i=1_u=a_v=c_100  12
 UP BOUND     comp_i=1_u=a_v=c_101  12
 UP BOUND     comp_i=1_u=a_v=c_102  12
 UP BOUND     comp_i=1_u=a_v=c_103  12
 BV BOUND     binary_i=0_u=c_v=d_100
 BV BOUND     binary_i=0_u=c_v=d_101
 BV BOUND     binary_i=0_u=c_v=d_102
 BV BOUND     binary_i=0_u=c_v=d_103
 UP BOUND     comp_i=0_u=c_v=d_100  12
 UP BOUND     comp_i=0_u=c_v=d_101  12
 UP BOUND     comp_i=0_u=c_v=d_102  12
 UP BOUND     comp_i=0_u=c_v=d_103  12
 BV BOUND     binary_i=1_u=c_v=d_100
 BV BOUND     binary_i=1_u=c_v=d_101
 BV BOUND     binary_i=1_u=c_v=d_102
 BV BOUND     binary_i=1_u=c_v=d_103
 UP BOUND     comp_i=1_u=c_v=d_100  12
 UP BOUND     comp_i=1_u=c_v=d_101  12
 UP BOUND     comp_i=1_u=c_v=d_102  12
 UP BOUND     comp_i=1_u=c_v=d_103  12
 BV BOUND     binary_i=0_u=c_v=e_100
 BV BOUND     binary_i=0_u=c_v=e_101
 BV BOUND     binary_i=0_u=c_v=e_102
 BV BOUND     binary_i=0_u=c_v=e_103
 UP BOUND     comp_i=0_u=c_v=e_100  12
 UP BOUND     comp_i=0_u=c_v=e_101  12
 UP BOUND     comp_i=0_u=c_v=e_102  12
 UP BOUND     comp_i=0_u=c_v=e_103  12
 BV BOUND     binary_i=1_u=c_v=e_100
 BV BOUND     binary_i=1_u=c_v=e_101
 BV BOUND     binary_i=1_u=c_v=e_102
 BV BOUND     binary_i=1_u=c_v=e_103
 UP BOUND     comp_i=1_u=c_v=e_100  12
 UP BOUND     comp_i=1_u=c_v=e_101  12
 UP BOUND     comp_i=1_u=c_v=e_102  12
 UP BOUND     comp_i=1_u=c_v=e_103  12
 BV BOUND     binary_i=0_u=d_v=e_100
 BV BOUND     binary_i=0_u=d_v=e_101
 BV BOUND     binary_i=0_u=d_v=e_102
 BV BOUND     binary_i=0_u=d_v=e_103
 UP BOUND     comp_i=0_u=d_v=e_100  12
 UP BOUND     comp_i=0_u=d_v=e_101  12
 UP BOUND     comp_i=0_u=d_v=e_102  12
 UP BOUND     comp_i=0_u=d_v=e_103  12
 BV BOUND     binary_i=1_u=d_v=e_100
 BV BOUND     binary_i=1_u=d_v=e_101
 BV BOUND     binary_i=1_u=d_v=e_102
 BV BOUND     binary_i=1_u=d_v=e_103
 UP BOUND     comp_i=1_u=d_v=e_100  12
 UP BOUND     comp_i=1_u=d_v=e_101  12
 UP BOUND     comp_i=1_u=d_v=e_102  12
 UP BOUND     comp_i=1_u=d_v=e_103  12
 BV BOUND     binary_i=0_u=d_v=c_100
 BV BOUND     binary_i=0_u=d_v=c_101
 BV BOUND     binary_i=0_u=d_v=c_102
 BV BOUND     binary_i=0_u=d_v=c_103
 UP BOUND     comp_i=0_u=d_v=c_100  12
 UP BOUND     comp_i=0_u=d_v=c_101  12
 UP BOUND     comp_i=0_u=d_v=c_102  12
 UP BOUND     comp_i=0_u=d_v=c_103  12
 BV BOUND     binary_i=1_u=d_v=c_100
 BV BOUND     binary_i=1_u=d_v=c_101
 BV BOUND     binary_i=1_u=d_v=c_102
 BV BOUND     binary_i=1_u=d_v=c_103
 UP BOUND     comp_i=1_u=d_v=c_100  12
 UP BOUND     comp_i=1_u=d_v=c_101  12
 UP BOUND     comp_i=1_u=d_v=c_102  12
 UP BOUND     comp_i=1_u=d_v=c_103  12
 BV BOUND     binary_i=1_u=e_v=f_100
 BV BOUND     binary_i=1_u=e_v=f_101
 BV BOUND     binary_i=1_u=e_v=f_102
 BV BOUND     binary_i=1_u=e_v=f_103
 UP BOUND     comp_i=1_u=e_v=f_100  12
 UP BOUND     comp_i=1_u=e_v=f_101  12
 UP BOUND     comp_i=1_u=e_v=f_102  12
 UP BOUND     comp_i=1_u=e_v=f_103  12
 BV BOUND     binary_i=0_u=e_v=d_100
 BV BOUND     binary_i=0_u=e_v=d_101
 BV BOUND     binary_i=0_u=e_v=d_102
 BV BOUND     binary_i=0_u=e_v=d_103
 UP BOUND     comp_i=0_u=e_v=d_100  12
 UP BOUND     comp_i=0_u=e_v=d_101  12
 UP BOUND     comp_i=0_u=e_v=d_102  12
 UP BOUND     comp_i=0_u=e_v=d_103  12
 BV BOUND     binary_i=1_u=e_v=d_100
 BV BOUND     binary_i=1_u=e_v=d_101
 BV BOUND     binary_i=1_u=e_v=d_102
 BV BOUND     binary_i=1_u=e_v=d_103
 UP BOUND     comp_i=1_u=e_v=d_100  12
 UP BOUND     comp_i=1_u=e_v=d_101  12
 UP BOUND     comp_i=1_u=e_v=d_102  12
 UP BOUND     comp_i=1_u=e_v=d_103  12
 BV BOUND     binary_i=1_u=f_v=b_100
 BV BOUND     binary_i=1_u=f_v=b_101
 BV BOUND     binary_i=1_u=f_v=b_102
 BV BOUND     binary_i=1_u=f_v=b_103
 UP BOUND     comp_i=1_u=f_v=b_100  12
 UP BOUND     comp_i=1_u=f_v=b_101  12
 UP BOUND     comp_i=1_u=f_v=b_102  12
 UP BOUND     comp_i=1_u=f_v=b_103  12
ENDATA
