#!/usr/bin/env python3
"""Regenerates MANIFEST.json from the table below (keeps it schema-valid at all times)."""
import json, os, sys
ROOT = os.path.dirname(os.path.dirname(os.path.abspath(__file__)))

TRUST = ("trusted base: CPython 3.12, networkx as container, HiGHS 1.15 as the library's solver (its optimal claims are cross-examined "
         "by the z3 reference on small instances), z3 5.1 exact arithmetic, the harness's own reference models (fpverif/ref.py)")

ADDENDA = {
    "C01": " Later widenings: supersets longer than k, isolated nodes in edge-weighted graphs, rings without natural source/sink, percentile arguments. Fourth-round widenings: tuple / set containers (also empty) for additional starts / ends; 'non-negative' is taken literally for weights and slacks. Fifth-round widening: the non-default search helpers (guessed weights, min-gen-set / scanning lower bounds) of the minimising classes in the route workload; node-weighted graphs whose edges carry a same-named attribute.",
    "C02": " Later widenings: integer-valued flows with weight_type=float (type check strict for both types), zero-flow elements forced by constraints. Fourth-round widening: integer weight type on half-integral conserved flows.",
    "C03": " Later widenings: crossing constraints (all in/out pairs of a node), constraints forcing more paths than edges, length coverage with non-integral lengths and with a length attribute under count coverage, scanning windows of ignored edges, magnitude-shifted instances (1e6, 1e9, 2^-20; disagreements keyed by magnitude), 60 s solver limit. Third-round widenings: the options object of every lower-bound setting re-used for a later single-path instance; presolve classification of magnitude-shifted instances. Fourth-round widenings: small stated values on ignored elements (ignored detours), presolve classification and the 2^-20 magnitude key. Fifth-round widenings: 'ignored-tail' family (a whole level cut of ignored edges with other values) under the partition-constraint options; known key for the min-gen-set lower bound at magnitude 1e6.",
    "C04": " Later widenings: constrained hubs (optimum > #edges), factors 1e4/1e6, classification of solver-presolve defects by re-solving with presolve off. Third-round widenings: hub-on-a-cycle family, crossing subset constraints, the returned walks checked against every subset constraint. Fourth-round widening: non-whole scale factors on single planted walks. Fifth-round widenings: repeated entries in subset constraints, a corpus instance whose guessed-weights decomposition is not minimum.",
    "C05": " Later widenings: 'spine' and 'decimal hub' flow families (zero-excess windows, decimal floats), length coverage with k below the cover number, min-gen-set options on decimal float flows, node-weighted rings with additional start/end nodes, classification of solver-presolve defects. Third-round widening: the options object of every MinFlowDecomp setting re-used for a later single-path instance. Fifth-round widenings: all combinations of the safe-sequence sub-switches while it is on, acyclic inputs to the walk models, length-coverage cover corpus. Sixth-round: solver-presolve classification also when it is the all-off baseline that presolve gets wrong.",
    "C06": " Later widenings: trusted sets restricted to coverable edges, graphs with parts on no source-to-sink walk, the DAG models' own safe lists incl. zero-length constraint edges, inexact flow intervals. Third-round widening: DAG models with additional start / end nodes (and kMinPathError) in the safe-list judgement. Fourth-round widening: queued bound updates (fix_via_bounds) of constructed models are judged. Fifth-round widenings: cover models judged against the caller's non-ignored edges (also with additional starts/ends), 'exactly once' entries judged for soundness, doubled-edge corpus.",
    "C07": " Later widenings: trusted edges (explicit / percentile) with a validity check of the trust assumption, supersets exceeding every flow ('hourglass'), classification of solver-presolve defects and of the product helper's bit width. Third-round widening: integer weight type on fractional data (corpus; value disagreements keyed as a known input class). Fourth-round widening: flows stored as (unsigned) numpy integers.",
    "C08": " Later widenings: exact covering number on the SCC multigraph, bundles of parallel inter-SCC edges with k=None, path-length factors < 1, supersets exceeding every flow. Third-round widenings: 'dip' chains with scaled-down over-explained edges, integer weight type on fractional data. Fourth-round widenings: path-length factors below 1/2 and 0, decimal factors read as decimal fractions by the reference. Fifth-round widening: explicit length attribute (whole lengths incl. 0) with and without path-length factors. Sixth-round widening: given weights together with path-length factors (weights far below the flow, factor pairs on both sides of 1).",
    "C09": " Later widenings: width histories with additional starts/ends, interleaved convention-free queries and duplicate ignore entries, length-coverage cases, constrained hub, a 1100-node path. Fourth-round widenings: numpy-typed lengths, a dense block behind a hub edge, presolve classification (key C09/solver-presolve-defect/*).",
    "C10": " Later widenings: percentile-based ignoring vs the explicit list, trusted-edge variants with an outlier detour and tight k, cover models judged for still covering everything, non-integral lengths, length attribute under count coverage. Third-round widenings: crossing constraints (k = planted + 1) and a 'waist' shape with the greedy shortcut on. Fourth-round widening: one node as additional start and end compared with 'start only' / 'end only'. Fifth-round widening: repeated entries in subset constraints; no feasibility verdict for error models on all-zero weights. Sixth-round widening: crossing constraints under length coverage whose first edge has no length attribute.",
    "C11": " Later widenings: node-length coverage corpus for the cover models, node-weighted graphs whose edges carry an attribute of the same name, percentile ignoring, all three reported numbers of MinErrorFlow. Fifth-round widening: MinFlowDecomp with additional starts/ends compared with a hand-built expansion (helper source/sink joined by ignored edges).",
    "C12": " Later widenings: unsorted ranges of the piecewise-constant helper, scalar creation bounds of numpy / Fraction types. Third-round widening: one variable in both queues (fix v, lower bound v) before one optimize. Fourth-round widenings: custom time-out route of optimize(); returned values must satisfy the constraints and reproduce this run's optimum. Fifth-round widenings: objective expressions with repeated variables; lower-bound requests below the bound in force and later batches after optimize().",
    "C13": " Later widenings: re-solve histories (solve, fault, solve), models restricted to an infeasible weights superset. Third-round widenings: kFlowDecomp with default options for every k (getters before / after solve), guessed-weights pre-step holding more paths than the lower bound. Fourth-round widenings: re-solve histories for the searches over k, fault-then-clean-re-solve histories (a time-limited clean run gives no verdict). Fifth-round widening: 'edited' histories (model changed through its solver object after a solve, then solved again).",
    "C14": " Later widenings: nodes of a str subclass whose str() differs from the node; assignments keyed by the nodes themselves (as the models do). Fifth-round widenings: shuffled edge orders and dense self-loop graphs; walks of node-weighted graphs condensed by NodeExpandedDiGraph.get_condensed_paths.",
    "C15": " Later widenings: duplicate subsets with distinct weights, classification of solver-presolve defects. Third-round widening: integer instances in decimal / non-representable float units. Fourth-round widening: empty subsets in set-cover families. Fifth-round widening: fine partition constraints (three or more parts).",
    "C16": " Later widenings: numpy-typed weights, a self-loop as the only incoming / outgoing edge of a node, float tolerance for phase-2 values. Fourth-round widenings: small numpy integers, two-decimal cyclic instances, literal non-negativity, presolve classification (key C16/solver-presolve-defect/*).",
    "C17": " Later widenings: graphs with dead parts, the global source/sink themselves as query arguments, weights on source/sink edges. Third-round widening: bottleneck peeling of inexact float flows (units 0.1, 1/3, 0.7). Fourth-round widening: decimal-fraction antichain weights (known finding).",
    "C18": " Later widenings: a model constructed first and solved last (queued bound updates), two-phase MinErrorFlow, noisy weights, user subclasses of the abstract classes built with default arguments, option pools with scanning window / trusted sets. Third-round widening: options that only MinFlowDecomp reads force a MinFlowDecomp step on an exact flow; a repeated solve that runs into the time limit gives no verdict. Fourth-round widenings: thread-count histories, same graph with new flows (also re-solve of the same model), caller edits of argument objects after construction, get_solution variants interleaved, two-phase MinErrorFlow re-solves. Fifth-round widenings: numpy-typed caller graphs, 'lateresolve' histories (re-solve later than the time limit), time-limited history steps give no verdict.",
    "C19": " Later widenings: 31 violation kinds (k<=0 with a weights superset, bool / float-subclass weight types, empty and list-edge constraints also in node mode), edit histories on one graph object, explicit None option dicts, order-dependent float conservation, all-zero flows. Third-round widenings: numpy-typed flow values in the converse cases, invalid coverage by count next to a valid coverage by length, invalid coverage-by-length values. Fourth-round widenings: 20 further kinds (non-list constraint entries, two-character strings, non-finite weights, coverage without constraints, coverage by length, zero-side and tiny relative imbalances, NaN scaling, superset entries, edge tuples as start / end), MinErrorFlow auxiliary cases. Fifth-round widening: an isolated non-string node.",
    "C20": " Later widenings: vertex-count lines that disagree with the graph (incl. 0), blank lines inside headers, header texts starting with S / digits, twin blocks, graphs without source or sink. Third-round widening: an edge line repeated verbatim. Fourth-round widenings: header that lost its '#', absent first / middle constraint node, blocks without edge lines carry n / m / w. Fifth-round widenings: count lines with extra tokens, lost count line, blanked edge line under a constraint.",
}

CHECKS = {
    # id: (category, technique, text, note, design_ref)
    "C14": ("exploration", "runtime monitor on get_solution_walks + edge-multiset oracle + log monitor",
            "Real AbstractWalkModelDiGraph.get_solution_walks() is driven (through a minimal harness subclass) with tens of thousands of "
            "Eulerian s-t multiplicity assignments (random revisiting walks, multi-layer, +-1e-7 perturbation, exhaustive Euler vectors with "
            "cap 2/3 on small graphs); the oracle compares the edge multiset of the returned walk with the assignment and watches the "
            "library's own ERROR log. Held-on-what-was-observed, not a proof.",
            "assignments stay inside the property's domain (balanced, one unit from the source, connected); " + TRUST, "DESIGN.md 4/C14"),
    "C17": ("exploration", "runtime monitors on the public query methods over random query histories + BFS/SCC/brute-force oracles",
            "Every answer of nodes_reachable/nodes_reaching/is_scc_edge/compute_edge_max_reachable_value/stDAG reachability properties is judged "
            "against an own graph search at the moment it is returned, inside random interleaved query histories (cold and warm caches), and "
            "earlier answers are re-judged at the end of the history; max-weight antichains are compared with a brute-force maximum and checked "
            "for pairwise unreachability; bottleneck peeling is replayed step by step against a brute-force max-bottleneck. Thorough adds all "
            "digraphs on 3 inner nodes (with self-loops) and 4 inner nodes (without).",
            "antichain weights are non-negative integers with total < 2^32 (library capacity constant); " + TRUST, "DESIGN.md 4/C17"),
    "C20": ("exploration", "runtime monitor on read_graphs return values/exceptions + generating-description oracle + independent mini-parser",
            "Rendered multi-block files (varying headers, '#S' lines incl. duplicates, blank lines, tabs, number formats, zero-vertex blocks) are "
            "parsed by the real read_graphs and compared block by block with the generating description (id, edges, exact float weights, "
            "constraints in file order, stored n/m and width against an independent SCC-multigraph set-cover reference); every single-line "
            "corruption of the stated kinds must raise ValueError; the repository's fixture files are compared with an independent mini-parser.",
            "graphs have >=1 source and sink; comment lines only in headers; " + TRUST, "DESIGN.md 4/C20"),
    "C12": ("exploration", "runtime min/max probing of the real SolverWrapper helpers + read-back of HiGHS column bounds/costs + z3 shadow model over call histories",
            "For complete finite grids of bounds and admissible value pairs the product/y variable is minimised and maximised with the inputs "
            "fixed (min=max=named function value means exactly one admitted point; every admissible pair must be feasible); queued bound "
            "updates, objective replacement and get_values are read back from HiGHS; random call histories are mirrored in a shadow model "
            "whose exact optimum comes from z3. Exhaustive over the listed grids, sampled over histories.",
            "admissibility read literally from the helper docstrings; within one batch a variable receives one kind of queued request with one value (possibly repeated) so that the requested bounds are unambiguous; " + TRUST, "DESIGN.md 4/C12"),
    "C01": ("exploration", "class-level runtime monitor (wrappers on __init__/get_solution of all model classes) + route oracle over the constructor snapshot",
            "Every model instance created while the workload runs - including the inner k-models built by the Min* wrappers - has its "
            "get_solution() result judged against the graph that instance was given: nodes/edges of the caller's graph, legal endpoints, "
            "simple paths for DAG models, one non-negative weight/slack per route, count <= k (== k where the statement demands it). The "
            "workload covers all 12 exported classes, NumPathsOptimization, minimal subclasses of both abstract models with random linear "
            "objectives, random feature mixes and a fixed corpus of hard shapes (one-node graphs, nodes named like synthetic/expanded nodes, "
            "sources inside cycles, start==end).",
            "models that are rejected or unsolved (10 s solver limit in this check) yield no observation; " + TRUST, "DESIGN.md 4/C01"),
    "C02": ("exploration", "runtime monitor on get_solution of the four flow-decomposition classes + per-element recomputation oracle",
            "For every solved k-/minimum flow decomposition (DAG and cyclic, edge and node weighted, int / dyadic / decimal floats, with "
            "ignored elements carrying garbage or no value, constraints, and option sets that force the greedy, MILP and given-weights "
            "routes) the weighted traversal counts of the returned routes are recomputed for every non-ignored element and compared with "
            "the input flow (exact for int, 1e-6 relative for float); weight types are checked.",
            "only solved models are judged; " + TRUST, "DESIGN.md 4/C02"),
    "C03": ("exploration", "runtime monitor on MinFlowDecomp.solve/get_solution + exact z3 minimum over all source-to-sink paths",
            "MinFlowDecomp is run on planted positive conserving flows (random and corpus DAGs down to a single edge, stars, optimum=|E|, "
            "node-weighted, constraints with coverage, ignored elements, every lower-bound option incl. min-gen-set, subgraph scanning with a "
            "small window, guessed weights) and must be solved with exactly the z3 minimum number of paths (exhaustive reference over all "
            "paths => equality); the computed lower bound must not exceed that minimum.",
            "graphs <= 13 edges; floats dyadic; " + TRUST, "DESIGN.md 4/C03"),
    "C06": ("exploration", "runtime monitors on the safety functions and on constructed models + avoidance-automaton / z3 oracles + thread-switch stress",
            "Every safe path/sequence returned by the real functions is decided exactly by a product automaton (graph x greedy subsequence "
            "matcher): unsafe iff some source-to-sink walk through a trusted item avoids it; sequences assigned to different slots are decided "
            "by a two-matcher product; every pruned layer-edge by an automaton with a used-edge flag; flow-safe paths by z3 feasibility of a "
            "decomposition avoiding the path. DAG functions additionally run with 1/2/4/8 threads under a 1e-6 switch interval and are "
            "compared with the single-thread result. Thorough: all digraphs on 3 inner nodes (self-loops) and 4 inner nodes.",
            "X contains only edges of the caller's graph; flow-safety judged against real-weighted decompositions; " + TRUST, "DESIGN.md 4/C06"),
    "C04": ("exploration", "runtime monitor on MinFlowDecompCycles.solve/get_solution + exact z3 minimum over all Euler walk vectors + metamorphic scale monitor",
            "MinFlowDecompCycles is run on planted integer walk superpositions (self-loops, nested/touching cycles, parallel SCC exits, several "
            "sources/sinks, node-weighted with additional starts, subset constraints, ignored elements, all walk-model option sets) and must be "
            "solved with exactly the z3 minimum over all balanced connected multiplicity vectors with x_e <= f_e (exhaustive for positive integer "
            "flows; with ignored elements the reference is a bounded witness search and only 'library worse than witness' alarms). Scale clause: "
            "float runs on f and c*f must agree.",
            "graphs <= 11 edges, flows <= 6, <= 6000 Euler vectors; a solve that hits the 30 s solver limit yields no verdict; " + TRUST, "DESIGN.md 4/C04"),
    "C15": ("exploration", "runtime monitor on MinGenSet/MinSetCover solve/get_solution + z3 and brute-force minima",
            "MinGenSet results are checked for validity (sum, sub-multiset sums within max_multiplicity by enumeration, partition constraints by "
            "enumeration, type) and minimality (z3 minimum, cross-checked by brute force for small totals); MinSetCover results for coverage and "
            "minimum weight (brute force over all sub-families), including default weights and zero weights.",
            "<= 5 distinct numbers <= 40; user-supplied lower bounds above the optimum are skipped; " + TRUST, "DESIGN.md 4/C15"),
    "C09": ("exploration", "runtime monitors on Min*/k* cover models and get_width + z3 set-cover reference (paths / SCC-multigraph paths)",
            "MinPathCover / MinPathCoverCycles must be solved, cover every non-ignored edge or node and use exactly the reference minimum number "
            "of routes (z3 set cover over all source-to-sink paths, resp. over the paths of the SCC multigraph - an independent formulation of "
            "the library's expanded condensation); stDAG/stDiGraph.get_width with the documented ignore convention must equal that minimum; "
            "kPathCover / kPathCoverCycles for k in {w-1..w+2} must be solved exactly for k >= w. Ignore sets, additional starts/ends, "
            "constraints with coverage and both cover types are varied.",
            "graphs <= 12 edges; constraints only with edge covers; " + TRUST, "DESIGN.md 4/C09"),
    "C16": ("exploration", "runtime monitor on MinErrorFlow.get_solution + exact z3 L1-correction reference on the harness's own formulation",
            "Corrected graph must keep node/edge sets, be non-negative and of the requested type, be realisable as a conserving flow (z3 "
            "feasibility on the harness's own node expansion for node-weighted input; one-sided exemption for additional starts/ends), have "
            "recomputed scaled error equal to the z3 optimum (incl. sparsity lambda), reported error equal to the recomputed error, and stay "
            "within (1+eps) with few_flow_values_epsilon.",
            "graphs <= 11 edges; " + TRUST, "DESIGN.md 4/C16"),
    "C07": ("exploration", "runtime monitor on k-LeastAbsErrors(+Cycles) getters + recomputation oracle + exact z3 optimum (DAG) / bounded witness, DAG-vs-cyclic differential and k-monotonicity (cyclic)",
            "For every solved model the per-element errors and the (scaled) objective are recomputed from the returned routes and compared with "
            "edge_errors / get_objective_value(), the model's own is_valid_solution() must accept its optimum, exactly k routes are returned; "
            "DAG optimum = exact z3 optimum over all source-to-sink paths (incl. starts/ends, ignore, scaling, weights superset); the walk model "
            "must not be worse than the best solution over all Euler vectors with multiplicities <= 3, must agree with the DAG model on acyclic "
            "inputs and must not get worse with larger k.",
            "cyclic optimality is a witness comparison only; inputs whose non-ignored weights are all zero are outside the domain; " + TRUST, "DESIGN.md 4/C07"),
    "C08": ("exploration", "runtime monitor on k-MinPathError(+Cycles) + z3 covering number, slack-inequality recomputation, exact z3 optimum (DAG) / bounded witness + differential (cyclic)",
            "For k = reference covering number (+0/+1) or k=None the model must be solved (model.k = covering number for None), every non-ignored "
            "element must satisfy scale*|f - sum w*cnt| <= sum slack*cnt*length-factor, the objective must equal the sum of slacks and the exact "
            "z3 optimum over all paths (DAG; incl. path-length factors, superset) or be no worse than the best bounded-multiplicity witness (cyclic); "
            "violations of the walk model are classified by mechanism by re-solving the reference under the library's own caps/bounds.",
            "graphs <= 8 edges, covering number <= 4; solver limit 30 s (no verdict when hit); " + TRUST, "DESIGN.md 4/C08"),
    "C13": ("fault_enumeration", "solver-call trace monitor + fault injector on SolverWrapper.__init__/optimize/get_model_status, exhaustive over the invocation positions of each explored instance",
            "A fault-free run records the sequence of solver invocations; then one run per (position j, mode, status) injects a native zero "
            "time limit, a status override after a completed optimize, a skipped optimize or the custom-timeout flag with 8 non-optimal "
            "statuses. Judged: getters raise before solve; a faulted single model is unsolved and hands out no data; a faulted minimum search "
            "(MinFlowDecomp(+Cycles), MinPathCover(+Cycles), MinGenSet, incl. min-gen-set lower bound and guessed weights) is unsolved or "
            "returns exactly the fault-free optimum, never answered by the faulted invocation; NumPathsOptimization returns only a model whose "
            "own last status was optimal.",
            "exhaustive over j for the explored instances (random small instances + a corpus of multi-invocation searches), not over inputs; Gurobi codes not exercisable; " + TRUST, "DESIGN.md 4/C13"),
    "C18": ("exploration", "argument-snapshot monitor (structural hashes of caller objects and of every __init__.__defaults__) + history-vs-isolation differential + repeated solve/getters",
            "Histories of 2-4 constructions sharing graph, non-empty option dicts, solver options, constraint / ignore / start / end lists, "
            "scaling dicts and weight supersets (edge and node weighted; a separate worker group uses only default arguments) are run; after "
            "every step all caller objects and all classes' mutable defaults are compared with their snapshots; every step's (solved, objective, "
            "#routes) is compared with the same construction in isolation; solve() and getters are repeated; a caller-owned "
            "max_edge_repetition_dict is passed to a subclass of the abstract walk model.",
            "isolation runs share the process (process-global state is watched via the defaults snapshots); " + TRUST, "DESIGN.md 4/C18"),
    "C19": ("exploration", "runtime monitor on exception type / is_solved under single and paired input violations + converse workload",
            "27 violation kinds (and pairs) are applied to valid random base instances of all 12 model classes, plus argument checks of "
            "MinGenSet / NumPathsOptimization / NodeExpandedDiGraph / stDAG / stDiGraph / SolverWrapper: the outcome must be ValueError at "
            "construction or solve() and never a solved model; conversely random in-domain instances and a corpus (one-node graphs, isolated "
            "nodes, single edge) must construct and solve without any exception.",
            "a non-conserving flow is strict only for the classes that document it; a node without the attribute is 'ignored', not invalid; " + TRUST, "DESIGN.md 4/C19"),
    "C05": ("exploration", "runtime differential monitor across option settings on one input (exception / solved / objective) + solve-statistics fingerprint showing which settings changed the MILP",
            "For every class that accepts optimization_options, one in-domain input is solved under the all-off baseline, every documented flag "
            "alone, all-on, random combinations and the library defaults (thorough: full cross product up to 96 settings, documented-illegal "
            "combinations removed); every setting must agree with the baseline in raised exception, solved status and objective. The evidence "
            "counts how many settings actually changed the model (columns / fixed variables / greedy / number of solver calls).",
            "trusted edges are the ones the models supply; settings hitting the 8 s solver limit are not compared; " + TRUST, "DESIGN.md 4/C05"),
    "C10": ("exploration", "runtime monitors on get_solution/get_objective_value with and without a feature + coverage recomputation, exact constrained optimum (z3), metamorphic ignore/scale/garbage equivalence, start/end monotonicity",
            "Constraints: every constraint of every solved model (all 12 classes, node and edge mode, edge-count and length coverage) must be "
            "contained in a single returned route; for DAG LAE/MPE the objective equals the exact optimum over the constrained solutions. "
            "Ignoring: ignore(e), scale 0, ignore with garbage / zero / missing weight must agree in (solved, objective). Starts/ends: declaring an "
            "existing source/sink changes nothing; a real additional start/end never raises, never makes a solved instance unsolved or worse, "
            "and no route starts/ends anywhere else.",
            "8 s solver limit (no verdict when hit); " + TRUST, "DESIGN.md 4/C10"),
    "C11": ("exploration", "runtime differential monitor: node mode vs edge mode on the harness's own node expansion + NodeExpandedDiGraph round-trip monitors",
            "All 12 model classes and MinErrorFlow are solved in node mode and, independently, as edge-weighted instances on an expansion built "
            "by harness code (different naming, all original edges ignored, constraints / ignore / scaling / starts / ends translated): solved "
            "status and objective must agree, node-mode routes must be routes of the original graph, a node without the attribute must behave "
            "like an ignored node with a value; NodeExpandedDiGraph expand/condense round trips for paths, constraints, elements and graphs.",
            "8 s solver limit (no verdict when hit); " + TRUST, "DESIGN.md 4/C11"),
}

NOT_YET = {}


def main():
    props = [json.loads(l) for l in open(os.path.join(ROOT, "properties.jsonl"))]
    checks = []
    na = []
    for p in props:
        pid = p["id"]
        if pid in CHECKS:
            cat, tech, text, note, ref = CHECKS[pid]
            checks.append({
                "property_id": pid,
                "quick_cmd": f"./check {pid} quick",
                "thorough_cmd": f"./check {pid} thorough",
                "evidence_file": f"evidence/{pid}.json",
                "replay_cmd_template": f"./check {pid} --replay {{path}}",
                "engine": "fpverif",
                "level_claimed": {"category": cat, "text": text + ADDENDA.get(pid, ""), "design_ref": ref},
                "level_note": note,
                "technique": tech,
            })
        else:
            na.append({"property_id": pid, "reason": NOT_YET.get(pid, "check under construction in this session; not claimed until its monitor has been calibrated on the unchanged tree")})
    man = {
        "version": 1,
        "setup_cmd": "./setup.sh",
        "hooks": {
            "guard": "FLOWPATHS_VERIF",
            "enable": "FLOWPATHS_VERIF=1 is exported by ./check; it switches on the harness-side monitors (class-level wrappers attached from outside). "
                      "No source hooks exist in /repo: /venv imports flowpaths editable from /repo, so every check runs the current working tree with nothing to rebuild.",
            "baseline_off_cmd": "cd /repo && /venv/bin/python -m pytest -ra -q -p no:cacheprovider --timeout=900 --continue-on-collection-errors",
            "source_commits": [],
            "add_only": True,
        },
        "engines": [{"name": "fpverif", "path": "fpverif/", "serves_properties": sorted(CHECKS),
                     "kind_free_text": "runtime monitoring: class-level wrappers on the real flowpaths methods, solver-call trace + fault injector, log monitor, argument-snapshot monitor; offline oracles = plain-Python enumeration + z3 exact optimisation"}],
        "checks": checks,
        "notes": "All checks: ./check <ID> <quick|thorough>; exit 0 held / 1 unlisted violation / 2 inconclusive. Known findings: known_findings.json. Seeds via VERIF_SEED.",
        "not_applicable": na,
    }
    with open(os.path.join(ROOT, "MANIFEST.json"), "w") as f:
        json.dump(man, f, indent=1)
    try:
        sys.path.insert(0, os.path.join(ROOT, ".deps"))
        import jsonschema
        jsonschema.validate(man, json.load(open("/root/.vp/MANIFEST.schema.json")))
        print("MANIFEST.json valid;", len(checks), "checks,", len(na), "not_applicable")
    except ImportError:
        print("written (jsonschema unavailable)")


if __name__ == "__main__":
    main()
