#!/usr/bin/env python3
"""Rebuilds the 'fixed' list of known_findings.json from the fix: commits of /repo (subject -> property / what failed)."""
import json, subprocess, os
ROOT = os.path.dirname(os.path.dirname(os.path.abspath(__file__)))
MAP = [
    ("keep upper bounds when applying queued lower-bound", "C12", "queue_set_var_lower_bound overwrote the upper bound with the old lower bound (getCols unpack order / unsorted index sets); made optimize_with_safe_sequences_fix_via_bounds infeasible (also C05)"),
    ("queued more than once", "C12", "queueing the same variable twice silently dropped the whole batch of bound updates"),
    ("piecewise-constant helper big-M", "C12", "piecewise-constant helper infeasible when the constants are further apart than the x-range big-M"),
    ("include k = number of edges", "C03", "range(lowerbound, |E|) never tried k=|E|: single edge / star / single node (node mode) reported unsolved by MinFlowDecomp, MinFlowDecompCycles, MinPathCover, MinPathCoverCycles (also C04, C09)"),
    ("MinFlowDecomp lower bounds must not count ignored", "C03", "width lower bound without the source/sink-edge convention and log2 bound counted ignored edges: lower bound above the optimum, non-minimal answers with ignored edges"),
    ("do not compute flow-safe paths when edges are ignored", "C03", "KeyError when an ignored edge lacks the flow attribute and the remaining graph satisfies conservation (also C10, C19 converse)"),
    ("min-gen-set lower bound of MinFlowDecomp with ignored", "C03", "min-gen-set lower bound included ignored edges' values (bound above optimum) and called exit(0) when MinGenSet was unsolved (also C05)"),
    ("MinPathCover must hand the user's graph", "C01", "MinPathCover returned paths containing source_<id>/sink_<id> and v.0/v.1 names; kPathCover(cover_type='node') raised TypeError (also C09, C11, C19 converse)"),
    ("MinPathCoverCycles with cover_type='node'", "C01", "MinPathCoverCycles(cover_type='node') returned walks in expanded node names; lower bound ignored additional starts/ends (also C09, C11)"),
    ("keep single-node paths/walks of node-weighted", "C01", "get_solution() dropped one-node routes (and their weights) of node-weighted models: fewer than k routes, flow of isolated nodes unexplained (also C02, C07, C11)"),
    ("MinFlowDecompCycles node mode with additional starts", "C04", "MinFlowDecompCycles(flow_attr_origin='node', additional_starts/ends) always raised ValueError; lower bounds above the optimum with ignored edges / node-weighted input (also C10, C19 converse)"),
    ("do not cap the traversals of an ignored edge", "C04", "ignored edge carrying 0 could not be traversed: decomposable input reported unsolved (also C10)"),
    ("bound the traversals of untrusted edges", "C04", "ignored edges capped by k*max flow: with k=1 a walk could not re-traverse them often enough and more walks than necessary were returned (also C10)"),
    ("MinSetCover without subset_weights", "C15", "MinSetCover() with the documented default subset_weights=None raised TypeError"),
    ("MinGenSet with max_multiplicity > 1", "C15", "MinGenSet with max_multiplicity>1 returned non-generating / non-minimal sets (product bound 'total' too small, unsound complement removal, truncation instead of rounding)"),
    ("MinGenSet search range and inconclusive", "C15", "MinGenSet unsolved when the optimum is len(numbers) or len(numbers)+1 ([1,2,4] with total 7 or 100); continued to a larger size after an inconclusive solver status (also C13)"),
    ("k-LeastAbsErrors objective value must use the error scaling", "C07", "with error_scaling get_objective_value() returned the unscaled error sum while the model minimises the scaled one; is_valid_solution() rejected the model's own optimum"),
    ("do not write model-internal entries into the caller", "C18", "a non-empty optimization_options dict passed by the caller was aliased and extended (trusted_edges_for_safety, allow_empty_paths, ...) by kFlowDecompCycles, kLeastAbsErrors(+Cycles), kMinPathError(+Cycles) and through MinFlowDecompCycles"),
    ("must not modify the caller's max_edge_repetition_dict", "C18", "AbstractWalkModelDiGraph overwrote entries of the caller-owned max_edge_repetition_dict"),
    ("graphs without source or sink must be rejected", "C19", "a graph without source or sink given to a walk model raised NetworkXError / OverflowError or was silently accepted (string id iterated as node container) instead of the documented ValueError"),
    ("kFlowDecomp greedy pre-check must not fail", "C19", "kFlowDecomp raised KeyError for a constraint naming an absent edge (instead of ValueError) and for a single-node node-weighted graph (in-domain input)"),
    ("DAG path models must reject k <= 0", "C19", "k <= 0: UnboundLocalError from kLeastAbsErrors/kMinPathError, silently accepted by kPathCover"),
    ("MinFlowDecompCycles must reject a non-conserving flow", "C19", "MinFlowDecompCycles accepted a non-conserving flow although it documents a ValueError"),
    ("greedy solution of node-weighted kFlowDecomp must carry its weights", "C01", "kFlowDecomp(flow_attr_origin='node') solved by the greedy route returned 'weights': None (reachable for graphs without edges, e.g. a single node) (also C02)"),
    ("greedy flow decomposition must respect weight_type=int", "C02", "greedy route of kFlowDecomp/MinFlowDecomp returned float weights for weight_type=int when the flow values were given as floats"),
    ("a failed (re-)solve must not leave a stale cached solution", "C13", "after an inconclusive (re-)solve the k-models, MinSetCover and MinErrorFlow (inconclusive few-flow-values phase) still handed out the previously cached solution / stayed solved"),
    ("greedy pre-check of kFlowDecomp must count constraint edges", "C03", "with length_attr given and coverage by edge count the greedy pre-check of kFlowDecomp summed edge lengths: a greedy decomposition violating a subpath constraint was accepted and MinFlowDecomp returned fewer paths than any constrained decomposition (also C10; first pointed out by two seeding sub-agents, then reproduced by C03 after adding a length attribute to count-coverage cases)"),
    ("elements_to_ignore_percentile must not drop", "C10", "kMinPathErrorCycles(flow_attr_origin='node', elements_to_ignore_percentile=p) always raised ValueError: the percentile selection replaced the internal ignore list that holds the node-expanded graph's original edges (also C11, C19 converse; pointed out by a seeding sub-agent, reproduced by the C10 percentile-vs-explicit-list cases)"),
    ("subgraph-scanning lower bound must skip windows", "C03", "MinFlowDecomp(use_subgraph_scanning_lowerbound) raised 'Failed to add columns' / OverflowError when a scanning window consisted of ignored edges only (weight bound -inf); found by the thorough tier, now also in the quick corpus"),
    ("safe sequences must tolerate edges that lie on no source-to-sink walk", "C06", "maximal_safe_sequences_via_dominators raised IndexError on digraphs containing an edge from which the sink cannot be reached / that no source reaches: walk models with a non-empty trusted set crashed at construction (also C08, C19 converse); found by the exhaustive small-scope enumeration of the thorough tier"),
    ("minimum searches over k must go beyond the number of edges when constraints", "C03", "MinFlowDecomp / MinFlowDecompCycles / MinPathCoverCycles reported 'not solved' when the constrained optimum exceeds the number of edges (hub with 4 in- and 2 out-edges, all 8 pairs constrained: optimum 8 > 6) (also C04, C09, C10)"),
    ("path-length and edge-position variables must not be integer", "C10", "kMinPathError with a length attribute holding non-integral edge lengths was always infeasible: path-length / edge-position variables were declared integer although they are sums of edge lengths"),
    ("MinSetCover must not drop a selected subset", "C15", "MinSetCover.solve() compared the solver values of its 0/1 variables with == 1: a selected subset returned as 0.9999999999999999 was dropped and the returned index list was not a cover (universe 0..5, 8 weighted subsets; found by the thorough tier, now in the quick corpus)"),
    ("kMinPathError slack bound must account for path-length factors below 1", "C08", "kMinPathError with path_length_factors containing a factor < 1 was infeasible for k >= width when the needed slack error/factor exceeds w_max (chain with flows 1,1,0,0, factors [1.0,0.5], k=1); found by the thorough tier, now in the quick corpus"),
    ("read_graph must not skip the edge lines of a block whose vertex-count line is 0", "C20", "a vertex-count line '0' made read_graph return before reading the edge lines and before any validation: listed edges dropped, malformed edge lines / non-numeric weights / absent constraint edges accepted (pointed out by a bug-hunting sub-agent; the harness had even encoded the quirk as an exemption, now removed)"),
    ("read_graph must not fail on a block whose graph has no source or no sink", "C20", "a well-formed block whose graph has no source or no sink (2-cycle) made read_graph/read_graphs raise ValueError from the width computation"),
    ("blank lines between the header lines of a block", "C20", "a blank line between two '#' header lines broke read_graph (next header line read as vertex count) and read_graphs (block cut in two)"),
    ("a non-positive k must be rejected also when solution_weights_superset is given", "C19", "kLeastAbsErrors / kMinPathError accepted k <= 0 when solution_weights_superset was given (k overwritten before the positivity check); kLeastAbsErrors(k=0) reported itself solved"),
    ("flow-conservation check must not depend on the order in which float values are summed", "C19", "an exactly conserved float flow (0.1,0.2,0.3 in / 0.3,0.2,0.1 out) was rejected by kFlowDecomp, MinFlowDecomp, MinFlowDecompCycles depending on edge insertion order (float sums compared with !=)"),
    ("kFlowDecomp must not crash on an all-zero flow", "C19", "kFlowDecomp / MinFlowDecomp raised IndexError on an all-zero flow (greedy shortcut indexed an empty path list)"),
    ("malformed constraints must be rejected with ValueError, not IndexError/TypeError", "C19", "[[]] on node-weighted input raised IndexError; an edge written as a list raised TypeError in kFlowDecomp, MinFlowDecomp, kLeastAbsErrors, kLeastAbsErrorsCycles, kMinPathErrorCycles"),
    ("guessed-weights helper of MinFlowDecompCycles must get the additional start/end nodes", "C05", "MinFlowDecompCycles(flow_attr_origin='node', additional_starts/ends, optimize_with_guessed_weights=True) raised ValueError on a graph without natural source/sink (ring): the helper kFlowDecompCycles was built without the additional start/end nodes (also C11)"),
    ("elements_to_ignore_percentile must be computed over the weighted elements only", "C11", "kMinPathErrorCycles node mode: the percentile was taken over all edges of the node-expanded graph incl. the connecting edges that inherit the original edges' attributes; node-weighted graphs whose edges carry an attribute of the same name got other nodes ignored (up to 'Failed to add columns')"),
    ("node-covering path covers must take the node lengths into the node expansion", "C11", "kPathCover/MinPathCover(cover_type='node') with subpath_constraints_coverage_length counted the connecting edges of an edge-list constraint with length 1 (NodeExpandedDiGraph built without node_length_attr): differs from the explicitly expanded instance (also C10)"),
    ("repeated solve() of MinErrorFlow with few_flow_values_epsilon must start from the first phase", "C18", "MinErrorFlow(few_flow_values_epsilon=...): a second solve() optimised the leftover second-phase model and returned False / infeasible after the first returned True (also C16)"),
    ("add_variables must honour scalar bounds of any real number type", "C12", "SolverWrapper.add_variables silently replaced a scalar lb/ub of type numpy.int64 / numpy.float32 / Fraction by the default bounds 0 and 1; MinErrorFlow on numpy-typed weights returned wrong flows or 'infeasible' (also C16)"),
    ("abstract model classes must not share one default solve_statistics", "C18", "AbstractPathModelDAG / AbstractWalkModelDiGraph used a mutable default solve_statistics={} that every model built without its own dict shared and overwrote (user subclasses per docs/abstract-path-model.md)"),
    ("with solution_weights_superset the error and slack bounds must cover the sum", "C07", "kLeastAbsErrors / kMinPathError with solution_weights_superset bounded errors and slacks by max(k*max flow, max(superset)): non-optimal objective (30 instead of 24 on the hourglass instance) or false infeasibility when the given weights pile up on one edge (also C08, C10)"),
    ("greedy flow decomposition must return float weights for weight_type=float", "C02", "greedy route of kFlowDecomp/MinFlowDecomp returned int weights (and an int 0 for padding paths) for weight_type=float when the flow values were ints; the oracle had accepted ints for float, now strict"),
    ("flow-safe paths must not depend on float round-off", "C05", "flow-safe paths compared float excess flows with 0 exactly: on decimal float flows a zero-excess path was reported safe (MinFlowDecomp with safety as subpath constraints returned 4 instead of 3 paths) and 'assert inexact_excess == 0' failed with default options (also C06)"),
    ("a subpath constraint covered by length must not be turned into a safe sequence when it has zero-length edges", "C06", "with subpath_constraints_coverage_length == 1 constraints were used as fully required sequences although zero-length edges (all connecting edges in node mode) are not required: unsafe safe sequences / trusted edges, wrong optimum or infeasibility with solution_weights_superset (also C10)"),
    ("greedy shortcut of kFlowDecomp must not be used when solution_weights_superset", "C13", "kFlowDecomp(solution_weights_superset=...) reported itself solved straight after construction with greedy weights outside the superset although the restricted model is infeasible"),
    ("MinGenSet must tolerate float round-off", "C05", "MinFlowDecomp on decimal float flows raised ValueError (partition-constraint sums compared with ==) or 'Error adding constraint' (generating-set element -4.4e-16 used as a given weight) depending on the min-gen-set options"),
    ("optimization_options=None / solver_options=None must be accepted", "C19", "explicit None for optimization_options / solver_options (the documented default of MinPathCover, MinPathCoverCycles, kFlowDecomp) raised AttributeError in kFlowDecomp, MinFlowDecomp, MinFlowDecompCycles, MinPathCover, MinPathCoverCycles"),
    ("stDiGraph.get_width must count an ignored edge once", "C09", "stDiGraph.get_width decremented the multiplicity of a condensation edge once per LIST ENTRY of an ignored inter-SCC edge: a duplicated entry also removed a parallel non-ignored edge (width 1 reported, 2 walks needed)"),
    ("safe-sequence computation must not recurse once per node of a path", "C09", "MinPathCoverCycles.solve() / kPathCoverCycles() raised RecursionError on a simple path with more nodes than the recursion limit (recursive find_path and dominator-tree traversal) (also C06)"),
    ("MinErrorFlow with few_flow_values_epsilon on node-weighted", "C16", "MinErrorFlow(flow_attr_origin='node', few_flow_values_epsilon>0) raised KeyError"),
]
def main():
    p = os.path.join(ROOT, "known_findings.json")
    kf = json.load(open(p))
    log = subprocess.run(["git", "-C", "/repo", "log", "--format=%h %s", "--reverse"], capture_output=True, text=True).stdout.strip().splitlines()
    fixed = []
    for l in log:
        h, subj = l.split(" ", 1)
        if not subj.startswith("fix:"):
            continue
        hit = [m for m in MAP if m[0] in subj]
        if not hit:
            print("UNMAPPED fix commit:", l); continue
        fixed.append(f"fixed: property={hit[0][1]} {h} {hit[0][2]}")
    kf["fixed"] = fixed
    json.dump(kf, open(p, "w"), indent=1)
    print(len(fixed), "fixed entries")
if __name__ == "__main__":
    main()
