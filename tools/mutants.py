#!/usr/bin/env python3
"""Deliberate property-breaking changes used to validate the monitors (DESIGN.md section 6).
Each mutant is a textual replacement applied to a scratch copy of /repo (never to /repo itself);
the named checks are then run with FPVERIF_REPO pointing at the copy and must report a VIOLATION.

usage: tools/mutants.py [-k substring] [--tier quick] [--keep]
"""
import sys, os, subprocess, shutil, argparse, json, time, tempfile
ROOT = os.path.dirname(os.path.dirname(os.path.abspath(__file__)))

# (name, file, old, new, [property ids expected to catch it])
MUTANTS = [
    ("c14_int_rounding", "flowpaths/abstractwalkmodeldigraph.py",
     "multiplicity = round(self.edge_vars_sol[edge_key])", "multiplicity = int(self.edge_vars_sol[edge_key])", ["C14"]),
    ("c14_drop_closed_walks", "flowpaths/abstractwalkmodeldigraph.py",
     "            if graph[potential_vertex]:\n                # Build and insert closed walk",
     "            if graph[potential_vertex] and len(stack) % 5 != 4:\n                # Build and insert closed walk", ["C14"]),
    ("c17_reach_cache_wrong_scc", "flowpaths/stdigraph.py",
     "        reachable_sccs = set(nx.descendants(C, cv)) | {cv}", "        reachable_sccs = set(nx.descendants(C, cv)) | ({cv} if len(self._nodes_by_scc[cv]) > 1 or C.out_degree(cv) > 0 else set())", ["C17"]),
    ("c17_bottleneck_ge", "flowpaths/utils/graphutils.py",
     "                if uBottleneck > B[v]:", "                if uBottleneck >= B[v] and (B[v] == float('-inf') or len(maxInNeighbor) % 3 == 0) or uBottleneck > B[v] + 1:", ["C17"]),
    ("c17_maxreach_skip_anc", "flowpaths/stdigraph.py",
     "            result[(u, v)] = max(edge_weight[(u, v)], max_desc[cv], max_anc[cu])", "            result[(u, v)] = max(edge_weight[(u, v)], max_desc[cv], max_anc[cu] if cu != cv else 0.0)", ["C17"]),
    ("c17_antichain_visited", "flowpaths/stdag.py",
     "                        and demand[(u, v)] > 0 ", "                        and demand[(u, v)] > 1 ", ["C17"]),
    ("c06_multiplicity_plus_one", "flowpaths/stdigraph.py",
     "sequence_function[condensation_expanded_edge][:edge_multiplicity]", "sequence_function[condensation_expanded_edge][:edge_multiplicity + 1]", ["C06"]),
    ("c06_no_gap_protection", "flowpaths/abstractwalkmodeldigraph.py",
     "                if True or end_prev != start_next:", "                if end_prev != start_next:", ["C06"]),
    ("c06_scc_keep_two", "flowpaths/stdigraph.py",
     "sequence_function[condensation_expanded_edge] = sequence_function[condensation_expanded_edge][:1]", "sequence_function[condensation_expanded_edge] = sequence_function[condensation_expanded_edge][:2]", ["C06"]),
    ("c06_dag_safe_path_outdeg", "flowpaths/utils/safetypathcovers.py",
     "        while G.out_degree(v) == 1:", "        while G.out_degree(v) >= 1 and G.in_degree(v) == 1:", ["C06"]),
    ("c06_bridges_skip_restore", "flowpaths/utils/safetypathcovers.py",
     "        adj_dict[u].append(v)  #reinsert removed edges\n\n    return bridges", "        if i % 3 != 2:\n            adj_dict[u].append(v)\n\n    return bridges", ["C06"]),
    ("c06_flow_excess_sign", "flowpaths/utils/safetyflowdecomp.py",
     "                if inexact_excess + rightdiff <= tolerance:", "                if inexact_excess + rightdiff < -tolerance:", ["C06"]),
    ("c06_protect_or_to_and", "flowpaths/abstractwalkmodeldigraph.py",
     "                if (u in self.G.nodes_reachable(last_node)) or (v in self.G.nodes_reaching(first_node)):", "                if (u in self.G.nodes_reachable(last_node)) and (v in self.G.nodes_reaching(first_node)):", ["C06"]),
    ("c20_int_weight", "flowpaths/utils/graphutils.py",
     "            w = float(w_str)", "            w = float(int(float(w_str))) if float(w_str) > 2 else float(w_str)", ["C20"]),
    ("c20_no_dedupe", "flowpaths/utils/graphutils.py",
     "                if seq_key not in subpaths_seen:", "                if seq_key not in subpaths_seen or len(seq_key) == 2:", ["C20"]),
    ("c20_accept_4tok", "flowpaths/utils/graphutils.py",
     "        if len(elements) != 3:", "        if len(elements) < 3:\n            continue\n        elements = elements[:3]\n        if False:", ["C20"]),
    ("c20_constraint_check_skips_last", "flowpaths/utils/graphutils.py",
     "        for (u, v) in subpath:\n            if not G.has_edge(u, v):", "        for (u, v) in subpath[:-1]:\n            if not G.has_edge(u, v):", ["C20"]),
    ("c20_block_split", "flowpaths/utils/graphutils.py",
     "        while j < n_lines and not lines[j].lstrip().startswith('#'):", "        while j < n_lines and not lines[j].lstrip().startswith('#') and (lines[j].strip() or j < i + 3):", ["C20"]),
    ("c12_mccormick_c", "flowpaths/utils/solverwrapper.py",
     "        self.add_constraint(product_var >= continuous_var - ub * (1 - binary_var), name=name + \"_d\")", "        self.add_constraint(product_var >= continuous_var - 2 * ub * (1 - binary_var) - 1, name=name + \"_d\")", ["C12"]),
    ("c12_objective_not_reset", "flowpaths/utils/solverwrapper.py",
     "                np.full(self.numVariables, 0, dtype=np.float64),", "                np.full(self.numVariables, 0, dtype=np.float64) if self.numVariables < 3 else np.asarray(self.getLp().col_cost_, dtype=np.float64),", ["C12"]),
    ("c12_bits_floor", "flowpaths/utils/solverwrapper.py",
     "        num_bits = ceil(log2(ub + 1))", "        num_bits = max(1, ceil(log2(ub + 1)) - (1 if ub > 40 else 0))", ["C12"]),
    ("c12_fix_var_lb_only", "flowpaths/utils/solverwrapper.py",
     "                    self.solver.changeColsBounds(len(idxs), idxs, vals, vals)", "                    self.solver.changeColsBounds(len(idxs), idxs, vals, np.maximum(vals, 1.0))", ["C12"]),
    ("c01_keep_sink_in_path", "flowpaths/abstractpathmodeldag.py",
     "                paths.append(path[1:-1])", "                paths.append(path[1:-1] if len(path) != 5 else path[1:])", ["C01"]),
    ("c13_continue_after_inconclusive", "flowpaths/minflowdecomp.py",
     "                # In this case, we stop the search.\n                return False\n\n        return False\n\n    def _solve_with_given_weights",
     "                # In this case, we stop the search.\n                continue\n\n        return False\n\n    def _solve_with_given_weights", ["C13"]),
    ("c18_no_deepcopy_constraints", "flowpaths/abstractpathmodeldag.py",
     "        self.subpath_constraints = copy.deepcopy(subpath_constraints)", "        self.subpath_constraints = subpath_constraints", ["C18"]),
    ("c19_accept_coverage_zero", "flowpaths/abstractpathmodeldag.py",
     "        if not (0 < self.subpath_constraints_coverage <= 1):", "        if not (0 <= self.subpath_constraints_coverage <= 1):", ["C19"]),
    ("c10_walk_coverage_minus_one", "flowpaths/abstractwalkmodeldigraph.py",
     "                    >= constraint_length * coverage_fraction\n", "                    >= (constraint_length * coverage_fraction - (1 if constraint_length > 2 else 0))\n", ["C10"]),
    ("c16_skip_conservation_high_indegree", "flowpaths/minerrorflow.py",
     "            if self.G.in_degree(node) == 0 or self.G.out_degree(node) == 0:", "            if self.G.in_degree(node) == 0 or self.G.out_degree(node) == 0 or self.G.in_degree(node) > 2:", ["C16"]),
    ("c11_condense_drops_last", "flowpaths/nodeexpandeddigraph.py",
     "            for i in range(0, len(path) - 1, 2):", "            for i in range(0, len(path) - (1 if len(path) < 8 else 3), 2):", ["C11", "C01"]),
    ("c08_k_none_ignores_ignore_list", "flowpaths/kminpatherror.py",
     "            self.k = self.G.get_width(list(self.edges_to_ignore))", "            self.k = self.G.get_width()", ["C08"]),
    ("c02_truncate_int_weights", "flowpaths/kflowdecompcycles.py",
     "                round(weights_sol_dict[i])", "                int(weights_sol_dict[i] - 0.4)", ["C02"]),
    ("c05_safe_walk_exact_multiplicity", "flowpaths/abstractwalkmodeldigraph.py",
     "                                    self.edge_vars[(u, v, i)] >= m,", "                                    self.edge_vars[(u, v, i)] == m,", ["C05", "C04"]),
    ("c03_width_bound_plus_one", "flowpaths/minflowdecomp.py",
     "        self._lowerbound_k = max(self._lowerbound_k, stG.get_width(edges_to_ignore=list(self.edges_to_ignore) + list(stG.source_sink_edges)))",
     "        self._lowerbound_k = max(self._lowerbound_k, stG.get_width(edges_to_ignore=list(self.edges_to_ignore) + list(stG.source_sink_edges)) + (1 if self.G.number_of_edges() % 5 == 0 else 0))", ["C03"]),
    ("c09_self_loops_not_covered", "flowpaths/kpathcovercycles.py",
     "            if (u, v) in self.edges_to_ignore:\n                continue", "            if (u, v) in self.edges_to_ignore or u == v:\n                continue", ["C09"]),
    ("c07_unscaled_objective", "flowpaths/kleastabserrorscycles.py",
     "        return sum(error * self.edge_error_scaling.get(edge, 1) for edge, error in edge_errors.items())", "        return sum(edge_errors.values())", ["C07"]),
    ("c15_msc_weight_as_int", "flowpaths/minsetcover.py",
     "                self.subset_weights[i] * self.subset_vars[i]", "                int(self.subset_weights[i]) * self.subset_vars[i]", ["C15"]),
    ("c06_false_dominator", "flowpaths/utils/safetypathcoverscycles.py",
     "        t_idoms[(u,v)] = t_idom                  if t_idom != None else G.sink", "        t_idoms[(u,v)] = t_idom                  if t_idom != None else (next(iter(G.out_edges(v))) if G.out_degree(v) == 2 else G.sink)", ["C06"]),
]


# reverting a fix: commit of /repo must make the check(s) that found the defect fire again
REVERTS = [
    ("keep upper bounds when applying queued lower-bound", ["C12", "C05"]),
    ("queued more than once", ["C12"]),
    ("piecewise-constant helper big-M", ["C12"]),
    ("include k = number of edges", ["C03", "C04", "C09"]),
    ("MinFlowDecomp lower bounds must not count ignored", ["C03"]),
    ("do not compute flow-safe paths when edges are ignored", ["C03"]),
    ("min-gen-set lower bound of MinFlowDecomp with ignored", ["C03"]),
    ("MinPathCover must hand the user's graph", ["C01", "C09"]),
    ("MinPathCoverCycles with cover_type='node'", ["C01"]),
    ("keep single-node paths/walks of node-weighted", ["C01"]),
    ("MinFlowDecompCycles node mode with additional starts", ["C04"]),
    ("bound the traversals of untrusted edges", ["C04"]),
    ("MinSetCover without subset_weights", ["C15"]),
    ("MinGenSet with max_multiplicity > 1", ["C15"]),
    ("MinGenSet search range and inconclusive", ["C15", "C13"]),
    ("MinErrorFlow with few_flow_values_epsilon on node-weighted", ["C16"]),
    ("k-LeastAbsErrors objective value must use the error scaling", ["C07"]),
    ("do not write model-internal entries into the caller", ["C18"]),
    ("must not modify the caller's max_edge_repetition_dict", ["C18"]),
    ("graphs without source or sink must be rejected", ["C19"]),
    ("kFlowDecomp greedy pre-check must not fail", ["C19"]),
    ("DAG path models must reject k <= 0", ["C19"]),
    ("MinFlowDecompCycles must reject a non-conserving flow", ["C19"]),
    ("greedy solution of node-weighted kFlowDecomp must carry its weights", ["C01"]),
    ("greedy flow decomposition must respect weight_type=int", ["C02"]),
    ("a failed (re-)solve must not leave a stale cached solution", ["C13"]),
    ("greedy pre-check of kFlowDecomp must count constraint edges", ["C03"]),
    ("elements_to_ignore_percentile must not drop", ["C10"]),
    ("subgraph-scanning lower bound must skip windows", ["C03"]),
    ("safe sequences must tolerate edges that lie on no source-to-sink walk", ["C06"]),
    ("minimum searches over k must go beyond the number of edges when constraints", ["C03", "C04", "C09"]),
    ("path-length and edge-position variables must not be integer", ["C10"]),
    ("MinSetCover must not drop a selected subset", ["C15"]),
    ("kMinPathError slack bound must account for path-length factors below 1", ["C08"]),
    ("read_graph must not skip the edge lines of a block whose vertex-count line is 0", ["C20"]),
    ("read_graph must not fail on a block whose graph has no source or no sink", ["C20"]),
    ("blank lines between the header lines of a block", ["C20"]),
    ("a non-positive k must be rejected also when solution_weights_superset is given", ["C19"]),
    ("flow-conservation check must not depend on the order in which float values are summed", ["C19"]),
    ("kFlowDecomp must not crash on an all-zero flow", ["C19"]),
    ("malformed constraints must be rejected with ValueError, not IndexError/TypeError", ["C19"]),
    ("guessed-weights helper of MinFlowDecompCycles must get the additional start/end nodes", ["C05"]),
    ("elements_to_ignore_percentile must be computed over the weighted elements only", ["C11"]),
    ("node-covering path covers must take the node lengths into the node expansion", ["C11"]),
    ("repeated solve() of MinErrorFlow with few_flow_values_epsilon must start from the first phase", ["C18"]),
    ("add_variables must honour scalar bounds of any real number type", ["C12"]),
    ("abstract model classes must not share one default solve_statistics", ["C18"]),
    ("with solution_weights_superset the error and slack bounds must cover the sum", ["C07"]),
    ("greedy flow decomposition must return float weights for weight_type=float", ["C02"]),
    ("flow-safe paths must not depend on float round-off", ["C05"]),
    ("a subpath constraint covered by length must not be turned into a safe sequence when it has zero-length edges", ["C06"]),
    ("greedy shortcut of kFlowDecomp must not be used when solution_weights_superset", ["C13"]),
    ("MinGenSet must tolerate float round-off", ["C05"]),
    ("optimization_options=None / solver_options=None must be accepted", ["C19"]),
    ("stDiGraph.get_width must count an ignored edge once", ["C09"]),
    ("safe-sequence computation must not recurse once per node of a path", ["C09"]),
    # ("flow decomposition models must accept numpy-typed flow values", ["C19"]):  superseded - since fc5988a the internal s-t graphs store
    # plain Python numbers, so reverting 9e46d14 alone changes no behaviour any more (reverting fc5988a is caught by C07 / C09 / C05)
    ("round the weight bound up instead of truncating it", ["C08", "C07"]),
    ("kMinPathError with all path-length factors below 1", ["C08"]),
    ("a constraint-list entry that is not a list", ["C19"]),
    ("an edge-list constraint whose entry is not a tuple", ["C19"]),
    ("kMinPathError slack bound with a path-length factor 0", ["C08"]),
    ("MinErrorFlow must reject non-string nodes also when the graph has cycles", ["C19"]),
    ("attribute values given as numpy scalars", ["C07", "C09", "C05"]),
    ("NaN and infinite weights must be rejected", ["C19"]),
    ("a coverage fraction outside (0, 1] must be rejected also when the caller passes no constraints", ["C19"]),
    ("float solution values (weights, slacks, corrected flow values) are clipped", ["C16", "C01"]),
    ("the float flow-conservation check allows round-off of the sums only", ["C19"]),
    ("read_graphs must reject non-blank lines that precede the first header", ["C20"]),
    ("optimization_options['external_safe_paths'] list was aliased", ["C18"]),
    ("a failed re-solve of a search over k", ["C13"]),
    ("differs from the previous HiGHS run of the process", ["C18"]),
    ("MinFlowDecompCycles(use_min_gen_set_lowerbound) on float flows below 1", ["C05"]),
    ("MinErrorFlow on a cyclic graph with small numpy-integer weights", ["C16"]),
    ("an error_scaling factor NaN must be rejected", ["C19"]),
    ("the error_scaling dict and the solution_weights_superset list are read again after solve()", ["C18"]),
    ("walk reconstruction looked the solver's edge values up under str(node)", ["C14"]),
    ("an empty tuple / set as additional_starts or additional_ends", ["C01"]),
    ("re-used the lower bounds (and helper models) computed for the graph as it was at the first solve", ["C18"]),
    ("solution_weights_superset entries must be weights of the requested type", ["C19"]),
    ("subpath_constraints_coverage_length outside (0, 1] must be rejected also when the caller passes no constraints", ["C19"]),
    ("accepted an edge tuple as additional start / end node", ["C19"]),
    ("MinErrorFlow must reject NaN / infinite weights", ["C19"]),
    ("read_graphs stored no n / m / w for a block without edge lines", ["C20"]),
    ("DAG models look solution values up under the nodes themselves", ["C01"]),
    ("flow sums of the conservation check, the source flow", ["C19"]),
    ("trusted_edges_for_safety_percentile is taken over the edges whose value counts", ["C07"]),
    ("MinFlowDecompCycles reads the largest flow value again at every solve", ["C18"]),
    ("kMinPathError keeps its own validated copy of path_length_ranges", ["C18", "C19"]),
    ("error_scaling factors of any real number type are stored as floats", ["C07", "C08"]),
    ("a MultiDiGraph is rejected with ValueError", ["C19"]),
    ("0-dimensional numpy arrays are stored as Python numbers", ["C18"]),
    ("an infinite entry of solution_weights_superset", ["C19"]),
    ("MinErrorFlow refuses additional_starts / additional_ends on a graph with cycles", ["C19"]),
    ("read_graph treats a header line as a subpath constraint only if its first token", ["C20"]),
    ("one-shot iterables given as elements_to_ignore", ["C10"]),
]


def run(cmd, **kw):
    return subprocess.run(cmd, shell=isinstance(cmd, str), capture_output=True, text=True, **kw)


def reverts(a):
    base = tempfile.mkdtemp(prefix="fpverif-rev-", dir="/var/tmp")
    log = run(["git", "-C", "/repo", "log", "--format=%h %s"]).stdout.strip().splitlines()
    results = []
    try:
        for subj, props in REVERTS:
            if a.k and a.k not in subj and a.k not in ",".join(props):
                continue
            hit = [l for l in log if subj in l]
            if not hit:
                print("!! no commit for", subj); continue
            h = hit[0].split()[0]
            wt = os.path.join(base, h)
            run(["git", "-C", "/repo", "worktree", "add", "--detach", wt, "HEAD"])
            try:
                r = run(["git", "-C", wt, "revert", "--no-commit", h])
                if r.returncode != 0:
                    print(f"!! revert of {h} ({subj}) conflicts with later commits: skipped"); results.append((subj, "CONFLICT", None)); continue
                for pid in props:
                    t0 = time.time()
                    env = dict(os.environ, FPVERIF_REPO=wt)
                    c = run([os.path.join(ROOT, "check"), pid, a.tier, "--no-evidence"], env=env, cwd=ROOT)
                    caught = c.returncode == 1 and "VIOLATION property=" + pid in c.stdout
                    sigs = sorted({l.strip().split("]")[0][1:] for l in c.stdout.splitlines() if l.strip().startswith("[")})
                    print(f"{'CAUGHT ' if caught else 'MISSED '} revert[{h} {subj[:50]}] by {pid} rc={c.returncode} {time.time()-t0:.0f}s {sigs[:3]}")
                    results.append((subj, pid, caught))
            finally:
                run(["git", "-C", "/repo", "worktree", "remove", "--force", wt])
    finally:
        shutil.rmtree(base, ignore_errors=True); run(["git", "-C", "/repo", "worktree", "prune"])
        shutil.rmtree("/var/tmp/fpverif-mutant-replay", ignore_errors=True)
    missed = [r for r in results if r[2] is not True]
    print(f"\n{len(results) - len(missed)} caught, {len(missed)} not caught: {missed}")


def main():
    ap = argparse.ArgumentParser()
    ap.add_argument("-k", default="")
    ap.add_argument("--tier", default="quick")
    ap.add_argument("--keep", action="store_true")
    ap.add_argument("--reverts", action="store_true", help="revert each fix: commit instead of applying the textual mutants")
    a = ap.parse_args()
    if a.reverts:
        return reverts(a)
    base = tempfile.mkdtemp(prefix="fpverif-mut-", dir="/var/tmp")
    results = []
    try:
        for name, path, old, new, props in MUTANTS:
            if a.k and a.k not in name and a.k not in ",".join(props):
                continue
            wt = os.path.join(base, name)
            r = run(["git", "-C", "/repo", "worktree", "add", "--detach", wt, "HEAD"])
            if r.returncode != 0:
                print("worktree failed", r.stderr); continue
            try:
                fn = os.path.join(wt, path)
                src = open(fn).read()
                if src.count(old) != 1:
                    print(f"!! {name}: pattern occurs {src.count(old)} times in {path}"); results.append((name, "PATTERN", props)); continue
                open(fn, "w").write(src.replace(old, new))
                c = run([sys.executable, "-m", "py_compile", fn])
                if c.returncode != 0:
                    print(f"!! {name}: does not compile: {c.stderr[-300:]}"); results.append((name, "NOCOMPILE", props)); continue
                for pid in props:
                    t0 = time.time()
                    env = dict(os.environ, FPVERIF_REPO=wt)
                    r = run([os.path.join(ROOT, "check"), pid, a.tier, "--no-evidence"], env=env, cwd=ROOT)
                    caught = r.returncode == 1 and "VIOLATION property=" + pid in r.stdout
                    sigs = sorted({l.strip().split("]")[0][1:] for l in r.stdout.splitlines() if l.strip().startswith("[")})
                    print(f"{'CAUGHT ' if caught else 'MISSED '} {name} by {pid} rc={r.returncode} {time.time()-t0:.0f}s {sigs[:4]}")
                    if not caught:
                        print("   ", r.stdout.strip().splitlines()[-1:] , r.stderr[-300:])
                    results.append((name, pid, caught))
            finally:
                run(["git", "-C", "/repo", "worktree", "remove", "--force", wt])
    finally:
        shutil.rmtree(base, ignore_errors=True)
        run(["git", "-C", "/repo", "worktree", "prune"])
        shutil.rmtree("/var/tmp/fpverif-mutant-replay", ignore_errors=True)
    missed = [r for r in results if r[2] is not True]
    print(f"\n{len(results) - len(missed)} caught, {len(missed)} not caught: {missed}")


if __name__ == "__main__":
    main()
