#!/usr/bin/env python3
"""Deliberate property-breaking changes used to validate the monitors (DESIGN.md section 6).
Each mutant is a textual replacement applied to a scratch copy of /repo (never to /repo itself);
the named checks are then run with FPVERIF_REPO pointing at the copy and must report a VIOLATION.

usage: tools/mutants.py [-k substring] [--tier quick] [--keep]
"""
import sys, os, subprocess, shutil, argparse, json, time, tempfile
ROOT = os.path.dirname(os.path.dirname(os.path.abspath(__file__)))

# (name, file, old, new, [property ids expected to catch it])
MUTANTS = [
    ("c14_int_rounding", "flowpaths/abstractwalkmodeldigraph.py",
     "multiplicity = round(self.edge_vars_sol[edge_key])", "multiplicity = int(self.edge_vars_sol[edge_key])", ["C14"]),
    ("c14_drop_closed_walks", "flowpaths/abstractwalkmodeldigraph.py",
     "            if graph[potential_vertex]:\n                # Build and insert closed walk",
     "            if graph[potential_vertex] and len(stack) % 5 != 4:\n                # Build and insert closed walk", ["C14"]),
    ("c17_reach_cache_wrong_scc", "flowpaths/stdigraph.py",
     "        reachable_sccs = set(nx.descendants(C, cv)) | {cv}", "        reachable_sccs = set(nx.descendants(C, cv)) | ({cv} if len(self._nodes_by_scc[cv]) > 1 or C.out_degree(cv) > 0 else set())", ["C17"]),
    ("c17_bottleneck_ge", "flowpaths/utils/graphutils.py",
     "                if uBottleneck > B[v]:", "                if uBottleneck >= B[v] and (B[v] == float('-inf') or len(maxInNeighbor) % 3 == 0) or uBottleneck > B[v] + 1:", ["C17"]),
    ("c17_maxreach_skip_anc", "flowpaths/stdigraph.py",
     "            result[(u, v)] = max(edge_weight[(u, v)], max_desc[cv], max_anc[cu])", "            result[(u, v)] = max(edge_weight[(u, v)], max_desc[cv], max_anc[cu] if cu != cv else 0.0)", ["C17"]),
    ("c17_antichain_visited", "flowpaths/stdag.py",
     "                    elif (minFlow[u][v] == demand[(u, v)] \n                        and demand[(u, v)] >= 1 ", "                    elif (minFlow[u][v] == demand[(u, v)] \n                        and demand[(u, v)] >= 2 ", ["C17"]),
]


def run(cmd, **kw):
    return subprocess.run(cmd, shell=isinstance(cmd, str), capture_output=True, text=True, **kw)


def main():
    ap = argparse.ArgumentParser()
    ap.add_argument("-k", default="")
    ap.add_argument("--tier", default="quick")
    ap.add_argument("--keep", action="store_true")
    a = ap.parse_args()
    base = tempfile.mkdtemp(prefix="fpverif-mut-", dir="/var/tmp")
    results = []
    try:
        for name, path, old, new, props in MUTANTS:
            if a.k and a.k not in name and a.k not in ",".join(props):
                continue
            wt = os.path.join(base, name)
            r = run(["git", "-C", "/repo", "worktree", "add", "--detach", wt, "HEAD"])
            if r.returncode != 0:
                print("worktree failed", r.stderr); continue
            try:
                fn = os.path.join(wt, path)
                src = open(fn).read()
                if src.count(old) != 1:
                    print(f"!! {name}: pattern occurs {src.count(old)} times in {path}"); results.append((name, "PATTERN", props)); continue
                open(fn, "w").write(src.replace(old, new))
                c = run([sys.executable, "-m", "py_compile", fn])
                if c.returncode != 0:
                    print(f"!! {name}: does not compile: {c.stderr[-300:]}"); results.append((name, "NOCOMPILE", props)); continue
                for pid in props:
                    t0 = time.time()
                    env = dict(os.environ, FPVERIF_REPO=wt)
                    r = run([os.path.join(ROOT, "check"), pid, a.tier, "--no-evidence"], env=env, cwd=ROOT)
                    caught = r.returncode == 1 and "VIOLATION property=" + pid in r.stdout
                    sigs = sorted({l.strip().split("]")[0][1:] for l in r.stdout.splitlines() if l.strip().startswith("[")})
                    print(f"{'CAUGHT ' if caught else 'MISSED '} {name} by {pid} rc={r.returncode} {time.time()-t0:.0f}s {sigs[:4]}")
                    if not caught:
                        print("   ", r.stdout.strip().splitlines()[-1:] , r.stderr[-300:])
                    results.append((name, pid, caught))
            finally:
                run(["git", "-C", "/repo", "worktree", "remove", "--force", wt])
    finally:
        shutil.rmtree(base, ignore_errors=True)
        run(["git", "-C", "/repo", "worktree", "prune"])
        shutil.rmtree("/var/tmp/fpverif-mutant-replay", ignore_errors=True)
    missed = [r for r in results if r[2] is not True]
    print(f"\n{len(results) - len(missed)} caught, {len(missed)} not caught: {missed}")


if __name__ == "__main__":
    main()
