#!/bin/bash
# usage: tools/sweep.sh <tier> <seeds...>   -- runs every registered check for each seed, prints one line per run
cd "$(dirname "$0")/.."
tier=$1; shift
for s in "$@"; do
  for p in C01 C02 C03 C04 C05 C06 C07 C08 C09 C10 C11 C12 C13 C14 C15 C16 C17 C18 C19 C20; do
    out=$(VERIF_SEED=$s ./check $p $tier --no-evidence 2>&1); rc=$?
    echo "rc=$rc $(echo "$out" | grep "seed=" | tail -1)"
    if [ $rc -ne 0 ]; then echo "$out" | grep -E "^  \[|INCONCLUSIVE|inconclusive" | cut -c1-600 | head -8; fi
  done
done
