#!/usr/bin/env python3
"""Re-runs the registered checks against every stored seeded change (/verif/seeded/<name>/patch.diff) on a scratch worktree
(never /repo itself), updates meta.json["checks"] and prints the catch matrix used in DESIGN.md section 6.2.
usage: tools/seeded_matrix.py [-k substr] [--tier quick] [--seeds 0] [--jobs 3]"""
import sys, os, subprocess, json, argparse, tempfile, shutil, concurrent.futures
ROOT = os.path.dirname(os.path.dirname(os.path.abspath(__file__)))


def run(cmd, **kw):
    return subprocess.run(cmd, capture_output=True, text=True, **kw)


def one(name, tier, seeds):
    d = os.path.join(ROOT, "seeded", name)
    meta = json.load(open(os.path.join(d, "meta.json")))
    prop = meta["property"]
    checks = sorted({prop} | {k.split("/")[0] for k in meta.get("checks", {})})
    base = tempfile.mkdtemp(prefix="fpverif-mx-", dir="/var/tmp"); wt = os.path.join(base, "repo")
    out = {}
    try:
        r = run(["git", "-C", "/repo", "worktree", "add", "--detach", wt, "HEAD"])
        a = run(["git", "-C", wt, "apply", os.path.join(d, "patch.diff")])
        if a.returncode != 0:
            return name, prop, {"error": "patch does not apply: " + a.stderr[:200]}
        for pid in checks:
            for seed in seeds:
                env = dict(os.environ, FPVERIF_REPO=wt, VERIF_SEED=str(seed), VERIF_JOBS="5")
                c = run([os.path.join(ROOT, "check"), pid, tier, "--no-evidence", "--jobs", "5"], env=env, cwd=ROOT, timeout=7200)
                hit = c.returncode == 1 and f"VIOLATION property={pid}" in c.stdout
                sigs = sorted({l.strip().split("]")[0][1:] for l in c.stdout.splitlines() if l.strip().startswith("[")})
                out[f"{pid}/{tier}/seed{seed}"] = {"caught": hit, "rc": c.returncode, "signatures": sigs[:6]}
    finally:
        run(["git", "-C", "/repo", "worktree", "remove", "--force", wt]); shutil.rmtree(base, ignore_errors=True)
    meta.setdefault("checks", {}).update(out)
    json.dump(meta, open(os.path.join(d, "meta.json"), "w"), indent=1)
    return name, prop, out


def main():
    ap = argparse.ArgumentParser(); ap.add_argument("-k", default=""); ap.add_argument("--tier", default="quick")
    ap.add_argument("--seeds", default="0"); ap.add_argument("--jobs", type=int, default=3)
    a = ap.parse_args()
    names = sorted(n for n in os.listdir(os.path.join(ROOT, "seeded")) if a.k in n and os.path.exists(os.path.join(ROOT, "seeded", n, "meta.json")))
    seeds = a.seeds.split(",")
    with concurrent.futures.ThreadPoolExecutor(a.jobs) as ex:
        for name, prop, out in ex.map(lambda n: one(n, a.tier, seeds), names):
            own = [k for k, v in out.items() if isinstance(v, dict) and k.startswith(prop + "/")]
            print(name, prop, "OWN-CHECK:", "caught" if any(out[k]["caught"] for k in own) else "MISSED",
                  "| all:", {k: ("caught" if v.get("caught") else "missed") for k, v in out.items() if isinstance(v, dict) and "caught" in v} or out)
    run(["git", "-C", "/repo", "worktree", "prune"]); shutil.rmtree("/var/tmp/fpverif-mutant-replay", ignore_errors=True)


if __name__ == "__main__":
    main()
