#!/usr/bin/env python3
"""Regenerates the tables of DESIGN.md sections 6 (own mutants, reverted fixes, seeded changes) from
tools/results/{mutants,reverts}.txt and seeded/*/meta.json. The tables live between the marker comments."""
import os, re, json
ROOT = os.path.dirname(os.path.dirname(os.path.abspath(__file__)))


def parse(path):
    rows = []
    if not os.path.exists(path):
        return rows
    for l in open(path):
        m = re.match(r"(CAUGHT|MISSED)\s+(.*?) by (C\d+) rc=(\d+) \S+ (\[.*\])", l.strip())
        if m:
            rows.append((m.group(2), m.group(3), m.group(1) == "CAUGHT", m.group(5)))
    return rows


def main():
    out = []
    rows = parse(os.path.join(ROOT, "tools", "results", "mutants.txt"))
    out.append("| own mutant (tools/mutants.py) | check | caught | first signatures |\n|---|---|---|---|")
    for name, pid, ok, sigs in rows:
        out.append(f"| `{name}` | {pid} | {'yes' if ok else '**no**'} | {sigs[:140]} |")
    mt = "\n".join(out)
    out = []
    rows = parse(os.path.join(ROOT, "tools", "results", "reverts.txt"))
    out.append("#### 6.1 Reverted `fix:` commits\n\n| reverted commit | check | caught | first signatures |\n|---|---|---|---|")
    for name, pid, ok, sigs in rows:
        out.append(f"| {name} | {pid} | {'yes' if ok else '**no**'} | {sigs[:140]} |")
    mt += "\n\n" + "\n".join(out)
    out = ["#### 6.2 Independently seeded changes (`/verif/seeded/<name>/`)\n",
           "| seed | property | change | needs, to manifest | own check (quick) | other checks that fire |", "|---|---|---|---|---|---|"]
    sd = os.path.join(ROOT, "seeded")
    n_own = n = n_stale = n_neut = 0
    for name in sorted(os.listdir(sd)):
        mp = os.path.join(sd, name, "meta.json")
        if not os.path.exists(mp):
            continue
        m = json.load(open(mp)); prop = m["property"]; ch = m.get("checks", {})
        own = [v for k, v in ch.items() if k.startswith(prop + "/")]
        own_c = any(v.get("caught") for v in own)
        others = sorted({k.split("/")[0] for k, v in ch.items() if not k.startswith(prop + "/") and v.get("caught")})
        missed_o = sorted({k.split("/")[0] for k, v in ch.items() if not k.startswith(prop + "/") and not v.get("caught")} - set(others))
        st = m.get("status_on_final_tree", "")
        n += 1
        if st.startswith("stale"):
            n_stale += 1; verdict = "caught when written (patch stale on the final tree)"
        elif st.startswith("neutralised"):
            n_neut += 1; verdict = "caught when written; equivalent on the final tree (fix `160e1a8`)"
        else:
            n_own += own_c; verdict = 'caught' if own_c else '**missed**'
        out.append(f"| {name} | {prop} | {m.get('what', '')[:170]} | {m.get('needs_to_manifest', '')[:150]} | {verdict} | {', '.join(others) or '-'}" + (f" (not: {', '.join(missed_o)})" if missed_o else "") + " |")
    out.append(f"\n{n_own} of the {n - n_stale - n_neut} seeded changes whose patch applies to the final tree (/repo `160e1a8`) are caught by the quick tier of the check of the property they were written "
               f"against (seed 0, re-run after the last fix). {n_stale} older patches no longer apply there (later `fix:` commits rewrote the lines they edit) and {n_neut} became equivalent "
               f"(they extend a list argument in place, which the constructors now copy first); all of these were caught on the tree they were written against. See the notes below the table.")
    st = "\n".join(out)
    # 5.1: one row per fix: commit (from known_findings.json "fixed") and 5.2: one row per open finding
    kf = json.load(open(os.path.join(ROOT, "known_findings.json")))
    rows = ["| property | commit | what failed (first seen by the check of that property; 'also Cxx' = other checks that see it) |", "|---|---|---|"]
    for line in kf.get("fixed", []):
        m = re.match(r"fixed: property=(C\d+) (\w+) (.*)", line)
        if m:
            rows.append(f"| {m.group(1)} | `{m.group(2)}` | {m.group(3)} |")
    ft = "\n".join(rows) + f"\n\n{len(rows) - 2} repaired defects."
    def mech(f):
        k = f["key"]
        if "solver-presolve" in k: return "**solver defect** (HiGHS 1.15.1 presolve, with the library's tolerance 1e-9, declares a feasible model infeasible or returns a non-optimal 'optimal'); classified by re-solving with `presolve='off'`"
        if "edge-cap-uses-ignored-values" in k: return "(a) caps computed from attribute values of ignored elements"
        if "edge-cap+product-bound" in k: return "(a) and (b) together"
        if "edge-cap" in k: return "(a) optimum needs more traversals of an edge than the largest reachable weight"
        if "product-bound" in k: return "(b) optimum over-shoots an edge / needs a multiplicity above the bit width derived from `w_max`"
        if "one-node-route-possible" in k: return "one-node route through an isolated node of an edge-weighted graph is dropped as 'empty': fewer than k routes"
        return f["what_fails"][:170].replace("|", "/") + " ..."
    kt = "| key | mechanism |\n|---|---|\n" + "\n".join(f"| `{f['key']}` | {mech(f)} |" for f in kf["findings"]) + f"\n\n{len(kf['findings'])} open keys."
    p = os.path.join(ROOT, "DESIGN.md"); s = open(p).read()
    for tag, txt in (("MUTANT_TABLE", mt), ("SEEDED_TABLE", st), ("FIXED_TABLE", ft), ("KNOWN_TABLE", kt)):
        a, b = f"<!-- BEGIN {tag} -->", f"<!-- END {tag} -->"
        if f"@@{tag}@@" in s:
            s = s.replace(f"@@{tag}@@", f"{a}\n{txt}\n{b}")
        else:
            i, j = s.index(a), s.index(b)
            s = s[:i] + f"{a}\n{txt}\n" + s[j:]
    open(p, "w").write(s)
    print("tables written")


if __name__ == "__main__":
    main()
