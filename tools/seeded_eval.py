#!/usr/bin/env python3
"""Confirm and evaluate an independently seeded breaking change.

usage: tools/seeded_eval.py <seed_dir> <name> <property> [--checks C01,C02] [--tier quick] [--skip-tests] [--keep]

<seed_dir> contains patch.diff, demo.py (exit 0 without the change, 1 with it) and NOTES.md.
Steps (all on a scratch worktree of /repo HEAD under /var/tmp, removed afterwards; /repo itself is never touched):
  1. demo on the clean tree must exit 0          2. patch applies, changed files compile
  3. demo with the patch must exit != 0          4. the pinned test suite with the patch: same passes as on the clean tree
  5. the named checks run with FPVERIF_REPO=<scratch>: caught = exit 1 + VIOLATION line
On success the seed is stored as /verif/seeded/<name>/ {patch.diff, demo.py, NOTES.md, meta.json}.
"""
import sys, os, subprocess, shutil, json, argparse, tempfile, time, re
ROOT = os.path.dirname(os.path.dirname(os.path.abspath(__file__)))
PY = "/venv/bin/python"
EXPECTED_FAIL = {"least_abs_errors.py", "mfd_cycles.py", "min_path_error_extension.py", "safe_seq_cycles.py"}


def run(cmd, **kw):
    return subprocess.run(cmd, capture_output=True, text=True, **kw)


def main():
    ap = argparse.ArgumentParser()
    ap.add_argument("seed_dir"); ap.add_argument("name"); ap.add_argument("prop")
    ap.add_argument("--checks", default=None); ap.add_argument("--tier", default="quick")
    ap.add_argument("--skip-tests", action="store_true"); ap.add_argument("--keep", action="store_true")
    ap.add_argument("--seeds", default="0")
    a = ap.parse_args()
    checks = (a.checks or a.prop).split(",")
    base = tempfile.mkdtemp(prefix="fpverif-seed-", dir="/var/tmp")
    wt = os.path.join(base, "repo")
    meta = {"name": a.name, "property": a.prop, "source": "independent sub-agent (saw only the property text and a scratch worktree)", "ran": []}
    ok = True
    try:
        r = run(["git", "-C", "/repo", "worktree", "add", "--detach", wt, "HEAD"])
        assert r.returncode == 0, r.stderr
        env = dict(os.environ, PYTHONPATH=wt, PYTHONWARNINGS="ignore")
        demo = os.path.join(a.seed_dir, "demo.py")
        d0 = run([PY, demo], cwd=wt, env=env, timeout=1800)
        meta["ran"].append(f"demo on clean tree: exit {d0.returncode}")
        print("demo clean:", d0.returncode)
        if d0.returncode != 0:
            print(d0.stdout[-1500:], d0.stderr[-1500:]); ok = False
        ap_ = run(["git", "-C", wt, "apply", os.path.abspath(os.path.join(a.seed_dir, "patch.diff"))])
        if ap_.returncode != 0:
            # the patch was written against an earlier /repo HEAD (before a later fix: commit touched the same file): 3-way merge it
            ap_ = run(["git", "-C", wt, "apply", "--3way", os.path.abspath(os.path.join(a.seed_dir, "patch.diff"))])
            if ap_.returncode == 0:
                run(["git", "-C", wt, "reset", "-q"])
                d = run(["git", "-C", wt, "diff", "--", "flowpaths"]).stdout
                open(os.path.join(a.seed_dir, "patch.diff"), "w").write(d)     # keep the rebased patch (applies to the current HEAD)
                meta["ran"].append("patch rebased onto the current /repo HEAD with git apply --3way")
        if ap_.returncode != 0:
            print("patch does not apply:", ap_.stderr); ok = False
        else:
            files = [l[6:].strip() for l in open(os.path.join(a.seed_dir, "patch.diff")) if l.startswith("+++ b/")]
            meta["files"] = files
            for f in files:
                c = run([PY, "-m", "py_compile", os.path.join(wt, f)])
                if c.returncode != 0:
                    print("does not compile", f, c.stderr[-500:]); ok = False
            d1 = run([PY, demo], cwd=wt, env=env, timeout=1800)
            meta["ran"].append(f"demo with patch: exit {d1.returncode}")
            print("demo patched:", d1.returncode, (d1.stdout.strip().splitlines() or [""])[-1][:300])
            if d1.returncode == 0:
                ok = False
            if not a.skip_tests:
                t0 = time.time()
                t = run([PY, "-m", "pytest", "-q", "-p", "no:cacheprovider", "--timeout=900", "--continue-on-collection-errors"], cwd=wt, env=env, timeout=3000)
                tail = (t.stdout.strip().splitlines() or [""])[-1]
                failed = set(re.findall(r"FAILED tests/test_examples.py::test_example\[([^\]]+)\]", t.stdout))
                other = [l for l in t.stdout.splitlines() if l.startswith("FAILED") and "test_examples.py::test_example[" not in l]
                meta["ran"].append(f"pinned test suite with patch: {tail}")
                print("tests:", tail, f"({time.time() - t0:.0f}s)")
                if failed != EXPECTED_FAIL or other or " 50 passed" not in tail:
                    print("test suite differs from baseline:", failed ^ EXPECTED_FAIL, other[:5]); ok = False
            caught = {}
            for pid in checks:
                for seed in a.seeds.split(","):
                    envc = dict(os.environ, FPVERIF_REPO=wt, VERIF_SEED=seed)
                    c = run([os.path.join(ROOT, "check"), pid, a.tier, "--no-evidence"], env=envc, cwd=ROOT, timeout=7200)
                    hit = c.returncode == 1 and f"VIOLATION property={pid}" in c.stdout
                    sigs = sorted({l.strip().split("]")[0][1:] for l in c.stdout.splitlines() if l.strip().startswith("[")})
                    caught[f"{pid}/{a.tier}/seed{seed}"] = {"caught": hit, "rc": c.returncode, "signatures": sigs[:6]}
                    print(("CAUGHT " if hit else "MISSED ") + f"{pid} {a.tier} seed={seed} rc={c.returncode} {sigs[:3]}")
                    if not hit:
                        print("   ", (c.stdout.strip().splitlines() or [""])[-1][:300])
            meta["checks"] = caught
        meta["confirmed"] = ok
        if ok:
            dst = os.path.join(ROOT, "seeded", a.name)
            os.makedirs(dst, exist_ok=True)
            for f in ("patch.diff", "demo.py", "NOTES.md"):
                if os.path.exists(os.path.join(a.seed_dir, f)):
                    shutil.copy(os.path.join(a.seed_dir, f), os.path.join(dst, f))
            old = {}
            mp = os.path.join(dst, "meta.json")
            if os.path.exists(mp):
                old = json.load(open(mp))
                if "checks" in old and "checks" in meta:
                    old["checks"].update(meta["checks"]); meta["checks"] = old["checks"]
                if not any("pinned test suite" in x for x in meta["ran"]):
                    meta["ran"] += [x + " (earlier evaluation run)" for x in old.get("ran", []) if "pinned test suite" in x and "earlier evaluation" not in x] or [x for x in old.get("ran", []) if "pinned test suite" in x]
                for k in ("needs_to_manifest", "what"):
                    if k in old:
                        meta[k] = old[k]
            json.dump(meta, open(mp, "w"), indent=1)
            print("stored", dst)
        else:
            print("NOT CONFIRMED")
    finally:
        run(["git", "-C", "/repo", "worktree", "remove", "--force", wt])
        run(["git", "-C", "/repo", "worktree", "prune"])
        if not a.keep:
            shutil.rmtree(base, ignore_errors=True)
        shutil.rmtree("/var/tmp/fpverif-mutant-replay", ignore_errors=True)
    return 0 if ok else 1


if __name__ == "__main__":
    sys.exit(main())
